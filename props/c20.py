"""C20 - malformed data, horizons and settings are rejected, never silently mis-handled."""
from harness.core import cbool, clist, copt, cstr, cz, czlist

ID = "C20"
MODEL_TARGETS = ["C20/Cases.vo"]
PROOF_TARGETS = ["C20/Gen.vo", "C20/Bridge.vo", "C20/GenV.vo", "C20/BridgeV.vo", "C20/GenC.vo",
                 "C20/BridgeC.vo", "C20/Proofs.vo", "C20/ProofsC.vo"]
OBLIGATION_FILES = ["C20/Bridge.v", "C20/BridgeV.v", "C20/BridgeC.v"]
PROPS_FILE = "C20/Props.v"
SHARD = 500
PER_CASE_TIMEOUT = 120
RULE = ("cross product of entry points and malformed classes with randomised otherwise-valid "
        "context: (a) modelled in Coq - integer settings (int/bool/float/None/str, <=0 and >=1) per "
        "entry point, sliding splitter with raw settings and raw horizons, NaiveForecaster.fit over "
        "(strategy, sp, window, y container/order/length, X index, horizon), check_series flags, "
        "_set_fh of both mixins over (fitted, old, new) horizons, ensemble member lists and pipeline "
        "step lists (names dup/dunder/shadowing, kinds), check_fh; (b) oracle-only matrix - further "
        "entry points (poly/ensemble/pipeline/reduction fit, update, predict, evaluate, grid search, "
        "expanding/single/cutoff splitters, temporal_train_test_split) x malformed class, each with its "
        "nearest valid neighbour. non-trivial = a malformed case that is rejected or a valid neighbour "
        "that is accepted (i.e. not a driver error); distinct = distinct canonical JSON case")
TRUSTED = [
    "translator/pyz.py + translator/validate.py: is_int, check_window_length, check_step_length and "
    "_set_fh of both horizon mixins are regenerated from the source on every run and proved equal to "
    "the model (Bridge.v)",
    "modelled: Python's isinstance(x,(int,np.integer)) / isinstance(x,bool) on the value universe "
    "{int, bool, float, None, str}; `x < 1`; check_fh as fh_checked (sorted steps or rejection); "
    "np.array_equal on horizons; check_series / check_y_X / NaiveForecaster.fit / _check_names / "
    "_check_forecasters / _check_steps as hand models tied by correspondence only",
]
MODELLED = [
    "index TYPE rejection (float/object index) is not checked: the compat alias pd.Int64Index := "
    "pd.Index accepts more than pandas 1.x did (not in the property's list)",
    "NaiveForecaster(strategy='last', sp=True / sp=1.0): `self.sp == 1` treats them as sp=1 (no "
    "check_sp call on that path); sp=None is accepted by check_sp by design; bool horizons (True is an "
    "int in Python) - these are not generated and not claimed",
    "oracle-only matrix entries have no Coq model: the verdict is the property's own rule "
    "(malformed -> reject with ValueError/TypeError/NotImplementedError and no fitted state; valid "
    "neighbour -> accepted)",
]


def translate(repo):
    """Gen.v (settings validators, _set_fh), GenV.v (data / cv / composite / name validators,
    NaiveForecaster's rules), GenC.v (validation chains of the entry points); all fail closed."""
    from translator import chains_c20, validate
    files = validate.translate_all(repo)
    files.update(chains_c20.translate(repo))
    return files


# ------------------------------------------------------------------------------------------------
# value encodings

def pv_py(v):
    t = v[0]
    if t == "int":
        return int(v[1])
    if t == "bool":
        return bool(v[1])
    if t == "float":
        return v[1] / v[2]
    if t == "none":
        return None
    return "abc"


def pv_coq(v):
    t = v[0]
    if t == "int":
        return "(PInt %s)" % cz(v[1])
    if t == "bool":
        return "(PBool %s)" % cbool(v[1])
    if t == "float":
        return "(PFloat %s %s)" % (cz(v[1]), cz(v[2]))
    if t == "none":
        return "PNone"
    return "PStr"


def fh_py(f):
    if f[0] == "missing":
        return None
    if f[0] == "scalar":
        return pv_py(f[1])
    vals = [pv_py(v) for v in f[1]]
    # optional third field: the container the (all-int) steps are handed over in; the decision
    # rule (model: FhList) is the same for every container
    cont = f[2] if len(f) > 2 else "list"
    if cont == "array":
        import numpy as np
        return np.array(vals, dtype="int64")
    if cont == "index":
        import pandas as pd
        return pd.Index(vals, dtype="int64")
    return vals


def _fh_container(rng, f):
    """Hand an all-int list horizon over as list / int64 array / int64 pd.Index."""
    if f[0] == "list" and all(v[0] == "int" for v in f[1]) and rng.random() < 0.45:
        return f + [rng.choice(["array", "index", "index"])]
    return f


def fh_coq(f):
    if f[0] == "missing":
        return "FhMissing"
    if f[0] == "scalar":
        return "(FhScalar %s)" % pv_coq(f[1])
    return "(FhList %s)" % clist([pv_coq(v) for v in f[1]])


BAD_SETTINGS = [["int", 0], ["int", -1], ["int", -7], ["bool", True], ["bool", False],
                ["float", 2, 1], ["float", 5, 2], ["float", 1, 2], ["str"], ["none"]]


def rand_setting(rng, lo=1, hi=5):
    if rng.random() < 0.45:
        return ["int", rng.randint(lo, hi)]
    return list(rng.choice(BAD_SETTINGS))


def rand_fh(rng, hi=5, allow_missing=True):
    return _fh_container(rng, _rand_fh_list(rng, hi, allow_missing))


def _rand_fh_list(rng, hi=5, allow_missing=True):
    r = rng.random()
    if r < 0.45:
        k = rng.randint(1, 3)
        vals = sorted(rng.sample(range(1, hi + 1), k))
        rng.shuffle(vals)
        return ["list", [["int", v] if rng.random() < 0.85 else ["float", v, 1] for v in vals]]
    if r < 0.55:
        return ["scalar", ["int", rng.randint(1, hi)]]
    if r < 0.63:
        v = rng.randint(1, hi)
        return ["list", [["int", v], ["int", v], ["int", min(hi, v + 1)]]]       # duplicate
    if r < 0.70:
        return ["list", [["int", 1], ["float", 2 * rng.randint(1, 3) + 1, 2]]]   # fractional
    if r < 0.76:
        return ["list", []]                                                       # empty
    if r < 0.82:
        return ["scalar", ["str"]]                                                # wrong type
    if r < 0.87:
        return ["list", [["int", 1], ["str"]]]
    if r < 0.91:
        return ["scalar", ["float", 3, 2]]
    if r < 0.94:
        return ["list", [["float", 4, 2], ["int", 2]]]                            # 2.0 and 2: dup
    if allow_missing:
        return ["missing"]
    return ["scalar", ["int", 1]]


CONTS = ["series", "frame", "array1", "array2", "list"]


def rand_sdesc(rng, good=0.6, n_lo=8, n_hi=30):
    ik = rng.choice(["int", "range"])
    if rng.random() < good:
        return {"cont": "series", "len": rng.randint(n_lo, n_hi), "sorted": True, "idx": ik}
    c = rng.choice(CONTS)
    ln = rng.choice([0, 0, rng.randint(n_lo, n_hi)]) if rng.random() < 0.3 else rng.randint(n_lo, n_hi)
    return {"cont": c, "len": ln, "sorted": rng.random() < 0.6 or ln < 2, "idx": ik}


SETTING_ENTRIES = {
    # entry: none_ok
    "check_window_length": True, "check_step_length": True,
    "sliding.window_length": False, "sliding.step_length": False, "sliding.initial_window": True,
    "expanding.initial_window": False, "expanding.step_length": False,
    "single.window_length": True, "cutoff.window_length": False,
    # naive_mean.sp: NaiveForecaster documents `sp : int`; None only ever got past fit because
    # check_sp lets it through (predict then failed) - it is a wrongly-typed period here
    "naive_mean.window_length": True, "naive_mean.sp": False, "naive_drift.window_length": True,
    "reduce.window_length": False, "get_cutoffs.step_length": True,
}

MATRIX_ENTRIES = ["poly.fit", "ens.fit", "pipe.fit", "reduce.fit", "naive.update", "naive.predict",
                  "evaluate", "gscv.fit", "expanding.split", "single.split", "cutoff.split",
                  "tts_fh", "theta.fit", "update_predict"]
MATRIX_CLASSES = ["valid", "y_unsorted", "y_empty", "y_frame", "y_array", "y_list", "X_diff_index",
                  "X_unsorted", "X_array", "X_shorter",
                  "fh_dup", "fh_empty", "fh_frac", "fh_str", "fh_float"]
# (entry, class) pairs that do not apply (the entry does not take that argument) or are outside
# the property for that entry (see DESIGN.md C20): skipped, not guessed
MATRIX_SKIP = {
    ("naive.update", "y_empty"),       # empty update data is allowed by design (allow_empty=True)
    ("update_predict", "y_empty"),
    ("expanding.split", "y_array"), ("single.split", "y_array"), ("cutoff.split", "y_array"),
    ("expanding.split", "X_diff_index"), ("single.split", "X_diff_index"),
    ("cutoff.split", "X_diff_index"), ("naive.predict", "X_diff_index"),
    ("gscv.fit", "X_diff_index"), ("update_predict", "X_diff_index"),
    ("expanding.split", "X_unsorted"), ("single.split", "X_unsorted"), ("cutoff.split", "X_unsorted"),
    ("naive.predict", "X_unsorted"), ("gscv.fit", "X_unsorted"), ("update_predict", "X_unsorted"),
    ("expanding.split", "X_array"), ("single.split", "X_array"), ("cutoff.split", "X_array"),
    ("naive.predict", "X_array"), ("gscv.fit", "X_array"), ("update_predict", "X_array"),
    ("expanding.split", "X_shorter"), ("single.split", "X_shorter"), ("cutoff.split", "X_shorter"),
    ("naive.predict", "X_shorter"), ("gscv.fit", "X_shorter"), ("update_predict", "X_shorter"),
    ("tts_fh", "X_array"),             # numpy X has no index to compare: AttributeError family is
                                       # sklearn/pandas territory for this thin wrapper
    ("expanding.split", "y_frame"), ("single.split", "y_frame"), ("cutoff.split", "y_frame"),
    ("naive.predict", "y_unsorted"), ("naive.predict", "y_empty"), ("naive.predict", "y_frame"),
    ("naive.predict", "y_array"), ("naive.predict", "y_list"),
    ("naive.update", "fh_dup"), ("naive.update", "fh_empty"), ("naive.update", "fh_frac"),
    ("naive.update", "fh_str"), ("naive.update", "fh_float"),
    ("update_predict", "fh_dup"), ("update_predict", "fh_empty"), ("update_predict", "fh_frac"),
    ("update_predict", "fh_str"), ("update_predict", "fh_float"),
    ("tts_fh", "fh_empty"),
}


def _valid_fh(rng, hi=5):
    k = rng.randint(1, 3)
    vals = sorted(rng.sample(range(1, hi + 1), k))
    rng.shuffle(vals)
    if rng.random() < 0.15:
        return ["scalar", ["int", vals[0]]]
    return ["list", [["int", v] if rng.random() < 0.85 else ["float", v, 1] for v in vals]]


def _bad_fh(rng, hi=5):
    while True:
        f = rand_fh(rng, hi, allow_missing=False)
        if _fh_model(f) is None:
            return f


def gen_cases(rng, tier):
    """Mostly-valid inputs carrying at most ONE fault each (so that no fault masks another),
    plus a smaller stream of multi-fault inputs."""
    k = 1 if tier == "quick" else 8
    cases = []
    for entry, none_ok in SETTING_ENTRIES.items():
        vals = BAD_SETTINGS + [["int", 2], ["int", 3], ["int", 4]]
        for v in vals:
            cases.append({"kind": "setting", "entry": entry, "none_ok": none_ok, "v": v,
                          "n": rng.randint(30, 50)})
    # sliding splitter: valid configuration, then one fault (or none, or the feasibility boundary)
    for _ in range(90 * k):
        wl, step = rng.randint(1, 5), rng.randint(1, 3)
        iw = None if rng.random() < 0.6 else wl + rng.randint(1, 3)
        fh = _valid_fh(rng)
        fm = max(_fh_model(fh))
        n = max(wl, iw or 0) + fm + rng.choice([0, 0, 1, 2, 5, 9])
        c = {"kind": "sliding", "n": n, "fh": fh, "wl": ["int", wl], "step": ["int", step],
             "iw": ["none"] if iw is None else ["int", iw], "sww": True, "fault": "none"}
        fault = rng.choice(["none", "none", "wl", "step", "iw", "fh", "n", "sww", "iw_le_wl", "multi"])
        c["fault"] = fault
        if fault in ("wl", "step", "iw"):
            c[fault] = list(rng.choice([b for b in BAD_SETTINGS if not (fault == "iw" and b == ["none"])]))
        elif fault == "fh":
            c["fh"] = _bad_fh(rng) if rng.random() < 0.85 else ["missing"]
        elif fault == "n":
            c["n"] = max(1, max(wl, iw or 0) + fm - rng.choice([1, 1, 2]))
        elif fault == "sww":
            c["sww"] = False
        elif fault == "iw_le_wl":
            c["iw"] = ["int", max(1, wl - rng.choice([0, 0, 1]))]
        elif fault == "multi":
            c.update({"fh": rand_fh(rng), "wl": rand_setting(rng, 1, 6),
                      "step": rand_setting(rng, 1, 4), "sww": rng.random() < 0.7})
        cases.append(c)
    # NaiveForecaster.fit: valid input, then one fault
    for _ in range(150 * k):
        strat = rng.choice(["last", "mean", "drift"])
        n = rng.randint(8, 30)
        sp = rng.randint(1, 4)
        wl = None if rng.random() < 0.35 else rng.randint(max(2, sp), n)
        c = {"kind": "naive_fit", "strategy": strat, "sp": ["int", sp],
             "wl": ["none"] if wl is None else ["int", wl],
             "y": {"cont": "series", "len": n, "sorted": True,
                   "idx": rng.choice(["int", "range"])}, "X": None,
             "fh": _valid_fh(rng) if rng.random() < 0.8 else ["missing"]}
        if rng.random() < 0.3:
            c["X"] = {"desc": {"cont": "frame", "len": n, "sorted": True}, "same": True}
        fault = rng.choice(["none", "none", "sp", "wl", "y_cont", "y_unsorted", "y_empty", "X_diff",
                            "fh", "strategy", "wl_big", "sp_big", "wl_lt_sp", "drift_wl1", "multi"])
        c["fault"] = fault
        if fault == "sp":
            c["sp"] = list(rng.choice([b for b in BAD_SETTINGS if b != ["none"] and not (
                strat == "last" and b[0] in ("bool", "float"))]))
        elif fault == "wl":
            c["wl"] = list(rng.choice([b for b in BAD_SETTINGS if b != ["none"]]))
        elif fault == "y_cont":
            c["y"] = {"cont": rng.choice(["frame", "array1", "array2", "list"]), "len": n,
                      "sorted": True, "idx": rng.choice(["int", "range"])}
            c["X"] = None
        elif fault == "y_unsorted":
            c["y"]["sorted"] = False
            c["X"] = None
        elif fault == "y_empty":
            c["y"]["len"] = 0
            c["X"] = None
        elif fault == "X_diff":
            c["X"] = {"desc": {"cont": "frame", "len": n, "sorted": True}, "same": False}
        elif fault == "fh":
            c["fh"] = _bad_fh(rng)
        elif fault == "strategy":
            c["strategy"] = "unknown"
        elif fault == "wl_big":
            c["wl"] = ["int", n + rng.choice([1, 1, 2, 7])]
            if rng.random() < 0.4:
                c["wl"] = ["int", n]          # boundary: exactly fits
        elif fault == "sp_big":
            c["sp"] = ["int", n + rng.choice([0, 1, 1, 3])]
            c["wl"] = ["none"]
        elif fault == "wl_lt_sp":
            c["sp"] = ["int", 4]
            c["wl"] = ["int", rng.choice([2, 3, 4])]
        elif fault == "drift_wl1":
            c["strategy"] = "drift"
            c["wl"] = ["int", rng.choice([1, 1, 2])]
        elif fault == "multi":
            y = rand_sdesc(rng)
            c.update({"strategy": rng.choice(["last", "mean", "drift", "unknown"]),
                      "wl": rand_setting(rng, 1, 12), "y": y, "fh": rand_fh(rng), "X": None})
        cases.append(c)
    for _ in range(40 * k):
        cases.append({"kind": "series", "univariate": rng.random() < 0.5,
                      "allow_empty": rng.random() < 0.5, "allow_numpy": rng.random() < 0.5,
                      "s": rand_sdesc(rng, good=0.25, n_lo=1, n_hi=6)})
    # _set_fh: every (mixin, fitted, old, new) shape, the differing-horizon ones oversampled
    for _ in range(90 * k):
        required = rng.random() < 0.55
        fitted = rng.random() < 0.65
        old = None if rng.random() < (0.25 if fitted else 0.8) else sorted(
            rng.sample(range(1, 6), rng.randint(1, 3)))
        r = rng.random()
        if r < 0.2:
            f = None
        elif r < 0.4 and old is not None:
            f = ["list", [["int", v] for v in reversed(old)]]            # same horizon
        elif r < 0.6 and old is not None:
            new = list(old)
            new[rng.randrange(len(new))] = rng.choice([v for v in range(1, 8) if v not in old])
            f = ["list", [["int", v] for v in new]]                      # same length, differs
        elif r < 0.7 and old is not None:
            f = ["list", [["int", v] for v in old] + [["int", 9]]]        # superset
        elif r < 0.85:
            f = _valid_fh(rng)
        else:
            f = _bad_fh(rng)
        cases.append({"kind": "set_fh", "required": required, "fitted": fitted, "old": old, "f": f})
    # composites: valid structure, then one fault
    for _ in range(60 * k):
        m = rng.randint(1, 3)
        names = [{"id": j + 1, "dunder": False} for j in range(m)]
        c = {"kind": "members", "names": names, "allfc": True}
        fault = rng.choice(["none", "none", "empty", "dup", "dunder", "shadow", "nonfc", "multi"])
        c["fault"] = fault
        if fault == "empty":
            c["names"] = []
        elif fault == "dup":
            c["names"] = names + [dict(rng.choice(names))]
        elif fault == "dunder":
            rng.choice(names)["dunder"] = True
        elif fault == "shadow":
            rng.choice(names)["id"] = rng.choice([100, 101, 102])
        elif fault == "nonfc":
            c["allfc"] = False
        elif fault == "multi":
            for nm in names:
                if rng.random() < 0.4:
                    nm["dunder"] = True
                if rng.random() < 0.3:
                    nm["id"] = rng.choice([1, 100])
        cases.append(c)
    for _ in range(60 * k):
        m = rng.randint(1, 3)
        names = [{"id": j + 1, "dunder": False} for j in range(m)]
        kinds = ["tr"] * (m - 1) + ["fc"]
        c = {"kind": "pipeline", "names": names, "kinds": kinds}
        fault = rng.choice(["none", "none", "empty", "dup", "dunder", "shadow", "last_tr",
                            "last_other", "fc_middle", "other_middle"])
        c["fault"] = fault
        if fault == "empty":
            c["names"], c["kinds"] = [], []
        elif fault == "dup" and m >= 2:
            names[-1]["id"] = names[0]["id"]
        elif fault == "dunder":
            rng.choice(names)["dunder"] = True
        elif fault == "shadow":
            rng.choice(names)["id"] = 100
        elif fault == "last_tr":
            kinds[-1] = "tr"
        elif fault == "last_other":
            kinds[-1] = "other"
        elif fault == "fc_middle" and m >= 2:
            kinds[0] = "fc"
        elif fault == "other_middle" and m >= 2:
            kinds[0] = "other"
        cases.append(c)
    for _ in range(40 * k):
        cases.append({"kind": "fh", "f": rand_fh(rng)})
    cases += gen_validator_cases(rng, k)
    for e in MATRIX_ENTRIES:
        for c in MATRIX_CLASSES:
            if (e, c) in MATRIX_SKIP:
                continue
            for _ in range(1 if tier == "quick" else 4):
                for ik in (("int", "range") if c in ("y_unsorted", "valid") else
                           (rng.choice(["int", "range"]),)):
                    cases.append({"kind": "matrix", "entry": e, "cls": c, "n": rng.randint(14, 30),
                                  "start": rng.choice([0, 0, 3, 50]), "idx": ik})
    return cases


# ------------------------------------------------------------------------------------------------
# implementation side

REJECT = ("ValueError", "TypeError", "NotImplementedError")


def _mk_y(d, start=0):
    import numpy as np
    import pandas as pd
    n = d["len"]
    vals = (np.arange(n, dtype=float) * 1.5 + 2.0) % 7 + 1.0
    idx = np.arange(start, start + n)
    if not d["sorted"] and n >= 2:
        idx = idx[::-1].copy()
    index = pd.Index(idx)
    if d.get("idx") == "range":
        # the default index type; reversed it is a RangeIndex with a negative step
        index = pd.RangeIndex(start, start + n)
        if not d["sorted"] and n >= 2:
            index = index[::-1]
    c = d["cont"]
    if c == "series":
        return pd.Series(vals, index=index)
    if c == "frame":
        return pd.DataFrame({"a": vals, "b": vals + 1}, index=index)
    if c == "array1":
        return vals
    if c == "array2":
        return np.column_stack([vals, vals])
    return list(vals)


def _describe(o):
    """The abstract description (`series` of ModelV.v) of an actual data argument."""
    import hashlib
    import numpy as np
    import pandas as pd
    if isinstance(o, pd.Index):
        idx, cont = o, "index"
    elif isinstance(o, pd.Series):
        idx, cont = o.index, "series"
    elif isinstance(o, pd.DataFrame):
        idx, cont = o.index, "frame"
    elif isinstance(o, np.ndarray):
        return {"cont": "array1" if o.ndim == 1 else "array2", "len": int(o.shape[0]),
                "sorted": bool(o.ndim != 1 or np.all(np.diff(o) >= 0)), "idx": "int",
                "lab": hashlib.md5(repr(o.tolist()).encode()).hexdigest()[:10], "const": False}
    elif isinstance(o, list):
        return {"cont": "list", "len": len(o), "sorted": True, "idx": "int", "lab": "list",
                "const": False}
    else:
        raise AssertionError(type(o))
    kind = {pd.RangeIndex: "range", pd.PeriodIndex: "period", pd.DatetimeIndex: "datetime",
            pd.Index: "int"}.get(type(idx), "other")
    vals = o.values if cont in ("series", "frame") else None
    return {"cont": cont, "len": int(len(idx)), "sorted": bool(idx.is_monotonic_increasing),
            "idx": kind, "lab": hashlib.md5(repr([str(x) for x in idx]).encode()).hexdigest()[:10],
            "const": bool(cont == "series" and len(o) > 0 and np.all(vals == vals[0]))}


def _fh_abs(fh):
    """A raw horizon argument as the `fh_input` encoding of the cases."""
    if fh is None:
        return ["missing"]
    if isinstance(fh, bool):
        return ["scalar", ["bool", fh]]
    if isinstance(fh, int):
        return ["scalar", ["int", fh]]
    if isinstance(fh, float):
        from fractions import Fraction
        q = Fraction(fh)
        return ["scalar", ["float", q.numerator, q.denominator]]
    if isinstance(fh, str):
        return ["scalar", ["str"]]
    out = []
    for v in fh:
        if isinstance(v, float):
            from fractions import Fraction
            q = Fraction(v)
            out.append(["float", q.numerator, q.denominator])
        elif isinstance(v, str):
            out.append(["str"])
        else:
            out.append(["int", int(v)])
    return ["list", out]


def _verdict(f, fitted_of=None):
    """Run f; classify. Returns dict(verdict=accept|reject|other, exc=..., fitted=bool|None)."""
    try:
        r = f()
        return {"verdict": "accept", "result": r}
    except (ValueError, TypeError, NotImplementedError) as e:
        return {"verdict": "reject", "exc": type(e).__name__}
    except Exception as e:  # unrelated error family
        return {"verdict": "other", "exc": type(e).__name__ + ": " + str(e)[:120]}


def _good_y(n=30, start=0, idx="int"):
    return _mk_y({"cont": "series", "len": n, "sorted": True, "idx": idx}, start)


def _setting(case):
    import numpy as np
    from sklearn.linear_model import LinearRegression
    from sktime.forecasting.compose import make_reduction
    from sktime.forecasting.model_selection import (
        CutoffSplitter, ExpandingWindowSplitter, SingleWindowSplitter, SlidingWindowSplitter)
    from sktime.forecasting.naive import NaiveForecaster
    from sktime.utils.validation import check_window_length
    from sktime.utils.validation.forecasting import check_step_length
    v = pv_py(case["v"])
    y = _good_y(case["n"])
    e = case["entry"]
    holder = {}

    def fit(fc):
        holder["fc"] = fc
        fc.fit(y, fh=[1, 2])
        return True
    table = {
        "check_window_length": lambda: check_window_length(v) is v or True,
        "check_step_length": lambda: check_step_length(v) is v or True,
        "sliding.window_length": lambda: len(list(SlidingWindowSplitter(
            fh=[1], window_length=v).split(y))),
        "sliding.step_length": lambda: len(list(SlidingWindowSplitter(
            fh=[1], window_length=3, step_length=v).split(y))),
        "sliding.initial_window": lambda: len(list(SlidingWindowSplitter(
            fh=[1], window_length=1, initial_window=v).split(y))),
        "expanding.initial_window": lambda: len(list(ExpandingWindowSplitter(
            fh=[1], initial_window=v).split(y))),
        "expanding.step_length": lambda: len(list(ExpandingWindowSplitter(
            fh=[1], initial_window=3, step_length=v).split(y))),
        "get_cutoffs.step_length": lambda: len(SlidingWindowSplitter(
            fh=[1], window_length=3, step_length=v).get_cutoffs(y)),
        "single.window_length": lambda: len(list(SingleWindowSplitter(
            fh=[1], window_length=v).split(y))),
        "cutoff.window_length": lambda: len(list(CutoffSplitter(
            np.array([10, 12]), fh=[1], window_length=v).split(y))),
        "naive_mean.window_length": lambda: fit(NaiveForecaster("mean", window_length=v)),
        "naive_mean.sp": lambda: fit(NaiveForecaster("mean", sp=v)),
        "naive_drift.window_length": lambda: fit(NaiveForecaster("drift", window_length=v)),
        "reduce.window_length": lambda: fit(make_reduction(
            LinearRegression(), strategy="multioutput", window_length=v)),
    }
    r = _verdict(table[e])
    r.pop("result", None)
    if "fc" in holder:
        r["fitted"] = bool(holder["fc"].is_fitted)
    return r


def _names(names, shadow):
    out = []
    for nm in names:
        base = shadow.get(nm["id"], "n%d" % nm["id"])
        out.append(base + ("__x" if nm["dunder"] else ""))
    return out


def run_impl(case):
    import numpy as np
    import pandas as pd
    k = case["kind"]
    if k == "setting":
        return _setting(case)
    if k == "sliding":
        from sktime.forecasting.model_selection import SlidingWindowSplitter
        y = _good_y(case["n"])
        r = _verdict(lambda: len(list(SlidingWindowSplitter(
            fh=fh_py(case["fh"]), window_length=pv_py(case["wl"]), step_length=pv_py(case["step"]),
            initial_window=pv_py(case["iw"]), start_with_window=case["sww"]).split(y))))
        return r
    if k == "naive_fit":
        from sktime.forecasting.naive import NaiveForecaster
        strat = {"unknown": "foo"}.get(case["strategy"], case["strategy"])
        fc = NaiveForecaster(strategy=strat, sp=pv_py(case["sp"]),
                             window_length=pv_py(case["wl"]))
        y = _mk_y(case["y"])
        X = None
        if case["X"] is not None:
            X = _mk_y(case["X"]["desc"], start=0 if case["X"]["same"] else 1)
        r = _verdict(lambda: fc.fit(y, X, fh=fh_py(case["fh"])) is fc)
        r["fitted"] = bool(fc.is_fitted)
        if r["verdict"] == "accept":
            r["fh_steps"] = None if fc._fh is None else [int(v) for v in fc._fh.to_pandas()]
        return r
    if k == "series":
        from sktime.utils.validation.series import check_series
        s = _mk_y(case["s"])
        return _verdict(lambda: check_series(s, enforce_univariate=case["univariate"],
                                             allow_empty=case["allow_empty"],
                                             allow_numpy=case["allow_numpy"]) is s)
    if k == "set_fh":
        from sklearn.linear_model import LinearRegression
        from sktime.forecasting.base import ForecastingHorizon
        from sktime.forecasting.compose import make_reduction
        from sktime.forecasting.naive import NaiveForecaster
        fc = (make_reduction(LinearRegression(), strategy="direct", window_length=2)
              if case["required"] else NaiveForecaster())
        fc._is_fitted = case["fitted"]
        fc._fh = None if case["old"] is None else ForecastingHorizon(case["old"])
        f = None if case["f"] is None else fh_py(case["f"])
        r = _verdict(lambda: fc._set_fh(f))
        r.pop("result", None)
        if r["verdict"] == "accept":
            r["fh_steps"] = None if fc._fh is None else [int(v) for v in fc._fh.to_pandas()]
        return r
    if k == "members":
        from sktime.forecasting.compose import EnsembleForecaster
        from sktime.forecasting.naive import NaiveForecaster
        from sktime.transformations.series.detrend import Detrender
        shadow = {100: "forecasters", 101: "n_jobs", 102: "aggfunc"}
        names = _names(case["names"], shadow)
        members = [(nm, NaiveForecaster()) for nm in names]
        if not case["allfc"] and members:
            members[-1] = (members[-1][0], Detrender())
        fc = EnsembleForecaster(members)
        r = _verdict(lambda: fc.fit(_good_y(12), fh=[1]) is fc)
        r["fitted"] = bool(fc.is_fitted)
        return r
    if k == "pipeline":
        from sklearn.linear_model import LinearRegression
        from sktime.forecasting.compose import TransformedTargetForecaster
        from sktime.forecasting.naive import NaiveForecaster
        from sktime.transformations.series.detrend import Detrender
        names = _names(case["names"], {100: "steps"})
        mk = {"tr": Detrender, "fc": NaiveForecaster, "other": LinearRegression}
        steps = [(nm, mk[kd]()) for nm, kd in zip(names, case["kinds"])]
        fc = TransformedTargetForecaster(steps)
        r = _verdict(lambda: fc.fit(_good_y(12), fh=[1]) is fc)
        r["fitted"] = bool(fc.is_fitted)
        return r
    if k == "fh":
        from sktime.utils.validation.forecasting import check_fh
        holder = {}

        def go():
            holder["fh"] = check_fh(fh_py(case["f"]))
            return True
        r = _verdict(go)
        if r["verdict"] == "accept":
            r["fh_steps"] = [int(v) for v in holder["fh"].to_pandas()]
        return r
    if k == "matrix":
        return _matrix(case)
    if k == "validator":
        return _validator(case)
    raise AssertionError(k)


def _matrix(case):
    import numpy as np
    import pandas as pd
    from sklearn.linear_model import LinearRegression
    from sktime.forecasting.base import ForecastingHorizon
    from sktime.forecasting.compose import (EnsembleForecaster, TransformedTargetForecaster,
                                            make_reduction)
    from sktime.forecasting.model_evaluation import evaluate
    from sktime.forecasting.model_selection import (
        CutoffSplitter, ExpandingWindowSplitter, ForecastingGridSearchCV, SingleWindowSplitter,
        SlidingWindowSplitter, temporal_train_test_split)
    from sktime.forecasting.naive import NaiveForecaster
    from sktime.forecasting.theta import ThetaForecaster
    from sktime.forecasting.trend import PolynomialTrendForecaster
    from sktime.transformations.series.detrend import Detrender
    n, start, cls, e = case["n"], case["start"], case["cls"], case["entry"]
    good = _good_y(n, start, case.get("idx", "int"))
    y = good
    if cls == "y_unsorted":
        y = good.iloc[::-1]
    elif cls == "y_empty":
        y = good.iloc[:0]
    elif cls == "y_frame":
        y = pd.DataFrame({"a": good, "b": good})
    elif cls == "y_array":
        y = good.values
    elif cls == "y_list":
        y = list(good.values)
    X = None
    if cls == "X_diff_index":
        X = pd.DataFrame({"x": np.arange(n, dtype=float)}, index=pd.RangeIndex(start + 1, start + n + 1))
    elif cls == "X_unsorted":
        X = pd.DataFrame({"x": np.arange(n, dtype=float)}, index=good.index).iloc[::-1]
    elif cls == "X_array":
        X = np.arange(n, dtype=float).reshape(-1, 1)
    elif cls == "X_shorter":
        X = pd.DataFrame({"x": np.arange(n - 1, dtype=float)}, index=good.index[: n - 1])
    fh = {"fh_dup": [1, 2, 2], "fh_empty": [], "fh_frac": [1, 2.5], "fh_str": "a",
          "fh_float": 1.5}.get(cls, [1, 2])
    holder = {"args": (y, X)}

    def fit(fc):
        holder["fc"] = fc
        fc.fit(y, X, fh=fh)
        return True

    def upd():
        fc = NaiveForecaster().fit(good.iloc[: n - 4], fh=[1])
        holder["upd"] = fc
        ynew = good.iloc[n - 4:] if y is good else y
        Xn = None
        if X is not None:
            Xn = X[n - 4:] if isinstance(X, np.ndarray) else (
                X.iloc[:4] if cls == "X_unsorted" else (
                    X.iloc[n - 4: n - 1] if cls == "X_shorter" else X.iloc[n - 4:]))
            fc = NaiveForecaster().fit(good.iloc[: n - 4], pd.DataFrame(
                {"x": np.arange(n - 4, dtype=float)}, index=good.index[: n - 4]), fh=[1])
            holder["upd"] = fc
        holder["args"] = (ynew, Xn)
        fc.update(ynew, Xn, update_params=False)
        return True

    def updpred():
        fc = NaiveForecaster().fit(good.iloc[: n - 5], fh=[1])
        ynew = good.iloc[n - 5:] if y is good else y
        holder["args"] = (ynew, None)
        return len(fc.update_predict(ynew, SlidingWindowSplitter(fh=[1], window_length=1)))
    cv = ExpandingWindowSplitter(fh=fh, initial_window=5)
    table = {
        "poly.fit": lambda: fit(PolynomialTrendForecaster()),
        "theta.fit": lambda: fit(ThetaForecaster()),
        "ens.fit": lambda: fit(EnsembleForecaster([("a", NaiveForecaster()),
                                                   ("b", PolynomialTrendForecaster())])),
        "pipe.fit": lambda: fit(TransformedTargetForecaster([("d", Detrender()),
                                                             ("f", NaiveForecaster())])),
        "reduce.fit": lambda: fit(make_reduction(LinearRegression(), strategy="multioutput",
                                                 window_length=3)),
        "naive.update": upd,
        "update_predict": updpred,
        "naive.predict": lambda: len(NaiveForecaster().fit(good).predict(fh)),
        "evaluate": lambda: len(evaluate(NaiveForecaster(), cv, y, X)),
        "gscv.fit": lambda: fit(ForecastingGridSearchCV(
            NaiveForecaster(), ExpandingWindowSplitter(fh=[1], initial_window=5),
            {"strategy": ["last", "mean"]})),
        "expanding.split": lambda: len(list(cv.split(y))),
        "single.split": lambda: len(list(SingleWindowSplitter(fh=fh, window_length=4).split(y))),
        "cutoff.split": lambda: len(list(CutoffSplitter(np.array([6, 8]), fh=fh,
                                                        window_length=3).split(y))),
        "tts_fh": lambda: len(temporal_train_test_split(
            y, X, fh=(ForecastingHorizon(fh) if cls.startswith("fh_") else
                      ForecastingHorizon([1, 2])))),
    }
    r = _verdict(table[e])
    r.pop("result", None)
    ya, Xa = holder["args"]
    r["args"] = {"y": _describe(ya), "X": None if Xa is None else _describe(Xa), "fh": _fh_abs(fh)}
    if "fc" in holder:
        r["fitted"] = bool(holder["fc"].is_fitted)
    if "upd" in holder:
        r["cutoff_after"] = int(holder["upd"].cutoff)
        r["cutoff_before"] = int(good.index[n - 5])
    return r


# ------------------------------------------------------------------------------------------------
# oracle: the property's rule on the implementation's behaviour


def _posint(v, none_ok):
    return (v[0] == "int" and v[1] >= 1) or (none_ok and v[0] == "none")


def _fh_model(f):
    """Python twin of fh_checked (Model.v): sorted steps or None for rejection."""
    if f[0] == "missing":
        return None
    if f[0] == "scalar":
        return [f[1][1]] if f[1][0] == "int" else None
    zs = []
    for v in f[1]:
        if v[0] == "int":
            zs.append(v[1])
        elif v[0] == "float" and v[2] > 0 and v[1] % v[2] == 0:
            zs.append(v[1] // v[2])
        else:
            return None
    if not zs or len(set(zs)) != len(zs):
        return None
    return sorted(zs)


def _expect(case):
    """(expected verdict, why) by the property's rule, for kinds with a closed-form rule."""
    k = case["kind"]
    if k == "setting":
        ok = _posint(case["v"], case["none_ok"])
        if case["entry"] == "naive_drift.window_length" and case["v"] == ["int", 1]:
            ok = False
        return ok
    if k == "matrix":
        return case["cls"] == "valid"
    if k == "validator":
        return _expect_validator(case)
    if k == "fh":
        return _fh_model(case["f"]) is not None
    if k == "series":
        s = case["s"]
        c = s["cont"]
        if c == "list":
            return False
        if c == "array1":
            return case["allow_numpy"]
        if c == "array2":
            return case["allow_numpy"] and not case["univariate"]
        ok = s["sorted"] and (case["allow_empty"] or s["len"] >= 1)
        if c == "frame":
            ok = ok and not case["univariate"]
        return ok
    if k in ("members", "pipeline"):
        shadow = {100, 101, 102} if k == "members" else {100}
        nm = [(n["id"], n["dunder"]) for n in case["names"]]
        ok = bool(nm) and len(set(nm)) == len(nm) and not any(d for _, d in nm) \
            and not any((i in shadow and not d) for i, d in nm)
        if k == "members":
            return ok and case["allfc"]
        kinds = case["kinds"]
        return ok and kinds[-1] == "fc" and all(x == "tr" for x in kinds[:-1])
    if k == "sliding":
        zs = _fh_model(case["fh"])
        if not (_posint(case["wl"], False) and _posint(case["step"], False)
                and _posint(case["iw"], True)) or zs is None:
            return False
        wl, fm, n = case["wl"][1], max(zs), case["n"]
        iw = case["iw"][1] if case["iw"][0] == "int" else None
        return wl + fm <= n and (iw is None or (iw + fm <= n and case["sww"] and wl < iw))
    if k == "naive_fit":
        y = case["y"]
        if y["cont"] != "series" or not (y["sorted"] or y["len"] < 2) or y["len"] < 1:
            return False
        if case["X"] is not None and not case["X"]["same"]:
            return False
        if case["fh"][0] != "missing" and _fh_model(case["fh"]) is None:
            return False
        st, sp, wl, n = case["strategy"], case["sp"], case["wl"], y["len"]
        if st == "unknown":
            return False
        if st == "last":
            return sp[0] == "int" and 1 <= sp[1] <= n
        if not _posint(wl, True):
            return False
        if st == "mean":
            if not _posint(sp, False):
                return False
            if wl[0] == "int":
                return not (sp[1] != 1 and wl[1] < sp[1]) and wl[1] <= n
            return not (sp[1] != 1 and n < sp[1])      # default window: series shorter than a season
        if wl[0] == "int":
            return wl[1] != 1 and wl[1] <= n
        return n != 1                                   # drift: no line through one observation
    return None


def oracle(case, out):
    k = case["kind"]
    v = out["verdict"]
    if v == "other":
        return "unrelated-error: %s %s raised %s" % (k, case.get("entry", ""), out["exc"])
    if out.get("fitted") and v == "reject":
        return "fitted-after-rejection: %s" % case.get("entry", k)
    if v == "accept" and out.get("fitted") is False:
        return "not-fitted-after-accepted-fit: %s" % case.get("entry", k)
    exp = _expect(case)
    if exp is not None:
        if exp and v != "accept":
            return "valid-input-rejected: %s %s: %s" % (k, case.get("entry", case.get("fn", "")),
                                                         out.get("exc"))
        if not exp and v == "accept":
            return "malformed-input-accepted: %s %s %s" % (
                k, case.get("entry", case.get("fn", "")), case.get("cls", case.get("v", "")))
    if k == "matrix" and case["entry"] == "naive.update" and v == "reject":
        if out.get("cutoff_after") != out.get("cutoff_before"):
            return "state-changed-by-rejected-update: cutoff %s -> %s" % (
                out.get("cutoff_before"), out.get("cutoff_after"))
    if k in ("fh", "set_fh", "naive_fit") and v == "accept" and "fh_steps" in out:
        st = out["fh_steps"]
        if st is not None and (st != sorted(st) or len(set(st)) != len(st)):
            return "accepted-horizon-not-sorted-unique: %s" % st
    if k == "fh" and v == "accept" and out["fh_steps"] != _fh_model(case["f"]):
        return "horizon-coerced: got %s for %s" % (out["fh_steps"], case["f"])
    if k == "set_fh":
        f, old = case["f"], case["old"]
        steps = None if f is None else _fh_model(f)
        if f is not None and steps is None and v == "accept":
            return "malformed-input-accepted: set_fh invalid horizon"
        if f is None and not case["required"] and case["fitted"] and old is None and v == "accept":
            return "missing-horizon-accepted: optional mixin, fitted, none known"
        if f is None and case["required"] and not case["fitted"] and v == "accept":
            return "missing-horizon-accepted: required mixin before fit"
        if (steps is not None and case["required"] and case["fitted"] and steps != old
                and v == "accept"):
            return "different-horizon-accepted: fitted with %s, given %s" % (old, steps)
        if v == "reject" and steps is not None and not (case["required"] and case["fitted"]):
            return "valid-input-rejected: set_fh %s" % out.get("exc")
    return None


def nontrivial(case, out):
    return out.get("verdict") in ("accept", "reject")


def shrink(case):
    c = dict(case)
    if isinstance(c.get("n"), int) and c["n"] > 8:
        d = dict(c)
        d["n"] = c["n"] - 1
        yield d
    for key in ("wl", "step", "iw", "sp"):
        v = c.get(key)
        if isinstance(v, list) and v and v[0] == "int" and v[1] > 1:
            d = dict(c)
            d[key] = ["int", v[1] - 1]
            yield d
    if c.get("X") is not None:
        d = dict(c)
        d["X"] = None
        yield d
    f = c.get("fh") if c["kind"] != "fh" else c.get("f")
    if isinstance(f, list) and f and f[0] == "list" and len(f[1]) > 1:
        for i in range(len(f[1])):
            d = dict(c)
            d["fh" if c["kind"] != "fh" else "f"] = ["list", f[1][:i] + f[1][i + 1:]] + f[2:]
            yield d
    if c.get("names") and len(c["names"]) > 1:
        for i in range(len(c["names"])):
            d = dict(c)
            d["names"] = c["names"][:i] + c["names"][i + 1:]
            if "kinds" in c:
                d["kinds"] = c["kinds"][:i] + c["kinds"][i + 1:]
            yield d



# ------------------------------------------------------------------------------------------------
# entry points and validators on the abstract descriptions of ModelV.v / Chain.v

IDXK = {"int": "KInt64", "range": "KRange", "period": "KPeriod", "datetime": "KDatetime",
        "other": "KOtherIndex", "ndarray": "KNdarray"}
FRESH = "{| e_fitted := false; e_fh := None; e_log := [] |}"


def _fitted_state(fh_steps):
    return "{| e_fitted := true; e_fh := %s; e_log := [] |}" % copt(fh_steps, czlist)


def _series(d, labs):
    """`series` term; `labs` maps label sequences to identifiers (shared by one case)."""
    lab = labs.setdefault(d["lab"], len(labs))
    return ("{| sd := {| cont := %s; slen := %s; ssorted := %s |}; sidx := %s; slab := %s; "
            "sconst := %s |}" % (CONT[d["cont"]], cz(d["len"]), cbool(d["sorted"]), IDXK[d["idx"]],
                                 cz(lab), cbool(d.get("const", False))))


def _ixdesc(d, labs):
    lab = labs.setdefault(d["lab"], len(labs))
    return "{| ik := %s; ilen := %s; isorted := %s; ilab := %s |}" % (
        IDXK[d["idx"]], cz(d["len"]), cbool(d["sorted"]), cz(lab))


def _member(j, kind):
    return "({| nid := %d; has_dunder := false |}, %s)" % (2 * j, kind)


CI_DEFAULT = [
    ("a_y", None), ("a_X", "None"), ("a_fh", "None"), ("a_fh_relative", "true"), ("a_cv", "None"),
    ("a_ret_int", "false"), ("a_update_params", "false"), ("a_sizes_given", "false"),
    ("a_strategy", '"refit"%string'), ("a_scitype", '"infer"%string'), ("a_infer_ok", "true"),
    ("a_scoring", "None"), ("c_required_fh", "false"), ("c_strategy", "SLast"),
    ("c_sp", "(PInt 1)"), ("c_wl", "PNone"), ("c_step", "(PInt 1)"), ("c_iw", "PNone"),
    ("c_sww", "true"), ("c_fh", "(FhScalar (PInt 1))"), ("c_cutoffs_arr", "true"),
    ("c_cutoffs", "[]"), ("c_forecasters", "FcsNone"), ("c_steps", "[]"), ("c_params", "[]"),
    ("c_aggfunc", '"mean"%string'), ("c_cv", "CvOther"), ("c_scoring", "None"),
    ("c_refit", "true"),
]


def _ci(**kw):
    d = dict(CI_DEFAULT)
    for k in kw:
        assert k in d, k
    d.update(kw)
    return "{| " + "; ".join("%s := %s" % (k, d[k]) for k, _ in CI_DEFAULT) + " |}"


def _matrix_model(case, out):
    """(stages, call_in fields, compare the fitted flag?) for an entry of the matrix: which
    regenerated chains run, on which object, with which configuration (as built in _matrix)."""
    a = out["args"]
    labs = {}
    base = dict(a_y=_series(a["y"], labs),
                a_X="None" if a["X"] is None else "(Some %s)" % _series(a["X"], labs),
                a_fh="(Some %s)" % fh_coq(a["fh"]))
    fh = fh_coq(a["fh"])
    e = case["entry"]
    sliding1 = dict(c_fh="(FhList [PInt 1])", c_wl="(PInt 1)", c_step="(PInt 1)", c_iw="PNone",
                    c_sww="true")
    if e == "poly.fit":
        return [(["E_poly_fit"], FRESH)], base, True
    if e == "theta.fit":
        return [(["E_theta_fit"], FRESH)], dict(base, c_sp="(PInt 1)"), True
    if e == "ens.fit":
        return [(["E_ens_fit"], FRESH)], dict(
            base, c_forecasters="(FcsList [%s; %s])" % (_member(1, "MForecaster"),
                                                       _member(2, "MForecaster")),
            c_params="[200; 202; 204]"), True
    if e == "pipe.fit":
        return [(["E_ttf_fit"], FRESH)], dict(
            base, c_steps="[%s; %s]" % (_member(1, "MTransformer"), _member(2, "MForecaster")),
            c_params="[200]"), True
    if e == "reduce.fit":
        return [(["E_reducer_fit", "E_multioutput_fit", "E_sliding_window_transform"], FRESH)], dict(
            base, c_required_fh="true", c_wl="(PInt 3)", c_step="(PInt 1)"), False
    if e == "naive.update":
        return [(["E_update"], _fitted_state([1]))], dict(base, a_fh="None"), False
    if e == "update_predict":
        return [(["E_bw_update_predict", "E_split", "E_window_split"], _fitted_state([1]))], dict(
            base, a_fh="None", a_cv="(Some (CvSplitter true true))", **sliding1), False
    if e == "naive.predict":
        return [(["E_predict"], _fitted_state(None))], base, False
    if e == "evaluate":
        return [(["E_evaluate", "E_split", "E_window_split"], FRESH)], dict(
            base, a_cv="(Some (CvSplitter true true))", c_fh=fh, c_wl="(PInt 5)"), False
    if e == "gscv.fit":
        return [(["E_gscv_fit"], FRESH), (["E_naive_fit"], FRESH)], dict(
            base, c_cv="(CvSplitter true true)"), False
    if e == "expanding.split":
        return [(["E_split", "E_window_split"], FRESH)], dict(base, c_fh=fh, c_wl="(PInt 5)"), False
    if e == "single.split":
        return [(["E_split", "E_single_split"], FRESH)], dict(base, c_fh=fh, c_wl="(PInt 4)"), False
    if e == "cutoff.split":
        return [(["E_split", "E_cutoff_split"], FRESH)], dict(
            base, c_fh=fh, c_wl="(PInt 3)", c_cutoffs="[6; 8]"), False
    if e == "tts_fh":
        return [(["E_tts"], FRESH)], base, False
    return None


def _stages(st):
    return clist(["(%s, %s)" % (clist(es), s0) for es, s0 in st])


def _matrix_coq(case, out, acc):
    if "args" not in out:
        return None
    m = _matrix_model(case, out)
    if m is None:
        return None
    st, fields, cmp_fit = m
    fit = "None"
    if cmp_fit and "fitted" in out:
        fit = "(Some %s)" % cbool(out["fitted"])
    return "TRun %s %s %s %s" % (_stages(st), _ci(**fields), acc, fit)


# ---- direct calls of the regenerated validators ---------------------------------------------------

VAL_STR = {"eval_strategy": (["refit", "update"], ["Refit", "fit", "updating", ""]),
           "reduce_strategy": (["direct", "recursive", "multioutput", "dirrec"],
                               ["Direct", "multi", "rec", ""]),
           "scitype": (["infer", "tabular-regressor", "time-series-regressor"],
                       ["tabular", "regressor", ""]),
           "aggfunc": (["median", "mean", "min", "max"], ["sum", "Mean", "avg", ""])}
EITS = [None, None, "int", "range", "period"]


def _rand_data(rng, n_lo=0, n_hi=6, conts=("series", "series", "frame", "array1", "array2", "list"),
               kinds=("int", "range", "period", "datetime", "other")):
    n = rng.choice([0, 1, 1, rng.randint(2, n_hi)]) if n_lo == 0 else rng.randint(n_lo, n_hi)
    return {"cont": rng.choice(conts), "n": n, "idx": rng.choice(kinds),
            "sorted": rng.random() < 0.7, "start": rng.choice([0, 0, 3])}


def gen_validator_cases(rng, k):
    cases = []

    def add(fn, **kw):
        cases.append(dict({"kind": "validator", "fn": fn}, **kw))
    for _ in range(36 * k):
        d = _rand_data(rng, conts=("index",), kinds=("int", "range", "period", "datetime", "other",
                                                      "ndarray"))
        add("check_time_index", d=d, allow_empty=rng.random() < 0.4, eit=rng.choice(EITS))
    for _ in range(40 * k):
        add("check_series", d=_rand_data(rng), univariate=rng.random() < 0.5,
            allow_empty=rng.random() < 0.4, allow_numpy=rng.random() < 0.5, eit=rng.choice(EITS))
    for _ in range(16 * k):
        d = _rand_data(rng)
        # (allow_constant=False on an empty series evaluates y.iloc[0]: IndexError, no verdict)
        add("check_y", d=d, allow_empty=rng.random() < 0.4,
            allow_constant=rng.random() < 0.6 or d["n"] == 0, constant=rng.random() < 0.4)
        add("check_X", d=_rand_data(rng), allow_empty=rng.random() < 0.4,
            univariate=rng.random() < 0.4)
    for _ in range(40 * k):
        n = rng.choice([0, 1, 4, 6])
        kind = rng.choice(["int", "range", "period", "datetime"])
        y = {"cont": rng.choice(["series"] * 4 + ["frame", "array1"]), "n": n, "idx": kind,
             "sorted": rng.random() < 0.85, "start": 0}
        how = rng.choice(["none", "same", "same", "same_frame", "shifted", "shorter", "longer",
                          "unsorted", "array", "other_kind", "empty", "list"])
        X = None
        if how != "none":
            X = {"cont": "frame" if how != "same" else rng.choice(["frame", "series"]), "n": n,
                 "idx": kind, "sorted": y["sorted"], "start": 0}
            if how == "shifted":
                X["start"] = 1
            elif how == "shorter":
                X["n"] = max(0, n - 1)
            elif how == "longer":
                X["n"] = n + 1
            elif how == "unsorted":
                X["sorted"] = not y["sorted"]
            elif how == "array":
                X["cont"] = "array2"
            elif how == "list":
                X["cont"] = "list"
            elif how == "other_kind":
                X["idx"] = "range" if kind == "int" else "int"   # same labels in another index class
            elif how == "empty":
                X["n"] = 0
        fn = rng.choice(["check_y_X", "check_y_X", "check_equal_time_index"])
        if fn == "check_equal_time_index" and (how in ("array", "list") or y["cont"] == "array1"):
            fn = "check_y_X"       # `.index` of an array / list is an AttributeError, not a verdict
        add(fn, d=y, X=X, how=how, allow_empty=rng.random() < 0.4)
    for cv in ("sliding_sww", "sliding_nosww", "expanding_nosww", "single", "cutoff", "int", "kfold",
               "none"):
        for enforce in (False, True):
            add("check_cv", cv=cv, enforce=enforce)
    for v in BAD_SETTINGS + [["int", 1], ["int", 12]]:
        add("check_sp", v=v)
    for sc in ("none", "metric", "lambda", "str", "int"):
        add("check_scoring", scoring=sc)
    for fn, (good, bad) in VAL_STR.items():
        for nm in good + bad:
            add(fn, name=nm)
    for _ in range(30 * k):
        m = rng.randint(1, 3)
        items = [[{"id": j + 1, "dunder": False}, "fc"] for j in range(m)]
        fault = rng.choice(["none", "none", "attr_none", "attr_tuple", "empty", "dup", "dunder",
                            "shadow", "nonfc", "drop_one", "drop_all", "transformer"])
        attr = "list"
        if fault == "attr_none":
            attr = "none"
        elif fault == "attr_tuple":
            attr = "tuple"
        elif fault == "empty":
            items = []
        elif fault == "dup":
            items.append([dict(items[0][0]), "fc"])
        elif fault == "dunder":
            rng.choice(items)[0]["dunder"] = True
        elif fault == "shadow":
            rng.choice(items)[0]["id"] = rng.choice([100, 101, 102])
        elif fault == "nonfc":
            rng.choice(items)[1] = "other"
        elif fault == "transformer":
            rng.choice(items)[1] = "tr"
        elif fault == "drop_one":
            items.append([{"id": 9, "dunder": False}, rng.choice(["drop", "nonedrop"])])
        elif fault == "drop_all":
            items = [[it[0], "drop"] for it in items]
        add("check_forecasters", attr=attr, items=items, fault=fault)
    for _ in range(30 * k):
        m = rng.randint(1, 3)
        items = [[{"id": j + 1, "dunder": False}, "tr"] for j in range(m)]
        items[-1][1] = "fc"
        fault = rng.choice(["none", "none", "empty", "dup", "dunder", "shadow", "last_tr",
                            "last_other", "fc_middle", "other_middle", "drop_middle"])
        if fault == "empty":
            items = []
        elif fault == "dup" and m >= 2:
            items[-1][0]["id"] = items[0][0]["id"]
        elif fault == "dunder":
            rng.choice(items)[0]["dunder"] = True
        elif fault == "shadow":
            rng.choice(items)[0]["id"] = 100
        elif fault == "last_tr":
            items[-1][1] = "tr"
        elif fault == "last_other":
            items[-1][1] = "other"
        elif fault == "fc_middle" and m >= 2:
            items[0][1] = "fc"
        elif fault == "other_middle" and m >= 2:
            items[0][1] = "other"
        elif fault == "drop_middle" and m >= 2:
            items[0][1] = "drop"
        add("check_steps", items=items, fault=fault)
    return cases


def _mk_index(kind, n, is_sorted, start=0):
    import numpy as np
    import pandas as pd
    if kind == "range":
        ix = pd.RangeIndex(start, start + n)
    elif kind == "period":
        ix = pd.period_range("2000-01", periods=n + start, freq="M")[start:]
    elif kind == "datetime":
        ix = pd.date_range("2000-01-01", periods=n + start, freq="D")[start:]
    elif kind == "other":
        ix = pd.timedelta_range("1 day", periods=n + start)[start:]
    elif kind == "ndarray":
        ix = np.arange(start, start + n)
    else:
        ix = pd.Index(np.arange(start, start + n))
    if not is_sorted and n >= 2:
        ix = ix[::-1]
        if kind == "ndarray":
            ix = ix.copy()
    return ix


def _mk_data(d, constant=False):
    import numpy as np
    import pandas as pd
    n = d["n"]
    vals = np.full(n, 3.0) if constant else (np.arange(n, dtype=float) * 1.5 + 2.0) % 7 + 1.0
    c = d["cont"]
    if c in ("array1", "array2", "list"):
        return vals if c == "array1" else (np.column_stack([vals, vals]) if c == "array2"
                                           else list(vals))
    ix = _mk_index(d["idx"], n, d["sorted"], d.get("start", 0))
    if c == "index":
        return ix
    if c == "series":
        return pd.Series(vals, index=ix)
    return pd.DataFrame({"a": vals, "b": vals + 1}, index=ix)


def _eit(name):
    import pandas as pd
    return {None: None, "int": pd.Int64Index, "range": pd.RangeIndex, "period": pd.PeriodIndex}[name]


def _mk_cv(name):
    import numpy as np
    from sktime.forecasting.model_selection import (
        CutoffSplitter, ExpandingWindowSplitter, SingleWindowSplitter, SlidingWindowSplitter)
    if name == "sliding_sww":
        return SlidingWindowSplitter(fh=[1], window_length=2)
    if name == "sliding_nosww":
        return SlidingWindowSplitter(fh=[1], window_length=2, start_with_window=False)
    if name == "expanding_nosww":
        return ExpandingWindowSplitter(fh=[1], initial_window=2, start_with_window=False)
    if name == "single":
        return SingleWindowSplitter(fh=[1])
    if name == "cutoff":
        return CutoffSplitter(np.array([3]), fh=[1], window_length=2)
    if name == "int":
        return 3
    if name == "kfold":
        from sklearn.model_selection import KFold
        return KFold(3)
    return None


def _mk_member(kind):
    from sklearn.linear_model import LinearRegression
    from sktime.forecasting.naive import NaiveForecaster
    from sktime.transformations.series.detrend import Detrender
    return {"fc": NaiveForecaster, "tr": Detrender, "other": LinearRegression,
            "drop": lambda: "drop", "nonedrop": lambda: None}[kind]()


def _validator(case):
    fn = case["fn"]
    desc = {}

    def go():
        if fn == "check_time_index":
            from sktime.utils.validation.series import check_time_index
            ix = _mk_data(case["d"])
            check_time_index(ix, allow_empty=case["allow_empty"], enforce_index_type=_eit(case["eit"]))
        elif fn == "check_series":
            from sktime.utils.validation.series import check_series
            z = _mk_data(case["d"])
            desc["d"] = _describe(z)
            return check_series(z, enforce_univariate=case["univariate"],
                                allow_empty=case["allow_empty"], allow_numpy=case["allow_numpy"],
                                enforce_index_type=_eit(case["eit"])) is z
        elif fn == "check_y":
            from sktime.utils.validation.forecasting import check_y
            y = _mk_data(case["d"], constant=case["constant"])
            desc["d"] = _describe(y)
            check_y(y, allow_empty=case["allow_empty"], allow_constant=case["allow_constant"])
        elif fn == "check_X":
            from sktime.utils.validation.forecasting import check_X
            x = _mk_data(case["d"])
            desc["d"] = _describe(x)
            check_X(x, allow_empty=case["allow_empty"], enforce_univariate=case["univariate"])
        elif fn in ("check_y_X", "check_equal_time_index"):
            from sktime.utils.validation.forecasting import check_y_X
            from sktime.utils.validation.series import check_equal_time_index
            y = _mk_data(case["d"])
            X = None if case["X"] is None else _mk_data(case["X"])
            desc["d"] = _describe(y)
            desc["X"] = None if X is None else _describe(X)
            if fn == "check_y_X":
                check_y_X(y, X, allow_empty=case["allow_empty"])
            elif X is None:
                check_equal_time_index(y)
            else:
                check_equal_time_index(y, X)
        elif fn == "check_cv":
            from sktime.utils.validation.forecasting import check_cv
            check_cv(_mk_cv(case["cv"]), enforce_start_with_window=case["enforce"])
        elif fn == "check_sp":
            from sktime.utils.validation.forecasting import check_sp
            check_sp(pv_py(case["v"]))
        elif fn == "check_scoring":
            from sktime.performance_metrics.forecasting import MeanAbsolutePercentageError
            from sktime.utils.validation.forecasting import check_scoring
            check_scoring({"none": None, "metric": MeanAbsolutePercentageError(),
                           "lambda": (lambda a, b: 0.0), "str": "mape", "int": 3}[case["scoring"]])
        elif fn == "eval_strategy":
            from sktime.forecasting.model_evaluation import evaluate
            from sktime.forecasting.model_selection import ExpandingWindowSplitter
            from sktime.forecasting.naive import NaiveForecaster
            evaluate(NaiveForecaster(), ExpandingWindowSplitter(fh=[1], initial_window=6),
                     _good_y(9), strategy=case["name"])
        elif fn in ("reduce_strategy", "scitype"):
            from sklearn.linear_model import LinearRegression
            from sktime.forecasting.compose import make_reduction
            kw = {"strategy": case["name"]} if fn == "reduce_strategy" else {"scitype": case["name"]}
            make_reduction(LinearRegression(), window_length=2, **kw)
        elif fn == "aggfunc":
            from sktime.forecasting.compose import EnsembleForecaster
            from sktime.forecasting.naive import NaiveForecaster
            fc = EnsembleForecaster([("a", NaiveForecaster()), ("b", NaiveForecaster("mean"))],
                                    aggfunc=case["name"])
            fc.fit(_good_y(9), fh=[1, 2])
            fc.predict()
        elif fn == "check_forecasters":
            from sktime.forecasting.compose import EnsembleForecaster
            names = _names([it[0] for it in case["items"]],
                           {100: "forecasters", 101: "n_jobs", 102: "aggfunc"})
            members = [(nm, _mk_member(it[1])) for nm, it in zip(names, case["items"])]
            attr = {"list": members, "none": None, "tuple": tuple(members)}[case["attr"]]
            EnsembleForecaster(attr)._check_forecasters()
        elif fn == "check_steps":
            from sktime.forecasting.compose import TransformedTargetForecaster
            names = _names([it[0] for it in case["items"]], {100: "steps"})
            TransformedTargetForecaster([(nm, _mk_member(it[1])) for nm, it in
                                         zip(names, case["items"])])._check_steps()
        else:
            raise AssertionError(fn)
        return True
    r = _verdict(go)
    r.pop("result", None)
    r["desc"] = desc
    return r


def _ix_ok(d, allow_empty, eit):
    k = "int" if d["idx"] == "ndarray" else d["idx"]
    return (k in ("int", "range", "period", "datetime") and (eit is None or eit == k)
            and (d["sorted"] or d["n"] < 2) and (allow_empty or d["n"] >= 1))


def _series_rule(d, univariate, allow_empty, allow_numpy, eit=None):
    c = d["cont"]
    if c == "list":
        return False
    if c == "array1":
        return allow_numpy
    if c == "array2":
        return allow_numpy and not univariate
    return _ix_ok(d, allow_empty, eit) and not (c == "frame" and univariate)


def _same_labels(a, b):
    """Do two generated pandas containers carry the same label sequence?"""
    if a["n"] != b["n"]:
        return False
    if a["n"] == 0:
        return True
    ka, kb = ({"range": "int"}.get(x["idx"], x["idx"]) for x in (a, b))
    if ka != kb:
        return False
    sa, sb = (x["sorted"] or x["n"] < 2 for x in (a, b))
    return a.get("start", 0) == b.get("start", 0) and sa == sb


def _members_rule(items, shadow, kinds_rule):
    nm = [(it[0]["id"], it[0]["dunder"]) for it in items]
    return (bool(nm) and len(set(nm)) == len(nm) and not any(d for _, d in nm)
            and not any((i in shadow and not d) for i, d in nm) and kinds_rule([it[1] for it in items]))


def _expect_validator(case):
    """The property's rule for a direct validator call (the Python twin of ModelV.v)."""
    fn = case["fn"]
    if fn == "check_time_index":
        return _ix_ok(case["d"], case["allow_empty"], case["eit"])
    if fn == "check_series":
        return _series_rule(case["d"], case["univariate"], case["allow_empty"], case["allow_numpy"],
                            case["eit"])
    if fn == "check_y":
        d = case["d"]
        ok = _series_rule(d, True, case["allow_empty"], False)
        if ok and d["n"] == 0 and not case["allow_constant"]:
            return None       # y.iloc[0] on an empty series: outside the validator's contract
        const = case["constant"] or d["n"] == 1
        return ok and (case["allow_constant"] or not const)
    if fn == "check_X":
        return _series_rule(case["d"], case["univariate"], case["allow_empty"], False)
    if fn in ("check_y_X", "check_equal_time_index"):
        y, X = case["d"], case["X"]
        if fn == "check_y_X":
            if not _series_rule(y, True, case["allow_empty"], False):
                return False
            if X is None:
                return True
            if not _series_rule(X, False, False, False):
                return False
        else:
            if y["cont"] not in ("series", "frame") or (
                    X is not None and X["cont"] not in ("series", "frame")):
                return None   # .index of an array / list: AttributeError, not this validator's job
            if X is None:
                return _ix_ok(y, False, None)
        return _ix_ok(y, False, None) and _ix_ok(X, False, None) and _same_labels(y, X)
    if fn == "check_cv":
        cv = case["cv"]
        if cv in ("int", "kfold", "none"):
            return False
        return not (case["enforce"] and cv in ("sliding_nosww", "expanding_nosww"))
    if fn == "check_sp":
        return _posint(case["v"], True)
    if fn == "check_scoring":
        return case["scoring"] in ("none", "metric", "lambda")
    if fn in VAL_STR:
        return case["name"] in VAL_STR[fn][0]
    if fn == "check_forecasters":
        if case["attr"] != "list":
            return False
        return _members_rule(case["items"], {100, 101, 102},
                             lambda ks: any(k not in ("drop", "nonedrop") for k in ks)
                             and all(k in ("fc", "drop", "nonedrop") for k in ks))
    if fn == "check_steps":
        return _members_rule(case["items"], {100},
                             lambda ks: ks[-1] == "fc" and all(k == "tr" for k in ks[:-1]))
    return None


MK = {"fc": "MForecaster", "tr": "MTransformer", "other": "MOther", "drop": "MDrop",
      "nonedrop": "MDrop"}


def _members_coq(items):
    return clist(["({| nid := %s; has_dunder := %s |}, %s)" % (
        cz(2 * it[0]["id"] + (1 if it[0]["dunder"] else 0)), cbool(it[0]["dunder"]), MK[it[1]])
        for it in items])


def _gen_desc(d, constant=False):
    """Description of generated data without running anything (arrays / lists / indices)."""
    n = d["n"]
    return {"cont": d["cont"], "len": n, "sorted": bool(d["sorted"] or n < 2), "idx": d["idx"],
            "lab": "%s/%s/%s" % ("int" if d["idx"] == "range" else d["idx"], d.get("start", 0)
                                 if n else 0, (n, bool(d["sorted"] or n < 2))),
            "const": bool(constant and n >= 1) or n == 1}


def _validator_coq(case, out):
    fn = case["fn"]
    labs = {}
    eit = lambda: copt(case["eit"], lambda k: IDXK[k])   # noqa: E731
    if fn == "check_time_index":
        return "QTimeIndex %s %s %s" % (_ixdesc(_gen_desc(case["d"]), labs),
                                       cbool(case["allow_empty"]), eit())
    if fn == "check_series":
        return "QSeries %s %s %s %s %s" % (
            _series(_gen_desc(case["d"]), labs), cbool(case["univariate"]),
            cbool(case["allow_empty"]), cbool(case["allow_numpy"]), eit())
    if fn == "check_y":
        if _expect_validator(case) is None:
            return None
        return "QY %s %s %s" % (_series(_gen_desc(case["d"], case["constant"]), labs),
                               cbool(case["allow_empty"]), cbool(case["allow_constant"]))
    if fn == "check_X":
        return "QX %s %s %s" % (_series(_gen_desc(case["d"]), labs), cbool(case["allow_empty"]),
                               cbool(case["univariate"]))
    if fn in ("check_y_X", "check_equal_time_index"):
        if _expect_validator(case) is None:
            return None
        y = _series(_gen_desc(case["d"]), labs)
        X = None if case["X"] is None else _series(_gen_desc(case["X"]), labs)
        if fn == "check_y_X":
            return "QYX %s %s %s" % (y, "None" if X is None else "(Some %s)" % X,
                                    cbool(case["allow_empty"]))
        return "QEqual %s %s" % (y, clist([] if X is None else [X]))
    if fn == "check_cv":
        cv = {"sliding_sww": "(CvSplitter true true)", "sliding_nosww": "(CvSplitter true false)",
              "expanding_nosww": "(CvSplitter true false)", "single": "(CvSplitter false false)",
              "cutoff": "(CvSplitter false false)"}.get(case["cv"], "CvOther")
        return "QCv %s %s" % (cv, cbool(case["enforce"]))
    if fn == "check_sp":
        return "QSp %s" % pv_coq(case["v"])
    if fn == "check_scoring":
        return "QScoring %s" % {"none": "None", "metric": "(Some true)", "lambda": "(Some true)"}.get(
            case["scoring"], "(Some false)")
    if fn in VAL_STR:
        return "%s %s%%string" % ({"eval_strategy": "QEvalStrategy",
                                  "reduce_strategy": "QReduceStrategy", "scitype": "QScitype",
                                  "aggfunc": "QAggfunc"}[fn], cstr(case["name"]))
    if fn == "check_forecasters":
        attr = {"none": "FcsNone", "tuple": "FcsNotList"}.get(
            case["attr"], "(FcsList %s)" % _members_coq(case["items"]))
        return "QForecasters %s [200; 202; 204]" % attr
    if fn == "check_steps":
        return "QSteps %s [200]" % _members_coq(case["items"])
    return None

# ------------------------------------------------------------------------------------------------
# model side

CASES_HEADER = """From Coq Require Import String ZArith List Bool.
Require Import SkV.Lib.Base SkV.C01.Model SkV.C20.Model SkV.C20.ModelV SkV.C20.Chain SkV.C20.Cases.
Import ListNotations.
Open Scope Z_scope.
"""

CONT = {"series": "CSeries", "frame": "CFrame", "array1": "CArray1", "array2": "CArray2",
        "list": "CList"}


def _sdesc(d):
    return "{| cont := %s; slen := %s; ssorted := %s |}" % (CONT[d["cont"]], cz(d["len"]),
                                                            cbool(d["sorted"] or d["len"] < 2))


def _cnames(names):
    # the name string is determined by (id, dunder): nid = 2*id + dunder keeps names distinct
    return clist(["{| nid := %s; has_dunder := %s |}" % (cz(2 * n["id"] + (1 if n["dunder"] else 0)),
                                                          cbool(n["dunder"])) for n in names])


def _naive_in(c):
    X = "None" if c["X"] is None else "(Some (%s, %s))" % (_sdesc(c["X"]["desc"]),
                                                          cbool(c["X"]["same"]))
    return ("{| f_strategy := %s; f_sp := %s; f_wl := %s; f_y := %s; f_X := %s; f_fh := %s |}"
            % ({"last": "SLast", "mean": "SMean", "drift": "SDrift", "unknown": "SUnknown"}[
                c["strategy"]], pv_coq(c["sp"]), pv_coq(c["wl"]), _sdesc(c["y"]), X,
               fh_coq(c["fh"])))


def _split_in(c):
    return ("{| s_n := %s; s_fh := %s; s_wl := %s; s_step := %s; s_iw := %s; s_sww := %s |}"
            % (cz(c["n"]), fh_coq(c["fh"]), pv_coq(c["wl"]), pv_coq(c["step"]), pv_coq(c["iw"]),
               cbool(c["sww"])))


def coq_case(case, out):
    k = case["kind"]
    if out["verdict"] == "other":
        acc = "false"
    else:
        acc = cbool(out["verdict"] == "accept")
    if k == "setting":
        if case["entry"] == "naive_drift.window_length" and case["v"] == ["int", 1]:
            return None  # drift needs a window >= 2: covered by the naive_fit cases
        return "TSetting %s %s %s" % (pv_coq(case["v"]), cbool(case["none_ok"]), acc)
    if k == "sliding":
        return "TSliding %s %s" % (_split_in(case), acc)
    if k == "naive_fit":
        return "TNaiveFit %s %s" % (_naive_in(case), acc)
    if k == "series":
        return "TSeries %s %s %s %s %s" % (cbool(case["univariate"]), cbool(case["allow_empty"]),
                                          cbool(case["allow_numpy"]), _sdesc(case["s"]), acc)
    if k == "set_fh":
        o = "None"
        if out["verdict"] == "accept":
            o = "(Some %s)" % copt(out["fh_steps"], czlist)
        f = "None" if case["f"] is None else "(Some %s)" % fh_coq(case["f"])
        return "TSetFh %s %s %s %s %s" % (cbool(case["required"]), cbool(case["fitted"]),
                                         copt(case["old"], czlist), f, o)
    if k == "members":
        return "TMembers %s [200; 202; 204] %s %s" % (_cnames(case["names"]),
                                                     cbool(case["allfc"]), acc)
    if k == "pipeline":
        kinds = clist([{"tr": "KTransformer", "fc": "KForecaster", "other": "KOther"}[x]
                       for x in case["kinds"]])
        return "TPipeline %s [200] %s %s" % (_cnames(case["names"]), kinds, acc)
    if k == "fh":
        o = "None" if out["verdict"] != "accept" else "(Some %s)" % czlist(out["fh_steps"])
        return "TFh %s %s" % (fh_coq(case["f"]), o)
    if k == "matrix":
        return _matrix_coq(case, out, acc)
    if k == "validator":
        q = _validator_coq(case, out)
        return None if q is None else "TValidator (%s) %s" % (q, acc)
    return None


def coq_model_term(case):
    k = case["kind"]
    if k == "setting":
        return "(posint_or_none_ok %s, posint_ok %s)" % (pv_coq(case["v"]), pv_coq(case["v"]))
    if k == "sliding":
        return "is_ok (sliding_entry %s)" % _split_in(case)
    if k == "naive_fit":
        return "(naive_fit_ok %s, naive_window %s)" % (_naive_in(case), _naive_in(case))
    if k == "set_fh":
        f = "None" if case["f"] is None else "(Some %s)" % fh_coq(case["f"])
        return "set_fh %s %s %s %s" % (cbool(case["required"]), cbool(case["fitted"]),
                                      copt(case["old"], czlist), f)
    if k == "fh":
        return "fh_checked %s" % fh_coq(case["f"])
    if k == "members":
        return "members_ok %s [200; 202; 204] %s" % (_cnames(case["names"]), cbool(case["allfc"]))
    if k == "pipeline":
        kinds = clist([{"tr": "KTransformer", "fc": "KForecaster", "other": "KOther"}[x]
                       for x in case["kinds"]])
        return "pipeline_ok %s [200] %s" % (_cnames(case["names"]), kinds)
    if k == "validator":
        q = _validator_coq(case, None)
        return "tt" if q is None else "vquery_ok (%s)" % q
    return "tt"


def distribution(cases, results):
    import collections
    d = collections.Counter()
    for c, r in zip(cases, results):
        o = r.get("out") or {}
        d["%s:%s" % (c["kind"], o.get("verdict", "driver-error"))] += 1
        if o.get("exc") and o.get("verdict") == "reject":
            d["exc:" + o["exc"]] += 1
    return dict(d)
