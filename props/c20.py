"""C20 - malformed data, horizons and settings are rejected, never silently mis-handled."""
from harness.core import cbool, clist, copt, cz, czlist

ID = "C20"
MODEL_TARGETS = ["C20/Cases.vo"]
PROOF_TARGETS = ["C20/Gen.vo", "C20/Bridge.vo", "C20/Proofs.vo"]
OBLIGATION_FILES = ["C20/Bridge.v"]
PROPS_FILE = "C20/Props.v"
SHARD = 500
PER_CASE_TIMEOUT = 120
RULE = ("cross product of entry points and malformed classes with randomised otherwise-valid "
        "context: (a) modelled in Coq - integer settings (int/bool/float/None/str, <=0 and >=1) per "
        "entry point, sliding splitter with raw settings and raw horizons, NaiveForecaster.fit over "
        "(strategy, sp, window, y container/order/length, X index, horizon), check_series flags, "
        "_set_fh of both mixins over (fitted, old, new) horizons, ensemble member lists and pipeline "
        "step lists (names dup/dunder/shadowing, kinds), check_fh; (b) oracle-only matrix - further "
        "entry points (poly/ensemble/pipeline/reduction fit, update, predict, evaluate, grid search, "
        "expanding/single/cutoff splitters, temporal_train_test_split) x malformed class, each with its "
        "nearest valid neighbour. non-trivial = a malformed case that is rejected or a valid neighbour "
        "that is accepted (i.e. not a driver error); distinct = distinct canonical JSON case")
TRUSTED = [
    "translator/pyz.py + translator/validate.py: is_int, check_window_length, check_step_length and "
    "_set_fh of both horizon mixins are regenerated from the source on every run and proved equal to "
    "the model (Bridge.v)",
    "modelled: Python's isinstance(x,(int,np.integer)) / isinstance(x,bool) on the value universe "
    "{int, bool, float, None, str}; `x < 1`; check_fh as fh_checked (sorted steps or rejection); "
    "np.array_equal on horizons; check_series / check_y_X / NaiveForecaster.fit / _check_names / "
    "_check_forecasters / _check_steps as hand models tied by correspondence only",
]
MODELLED = [
    "index TYPE rejection (float/object index) is not checked: the compat alias pd.Int64Index := "
    "pd.Index accepts more than pandas 1.x did (not in the property's list)",
    "NaiveForecaster(strategy='last', sp=True / sp=1.0): `self.sp == 1` treats them as sp=1 (no "
    "check_sp call on that path); sp=None is accepted by check_sp by design; bool horizons (True is an "
    "int in Python) - these are not generated and not claimed",
    "oracle-only matrix entries have no Coq model: the verdict is the property's own rule "
    "(malformed -> reject with ValueError/TypeError/NotImplementedError and no fitted state; valid "
    "neighbour -> accepted)",
]


def translate(repo):
    from translator import validate
    return validate.translate(repo)


# ------------------------------------------------------------------------------------------------
# value encodings

def pv_py(v):
    t = v[0]
    if t == "int":
        return int(v[1])
    if t == "bool":
        return bool(v[1])
    if t == "float":
        return v[1] / v[2]
    if t == "none":
        return None
    return "abc"


def pv_coq(v):
    t = v[0]
    if t == "int":
        return "(PInt %s)" % cz(v[1])
    if t == "bool":
        return "(PBool %s)" % cbool(v[1])
    if t == "float":
        return "(PFloat %s %s)" % (cz(v[1]), cz(v[2]))
    if t == "none":
        return "PNone"
    return "PStr"


def fh_py(f):
    if f[0] == "missing":
        return None
    if f[0] == "scalar":
        return pv_py(f[1])
    vals = [pv_py(v) for v in f[1]]
    # optional third field: the container the (all-int) steps are handed over in; the decision
    # rule (model: FhList) is the same for every container
    cont = f[2] if len(f) > 2 else "list"
    if cont == "array":
        import numpy as np
        return np.array(vals, dtype="int64")
    if cont == "index":
        import pandas as pd
        return pd.Index(vals, dtype="int64")
    return vals


def _fh_container(rng, f):
    """Hand an all-int list horizon over as list / int64 array / int64 pd.Index."""
    if f[0] == "list" and all(v[0] == "int" for v in f[1]) and rng.random() < 0.45:
        return f + [rng.choice(["array", "index", "index"])]
    return f


def fh_coq(f):
    if f[0] == "missing":
        return "FhMissing"
    if f[0] == "scalar":
        return "(FhScalar %s)" % pv_coq(f[1])
    return "(FhList %s)" % clist([pv_coq(v) for v in f[1]])


BAD_SETTINGS = [["int", 0], ["int", -1], ["int", -7], ["bool", True], ["bool", False],
                ["float", 2, 1], ["float", 5, 2], ["float", 1, 2], ["str"], ["none"]]


def rand_setting(rng, lo=1, hi=5):
    if rng.random() < 0.45:
        return ["int", rng.randint(lo, hi)]
    return list(rng.choice(BAD_SETTINGS))


def rand_fh(rng, hi=5, allow_missing=True):
    return _fh_container(rng, _rand_fh_list(rng, hi, allow_missing))


def _rand_fh_list(rng, hi=5, allow_missing=True):
    r = rng.random()
    if r < 0.45:
        k = rng.randint(1, 3)
        vals = sorted(rng.sample(range(1, hi + 1), k))
        rng.shuffle(vals)
        return ["list", [["int", v] if rng.random() < 0.85 else ["float", v, 1] for v in vals]]
    if r < 0.55:
        return ["scalar", ["int", rng.randint(1, hi)]]
    if r < 0.63:
        v = rng.randint(1, hi)
        return ["list", [["int", v], ["int", v], ["int", min(hi, v + 1)]]]       # duplicate
    if r < 0.70:
        return ["list", [["int", 1], ["float", 2 * rng.randint(1, 3) + 1, 2]]]   # fractional
    if r < 0.76:
        return ["list", []]                                                       # empty
    if r < 0.82:
        return ["scalar", ["str"]]                                                # wrong type
    if r < 0.87:
        return ["list", [["int", 1], ["str"]]]
    if r < 0.91:
        return ["scalar", ["float", 3, 2]]
    if r < 0.94:
        return ["list", [["float", 4, 2], ["int", 2]]]                            # 2.0 and 2: dup
    if allow_missing:
        return ["missing"]
    return ["scalar", ["int", 1]]


CONTS = ["series", "frame", "array1", "array2", "list"]


def rand_sdesc(rng, good=0.6, n_lo=8, n_hi=30):
    ik = rng.choice(["int", "range"])
    if rng.random() < good:
        return {"cont": "series", "len": rng.randint(n_lo, n_hi), "sorted": True, "idx": ik}
    c = rng.choice(CONTS)
    ln = rng.choice([0, 0, rng.randint(n_lo, n_hi)]) if rng.random() < 0.3 else rng.randint(n_lo, n_hi)
    return {"cont": c, "len": ln, "sorted": rng.random() < 0.6 or ln < 2, "idx": ik}


SETTING_ENTRIES = {
    # entry: none_ok
    "check_window_length": True, "check_step_length": True,
    "sliding.window_length": False, "sliding.step_length": False, "sliding.initial_window": True,
    "expanding.initial_window": False, "expanding.step_length": False,
    "single.window_length": True, "cutoff.window_length": False,
    # naive_mean.sp: NaiveForecaster documents `sp : int`; None only ever got past fit because
    # check_sp lets it through (predict then failed) - it is a wrongly-typed period here
    "naive_mean.window_length": True, "naive_mean.sp": False, "naive_drift.window_length": True,
    "reduce.window_length": False, "get_cutoffs.step_length": True,
}

MATRIX_ENTRIES = ["poly.fit", "ens.fit", "pipe.fit", "reduce.fit", "naive.update", "naive.predict",
                  "evaluate", "gscv.fit", "expanding.split", "single.split", "cutoff.split",
                  "tts_fh", "theta.fit", "update_predict"]
MATRIX_CLASSES = ["valid", "y_unsorted", "y_empty", "y_frame", "y_array", "y_list", "X_diff_index",
                  "X_unsorted", "X_array", "X_shorter",
                  "fh_dup", "fh_empty", "fh_frac", "fh_str", "fh_float"]
# (entry, class) pairs that do not apply (the entry does not take that argument) or are outside
# the property for that entry (see DESIGN.md C20): skipped, not guessed
MATRIX_SKIP = {
    ("naive.update", "y_empty"),       # empty update data is allowed by design (allow_empty=True)
    ("update_predict", "y_empty"),
    ("expanding.split", "y_array"), ("single.split", "y_array"), ("cutoff.split", "y_array"),
    ("expanding.split", "X_diff_index"), ("single.split", "X_diff_index"),
    ("cutoff.split", "X_diff_index"), ("naive.predict", "X_diff_index"),
    ("gscv.fit", "X_diff_index"), ("update_predict", "X_diff_index"),
    ("expanding.split", "X_unsorted"), ("single.split", "X_unsorted"), ("cutoff.split", "X_unsorted"),
    ("naive.predict", "X_unsorted"), ("gscv.fit", "X_unsorted"), ("update_predict", "X_unsorted"),
    ("expanding.split", "X_array"), ("single.split", "X_array"), ("cutoff.split", "X_array"),
    ("naive.predict", "X_array"), ("gscv.fit", "X_array"), ("update_predict", "X_array"),
    ("expanding.split", "X_shorter"), ("single.split", "X_shorter"), ("cutoff.split", "X_shorter"),
    ("naive.predict", "X_shorter"), ("gscv.fit", "X_shorter"), ("update_predict", "X_shorter"),
    ("tts_fh", "X_array"),             # numpy X has no index to compare: AttributeError family is
                                       # sklearn/pandas territory for this thin wrapper
    ("expanding.split", "y_frame"), ("single.split", "y_frame"), ("cutoff.split", "y_frame"),
    ("naive.predict", "y_unsorted"), ("naive.predict", "y_empty"), ("naive.predict", "y_frame"),
    ("naive.predict", "y_array"), ("naive.predict", "y_list"),
    ("naive.update", "fh_dup"), ("naive.update", "fh_empty"), ("naive.update", "fh_frac"),
    ("naive.update", "fh_str"), ("naive.update", "fh_float"),
    ("update_predict", "fh_dup"), ("update_predict", "fh_empty"), ("update_predict", "fh_frac"),
    ("update_predict", "fh_str"), ("update_predict", "fh_float"),
    ("tts_fh", "fh_empty"),
}


def _valid_fh(rng, hi=5):
    k = rng.randint(1, 3)
    vals = sorted(rng.sample(range(1, hi + 1), k))
    rng.shuffle(vals)
    if rng.random() < 0.15:
        return ["scalar", ["int", vals[0]]]
    return ["list", [["int", v] if rng.random() < 0.85 else ["float", v, 1] for v in vals]]


def _bad_fh(rng, hi=5):
    while True:
        f = rand_fh(rng, hi, allow_missing=False)
        if _fh_model(f) is None:
            return f


def gen_cases(rng, tier):
    """Mostly-valid inputs carrying at most ONE fault each (so that no fault masks another),
    plus a smaller stream of multi-fault inputs."""
    k = 1 if tier == "quick" else 8
    cases = []
    for entry, none_ok in SETTING_ENTRIES.items():
        vals = BAD_SETTINGS + [["int", 2], ["int", 3], ["int", 4]]
        for v in vals:
            cases.append({"kind": "setting", "entry": entry, "none_ok": none_ok, "v": v,
                          "n": rng.randint(30, 50)})
    # sliding splitter: valid configuration, then one fault (or none, or the feasibility boundary)
    for _ in range(90 * k):
        wl, step = rng.randint(1, 5), rng.randint(1, 3)
        iw = None if rng.random() < 0.6 else wl + rng.randint(1, 3)
        fh = _valid_fh(rng)
        fm = max(_fh_model(fh))
        n = max(wl, iw or 0) + fm + rng.choice([0, 0, 1, 2, 5, 9])
        c = {"kind": "sliding", "n": n, "fh": fh, "wl": ["int", wl], "step": ["int", step],
             "iw": ["none"] if iw is None else ["int", iw], "sww": True, "fault": "none"}
        fault = rng.choice(["none", "none", "wl", "step", "iw", "fh", "n", "sww", "iw_le_wl", "multi"])
        c["fault"] = fault
        if fault in ("wl", "step", "iw"):
            c[fault] = list(rng.choice([b for b in BAD_SETTINGS if not (fault == "iw" and b == ["none"])]))
        elif fault == "fh":
            c["fh"] = _bad_fh(rng) if rng.random() < 0.85 else ["missing"]
        elif fault == "n":
            c["n"] = max(1, max(wl, iw or 0) + fm - rng.choice([1, 1, 2]))
        elif fault == "sww":
            c["sww"] = False
        elif fault == "iw_le_wl":
            c["iw"] = ["int", max(1, wl - rng.choice([0, 0, 1]))]
        elif fault == "multi":
            c.update({"fh": rand_fh(rng), "wl": rand_setting(rng, 1, 6),
                      "step": rand_setting(rng, 1, 4), "sww": rng.random() < 0.7})
        cases.append(c)
    # NaiveForecaster.fit: valid input, then one fault
    for _ in range(150 * k):
        strat = rng.choice(["last", "mean", "drift"])
        n = rng.randint(8, 30)
        sp = rng.randint(1, 4)
        wl = None if rng.random() < 0.35 else rng.randint(max(2, sp), n)
        c = {"kind": "naive_fit", "strategy": strat, "sp": ["int", sp],
             "wl": ["none"] if wl is None else ["int", wl],
             "y": {"cont": "series", "len": n, "sorted": True,
                   "idx": rng.choice(["int", "range"])}, "X": None,
             "fh": _valid_fh(rng) if rng.random() < 0.8 else ["missing"]}
        if rng.random() < 0.3:
            c["X"] = {"desc": {"cont": "frame", "len": n, "sorted": True}, "same": True}
        fault = rng.choice(["none", "none", "sp", "wl", "y_cont", "y_unsorted", "y_empty", "X_diff",
                            "fh", "strategy", "wl_big", "sp_big", "wl_lt_sp", "drift_wl1", "multi"])
        c["fault"] = fault
        if fault == "sp":
            c["sp"] = list(rng.choice([b for b in BAD_SETTINGS if b != ["none"] and not (
                strat == "last" and b[0] in ("bool", "float"))]))
        elif fault == "wl":
            c["wl"] = list(rng.choice([b for b in BAD_SETTINGS if b != ["none"]]))
        elif fault == "y_cont":
            c["y"] = {"cont": rng.choice(["frame", "array1", "array2", "list"]), "len": n,
                      "sorted": True, "idx": rng.choice(["int", "range"])}
            c["X"] = None
        elif fault == "y_unsorted":
            c["y"]["sorted"] = False
            c["X"] = None
        elif fault == "y_empty":
            c["y"]["len"] = 0
            c["X"] = None
        elif fault == "X_diff":
            c["X"] = {"desc": {"cont": "frame", "len": n, "sorted": True}, "same": False}
        elif fault == "fh":
            c["fh"] = _bad_fh(rng)
        elif fault == "strategy":
            c["strategy"] = "unknown"
        elif fault == "wl_big":
            c["wl"] = ["int", n + rng.choice([1, 1, 2, 7])]
            if rng.random() < 0.4:
                c["wl"] = ["int", n]          # boundary: exactly fits
        elif fault == "sp_big":
            c["sp"] = ["int", n + rng.choice([0, 1, 1, 3])]
            c["wl"] = ["none"]
        elif fault == "wl_lt_sp":
            c["sp"] = ["int", 4]
            c["wl"] = ["int", rng.choice([2, 3, 4])]
        elif fault == "drift_wl1":
            c["strategy"] = "drift"
            c["wl"] = ["int", rng.choice([1, 1, 2])]
        elif fault == "multi":
            y = rand_sdesc(rng)
            c.update({"strategy": rng.choice(["last", "mean", "drift", "unknown"]),
                      "wl": rand_setting(rng, 1, 12), "y": y, "fh": rand_fh(rng), "X": None})
        cases.append(c)
    for _ in range(40 * k):
        cases.append({"kind": "series", "univariate": rng.random() < 0.5,
                      "allow_empty": rng.random() < 0.5, "allow_numpy": rng.random() < 0.5,
                      "s": rand_sdesc(rng, good=0.25, n_lo=1, n_hi=6)})
    # _set_fh: every (mixin, fitted, old, new) shape, the differing-horizon ones oversampled
    for _ in range(90 * k):
        required = rng.random() < 0.55
        fitted = rng.random() < 0.65
        old = None if rng.random() < (0.25 if fitted else 0.8) else sorted(
            rng.sample(range(1, 6), rng.randint(1, 3)))
        r = rng.random()
        if r < 0.2:
            f = None
        elif r < 0.4 and old is not None:
            f = ["list", [["int", v] for v in reversed(old)]]            # same horizon
        elif r < 0.6 and old is not None:
            new = list(old)
            new[rng.randrange(len(new))] = rng.choice([v for v in range(1, 8) if v not in old])
            f = ["list", [["int", v] for v in new]]                      # same length, differs
        elif r < 0.7 and old is not None:
            f = ["list", [["int", v] for v in old] + [["int", 9]]]        # superset
        elif r < 0.85:
            f = _valid_fh(rng)
        else:
            f = _bad_fh(rng)
        cases.append({"kind": "set_fh", "required": required, "fitted": fitted, "old": old, "f": f})
    # composites: valid structure, then one fault
    for _ in range(60 * k):
        m = rng.randint(1, 3)
        names = [{"id": j + 1, "dunder": False} for j in range(m)]
        c = {"kind": "members", "names": names, "allfc": True}
        fault = rng.choice(["none", "none", "empty", "dup", "dunder", "shadow", "nonfc", "multi"])
        c["fault"] = fault
        if fault == "empty":
            c["names"] = []
        elif fault == "dup":
            c["names"] = names + [dict(rng.choice(names))]
        elif fault == "dunder":
            rng.choice(names)["dunder"] = True
        elif fault == "shadow":
            rng.choice(names)["id"] = rng.choice([100, 101, 102])
        elif fault == "nonfc":
            c["allfc"] = False
        elif fault == "multi":
            for nm in names:
                if rng.random() < 0.4:
                    nm["dunder"] = True
                if rng.random() < 0.3:
                    nm["id"] = rng.choice([1, 100])
        cases.append(c)
    for _ in range(60 * k):
        m = rng.randint(1, 3)
        names = [{"id": j + 1, "dunder": False} for j in range(m)]
        kinds = ["tr"] * (m - 1) + ["fc"]
        c = {"kind": "pipeline", "names": names, "kinds": kinds}
        fault = rng.choice(["none", "none", "empty", "dup", "dunder", "shadow", "last_tr",
                            "last_other", "fc_middle", "other_middle"])
        c["fault"] = fault
        if fault == "empty":
            c["names"], c["kinds"] = [], []
        elif fault == "dup" and m >= 2:
            names[-1]["id"] = names[0]["id"]
        elif fault == "dunder":
            rng.choice(names)["dunder"] = True
        elif fault == "shadow":
            rng.choice(names)["id"] = 100
        elif fault == "last_tr":
            kinds[-1] = "tr"
        elif fault == "last_other":
            kinds[-1] = "other"
        elif fault == "fc_middle" and m >= 2:
            kinds[0] = "fc"
        elif fault == "other_middle" and m >= 2:
            kinds[0] = "other"
        cases.append(c)
    for _ in range(40 * k):
        cases.append({"kind": "fh", "f": rand_fh(rng)})
    for e in MATRIX_ENTRIES:
        for c in MATRIX_CLASSES:
            if (e, c) in MATRIX_SKIP:
                continue
            for _ in range(1 if tier == "quick" else 4):
                for ik in (("int", "range") if c in ("y_unsorted", "valid") else
                           (rng.choice(["int", "range"]),)):
                    cases.append({"kind": "matrix", "entry": e, "cls": c, "n": rng.randint(14, 30),
                                  "start": rng.choice([0, 0, 3, 50]), "idx": ik})
    return cases


# ------------------------------------------------------------------------------------------------
# implementation side

REJECT = ("ValueError", "TypeError", "NotImplementedError")


def _mk_y(d, start=0):
    import numpy as np
    import pandas as pd
    n = d["len"]
    vals = (np.arange(n, dtype=float) * 1.5 + 2.0) % 7 + 1.0
    idx = np.arange(start, start + n)
    if not d["sorted"] and n >= 2:
        idx = idx[::-1].copy()
    index = pd.Index(idx)
    if d.get("idx") == "range":
        # the default index type; reversed it is a RangeIndex with a negative step
        index = pd.RangeIndex(start, start + n)
        if not d["sorted"] and n >= 2:
            index = index[::-1]
    c = d["cont"]
    if c == "series":
        return pd.Series(vals, index=index)
    if c == "frame":
        return pd.DataFrame({"a": vals, "b": vals + 1}, index=index)
    if c == "array1":
        return vals
    if c == "array2":
        return np.column_stack([vals, vals])
    return list(vals)


def _verdict(f, fitted_of=None):
    """Run f; classify. Returns dict(verdict=accept|reject|other, exc=..., fitted=bool|None)."""
    try:
        r = f()
        return {"verdict": "accept", "result": r}
    except (ValueError, TypeError, NotImplementedError) as e:
        return {"verdict": "reject", "exc": type(e).__name__}
    except Exception as e:  # unrelated error family
        return {"verdict": "other", "exc": type(e).__name__ + ": " + str(e)[:120]}


def _good_y(n=30, start=0, idx="int"):
    return _mk_y({"cont": "series", "len": n, "sorted": True, "idx": idx}, start)


def _setting(case):
    import numpy as np
    from sklearn.linear_model import LinearRegression
    from sktime.forecasting.compose import make_reduction
    from sktime.forecasting.model_selection import (
        CutoffSplitter, ExpandingWindowSplitter, SingleWindowSplitter, SlidingWindowSplitter)
    from sktime.forecasting.naive import NaiveForecaster
    from sktime.utils.validation import check_window_length
    from sktime.utils.validation.forecasting import check_step_length
    v = pv_py(case["v"])
    y = _good_y(case["n"])
    e = case["entry"]
    holder = {}

    def fit(fc):
        holder["fc"] = fc
        fc.fit(y, fh=[1, 2])
        return True
    table = {
        "check_window_length": lambda: check_window_length(v) is v or True,
        "check_step_length": lambda: check_step_length(v) is v or True,
        "sliding.window_length": lambda: len(list(SlidingWindowSplitter(
            fh=[1], window_length=v).split(y))),
        "sliding.step_length": lambda: len(list(SlidingWindowSplitter(
            fh=[1], window_length=3, step_length=v).split(y))),
        "sliding.initial_window": lambda: len(list(SlidingWindowSplitter(
            fh=[1], window_length=1, initial_window=v).split(y))),
        "expanding.initial_window": lambda: len(list(ExpandingWindowSplitter(
            fh=[1], initial_window=v).split(y))),
        "expanding.step_length": lambda: len(list(ExpandingWindowSplitter(
            fh=[1], initial_window=3, step_length=v).split(y))),
        "get_cutoffs.step_length": lambda: len(SlidingWindowSplitter(
            fh=[1], window_length=3, step_length=v).get_cutoffs(y)),
        "single.window_length": lambda: len(list(SingleWindowSplitter(
            fh=[1], window_length=v).split(y))),
        "cutoff.window_length": lambda: len(list(CutoffSplitter(
            np.array([10, 12]), fh=[1], window_length=v).split(y))),
        "naive_mean.window_length": lambda: fit(NaiveForecaster("mean", window_length=v)),
        "naive_mean.sp": lambda: fit(NaiveForecaster("mean", sp=v)),
        "naive_drift.window_length": lambda: fit(NaiveForecaster("drift", window_length=v)),
        "reduce.window_length": lambda: fit(make_reduction(
            LinearRegression(), strategy="multioutput", window_length=v)),
    }
    r = _verdict(table[e])
    r.pop("result", None)
    if "fc" in holder:
        r["fitted"] = bool(holder["fc"].is_fitted)
    return r


def _names(names, shadow):
    out = []
    for nm in names:
        base = shadow.get(nm["id"], "n%d" % nm["id"])
        out.append(base + ("__x" if nm["dunder"] else ""))
    return out


def run_impl(case):
    import numpy as np
    import pandas as pd
    k = case["kind"]
    if k == "setting":
        return _setting(case)
    if k == "sliding":
        from sktime.forecasting.model_selection import SlidingWindowSplitter
        y = _good_y(case["n"])
        r = _verdict(lambda: len(list(SlidingWindowSplitter(
            fh=fh_py(case["fh"]), window_length=pv_py(case["wl"]), step_length=pv_py(case["step"]),
            initial_window=pv_py(case["iw"]), start_with_window=case["sww"]).split(y))))
        return r
    if k == "naive_fit":
        from sktime.forecasting.naive import NaiveForecaster
        strat = {"unknown": "foo"}.get(case["strategy"], case["strategy"])
        fc = NaiveForecaster(strategy=strat, sp=pv_py(case["sp"]),
                             window_length=pv_py(case["wl"]))
        y = _mk_y(case["y"])
        X = None
        if case["X"] is not None:
            X = _mk_y(case["X"]["desc"], start=0 if case["X"]["same"] else 1)
        r = _verdict(lambda: fc.fit(y, X, fh=fh_py(case["fh"])) is fc)
        r["fitted"] = bool(fc.is_fitted)
        if r["verdict"] == "accept":
            r["fh_steps"] = None if fc._fh is None else [int(v) for v in fc._fh.to_pandas()]
        return r
    if k == "series":
        from sktime.utils.validation.series import check_series
        s = _mk_y(case["s"])
        return _verdict(lambda: check_series(s, enforce_univariate=case["univariate"],
                                             allow_empty=case["allow_empty"],
                                             allow_numpy=case["allow_numpy"]) is s)
    if k == "set_fh":
        from sklearn.linear_model import LinearRegression
        from sktime.forecasting.base import ForecastingHorizon
        from sktime.forecasting.compose import make_reduction
        from sktime.forecasting.naive import NaiveForecaster
        fc = (make_reduction(LinearRegression(), strategy="direct", window_length=2)
              if case["required"] else NaiveForecaster())
        fc._is_fitted = case["fitted"]
        fc._fh = None if case["old"] is None else ForecastingHorizon(case["old"])
        f = None if case["f"] is None else fh_py(case["f"])
        r = _verdict(lambda: fc._set_fh(f))
        r.pop("result", None)
        if r["verdict"] == "accept":
            r["fh_steps"] = None if fc._fh is None else [int(v) for v in fc._fh.to_pandas()]
        return r
    if k == "members":
        from sktime.forecasting.compose import EnsembleForecaster
        from sktime.forecasting.naive import NaiveForecaster
        from sktime.transformations.series.detrend import Detrender
        shadow = {100: "forecasters", 101: "n_jobs", 102: "aggfunc"}
        names = _names(case["names"], shadow)
        members = [(nm, NaiveForecaster()) for nm in names]
        if not case["allfc"] and members:
            members[-1] = (members[-1][0], Detrender())
        fc = EnsembleForecaster(members)
        r = _verdict(lambda: fc.fit(_good_y(12), fh=[1]) is fc)
        r["fitted"] = bool(fc.is_fitted)
        return r
    if k == "pipeline":
        from sklearn.linear_model import LinearRegression
        from sktime.forecasting.compose import TransformedTargetForecaster
        from sktime.forecasting.naive import NaiveForecaster
        from sktime.transformations.series.detrend import Detrender
        names = _names(case["names"], {100: "steps"})
        mk = {"tr": Detrender, "fc": NaiveForecaster, "other": LinearRegression}
        steps = [(nm, mk[kd]()) for nm, kd in zip(names, case["kinds"])]
        fc = TransformedTargetForecaster(steps)
        r = _verdict(lambda: fc.fit(_good_y(12), fh=[1]) is fc)
        r["fitted"] = bool(fc.is_fitted)
        return r
    if k == "fh":
        from sktime.utils.validation.forecasting import check_fh
        holder = {}

        def go():
            holder["fh"] = check_fh(fh_py(case["f"]))
            return True
        r = _verdict(go)
        if r["verdict"] == "accept":
            r["fh_steps"] = [int(v) for v in holder["fh"].to_pandas()]
        return r
    if k == "matrix":
        return _matrix(case)
    raise AssertionError(k)


def _matrix(case):
    import numpy as np
    import pandas as pd
    from sklearn.linear_model import LinearRegression
    from sktime.forecasting.base import ForecastingHorizon
    from sktime.forecasting.compose import (EnsembleForecaster, TransformedTargetForecaster,
                                            make_reduction)
    from sktime.forecasting.model_evaluation import evaluate
    from sktime.forecasting.model_selection import (
        CutoffSplitter, ExpandingWindowSplitter, ForecastingGridSearchCV, SingleWindowSplitter,
        SlidingWindowSplitter, temporal_train_test_split)
    from sktime.forecasting.naive import NaiveForecaster
    from sktime.forecasting.theta import ThetaForecaster
    from sktime.forecasting.trend import PolynomialTrendForecaster
    from sktime.transformations.series.detrend import Detrender
    n, start, cls, e = case["n"], case["start"], case["cls"], case["entry"]
    good = _good_y(n, start, case.get("idx", "int"))
    y = good
    if cls == "y_unsorted":
        y = good.iloc[::-1]
    elif cls == "y_empty":
        y = good.iloc[:0]
    elif cls == "y_frame":
        y = pd.DataFrame({"a": good, "b": good})
    elif cls == "y_array":
        y = good.values
    elif cls == "y_list":
        y = list(good.values)
    X = None
    if cls == "X_diff_index":
        X = pd.DataFrame({"x": np.arange(n, dtype=float)}, index=pd.RangeIndex(start + 1, start + n + 1))
    elif cls == "X_unsorted":
        X = pd.DataFrame({"x": np.arange(n, dtype=float)}, index=good.index).iloc[::-1]
    elif cls == "X_array":
        X = np.arange(n, dtype=float).reshape(-1, 1)
    elif cls == "X_shorter":
        X = pd.DataFrame({"x": np.arange(n - 1, dtype=float)}, index=good.index[: n - 1])
    fh = {"fh_dup": [1, 2, 2], "fh_empty": [], "fh_frac": [1, 2.5], "fh_str": "a",
          "fh_float": 1.5}.get(cls, [1, 2])
    holder = {}

    def fit(fc):
        holder["fc"] = fc
        fc.fit(y, X, fh=fh)
        return True

    def upd():
        fc = NaiveForecaster().fit(good.iloc[: n - 4], fh=[1])
        holder["upd"] = fc
        ynew = good.iloc[n - 4:] if y is good else y
        Xn = None
        if X is not None:
            Xn = X[n - 4:] if isinstance(X, np.ndarray) else (
                X.iloc[:4] if cls == "X_unsorted" else (
                    X.iloc[n - 4: n - 1] if cls == "X_shorter" else X.iloc[n - 4:]))
            fc = NaiveForecaster().fit(good.iloc[: n - 4], pd.DataFrame(
                {"x": np.arange(n - 4, dtype=float)}, index=good.index[: n - 4]), fh=[1])
            holder["upd"] = fc
        fc.update(ynew, Xn, update_params=False)
        return True

    def updpred():
        fc = NaiveForecaster().fit(good.iloc[: n - 5], fh=[1])
        ynew = good.iloc[n - 5:] if y is good else y
        return len(fc.update_predict(ynew, SlidingWindowSplitter(fh=[1], window_length=1)))
    cv = ExpandingWindowSplitter(fh=fh, initial_window=5)
    table = {
        "poly.fit": lambda: fit(PolynomialTrendForecaster()),
        "theta.fit": lambda: fit(ThetaForecaster()),
        "ens.fit": lambda: fit(EnsembleForecaster([("a", NaiveForecaster()),
                                                   ("b", PolynomialTrendForecaster())])),
        "pipe.fit": lambda: fit(TransformedTargetForecaster([("d", Detrender()),
                                                             ("f", NaiveForecaster())])),
        "reduce.fit": lambda: fit(make_reduction(LinearRegression(), strategy="multioutput",
                                                 window_length=3)),
        "naive.update": upd,
        "update_predict": updpred,
        "naive.predict": lambda: len(NaiveForecaster().fit(good).predict(fh)),
        "evaluate": lambda: len(evaluate(NaiveForecaster(), cv, y, X)),
        "gscv.fit": lambda: fit(ForecastingGridSearchCV(
            NaiveForecaster(), ExpandingWindowSplitter(fh=[1], initial_window=5),
            {"strategy": ["last", "mean"]})),
        "expanding.split": lambda: len(list(cv.split(y))),
        "single.split": lambda: len(list(SingleWindowSplitter(fh=fh, window_length=4).split(y))),
        "cutoff.split": lambda: len(list(CutoffSplitter(np.array([6, 8]), fh=fh,
                                                        window_length=3).split(y))),
        "tts_fh": lambda: len(temporal_train_test_split(
            y, X, fh=(ForecastingHorizon(fh) if cls.startswith("fh_") else
                      ForecastingHorizon([1, 2])))),
    }
    r = _verdict(table[e])
    r.pop("result", None)
    if "fc" in holder:
        r["fitted"] = bool(holder["fc"].is_fitted)
    if "upd" in holder:
        r["cutoff_after"] = int(holder["upd"].cutoff)
        r["cutoff_before"] = int(good.index[n - 5])
    return r


# ------------------------------------------------------------------------------------------------
# oracle: the property's rule on the implementation's behaviour


def _posint(v, none_ok):
    return (v[0] == "int" and v[1] >= 1) or (none_ok and v[0] == "none")


def _fh_model(f):
    """Python twin of fh_checked (Model.v): sorted steps or None for rejection."""
    if f[0] == "missing":
        return None
    if f[0] == "scalar":
        return [f[1][1]] if f[1][0] == "int" else None
    zs = []
    for v in f[1]:
        if v[0] == "int":
            zs.append(v[1])
        elif v[0] == "float" and v[2] > 0 and v[1] % v[2] == 0:
            zs.append(v[1] // v[2])
        else:
            return None
    if not zs or len(set(zs)) != len(zs):
        return None
    return sorted(zs)


def _expect(case):
    """(expected verdict, why) by the property's rule, for kinds with a closed-form rule."""
    k = case["kind"]
    if k == "setting":
        ok = _posint(case["v"], case["none_ok"])
        if case["entry"] == "naive_drift.window_length" and case["v"] == ["int", 1]:
            ok = False
        return ok
    if k == "matrix":
        return case["cls"] == "valid"
    if k == "fh":
        return _fh_model(case["f"]) is not None
    if k == "series":
        s = case["s"]
        c = s["cont"]
        if c == "list":
            return False
        if c == "array1":
            return case["allow_numpy"]
        if c == "array2":
            return case["allow_numpy"] and not case["univariate"]
        ok = s["sorted"] and (case["allow_empty"] or s["len"] >= 1)
        if c == "frame":
            ok = ok and not case["univariate"]
        return ok
    if k in ("members", "pipeline"):
        shadow = {100, 101, 102} if k == "members" else {100}
        nm = [(n["id"], n["dunder"]) for n in case["names"]]
        ok = bool(nm) and len(set(nm)) == len(nm) and not any(d for _, d in nm) \
            and not any((i in shadow and not d) for i, d in nm)
        if k == "members":
            return ok and case["allfc"]
        kinds = case["kinds"]
        return ok and kinds[-1] == "fc" and all(x == "tr" for x in kinds[:-1])
    if k == "sliding":
        zs = _fh_model(case["fh"])
        if not (_posint(case["wl"], False) and _posint(case["step"], False)
                and _posint(case["iw"], True)) or zs is None:
            return False
        wl, fm, n = case["wl"][1], max(zs), case["n"]
        iw = case["iw"][1] if case["iw"][0] == "int" else None
        return wl + fm <= n and (iw is None or (iw + fm <= n and case["sww"] and wl < iw))
    if k == "naive_fit":
        y = case["y"]
        if y["cont"] != "series" or not (y["sorted"] or y["len"] < 2) or y["len"] < 1:
            return False
        if case["X"] is not None and not case["X"]["same"]:
            return False
        if case["fh"][0] != "missing" and _fh_model(case["fh"]) is None:
            return False
        st, sp, wl, n = case["strategy"], case["sp"], case["wl"], y["len"]
        if st == "unknown":
            return False
        if st == "last":
            return sp[0] == "int" and 1 <= sp[1] <= n
        if not _posint(wl, True):
            return False
        if st == "mean":
            if not _posint(sp, False):
                return False
            if wl[0] == "int":
                return not (sp[1] != 1 and wl[1] < sp[1]) and wl[1] <= n
            return not (sp[1] != 1 and n < sp[1])      # default window: series shorter than a season
        if wl[0] == "int":
            return wl[1] != 1 and wl[1] <= n
        return n != 1                                   # drift: no line through one observation
    return None


def oracle(case, out):
    k = case["kind"]
    v = out["verdict"]
    if v == "other":
        return "unrelated-error: %s %s raised %s" % (k, case.get("entry", ""), out["exc"])
    if out.get("fitted") and v == "reject":
        return "fitted-after-rejection: %s" % case.get("entry", k)
    if v == "accept" and out.get("fitted") is False:
        return "not-fitted-after-accepted-fit: %s" % case.get("entry", k)
    exp = _expect(case)
    if exp is not None:
        if exp and v != "accept":
            return "valid-input-rejected: %s %s: %s" % (k, case.get("entry", ""), out.get("exc"))
        if not exp and v == "accept":
            return "malformed-input-accepted: %s %s %s" % (
                k, case.get("entry", ""), case.get("cls", case.get("v", "")))
    if k == "matrix" and case["entry"] == "naive.update" and v == "reject":
        if out.get("cutoff_after") != out.get("cutoff_before"):
            return "state-changed-by-rejected-update: cutoff %s -> %s" % (
                out.get("cutoff_before"), out.get("cutoff_after"))
    if k in ("fh", "set_fh", "naive_fit") and v == "accept" and "fh_steps" in out:
        st = out["fh_steps"]
        if st is not None and (st != sorted(st) or len(set(st)) != len(st)):
            return "accepted-horizon-not-sorted-unique: %s" % st
    if k == "fh" and v == "accept" and out["fh_steps"] != _fh_model(case["f"]):
        return "horizon-coerced: got %s for %s" % (out["fh_steps"], case["f"])
    if k == "set_fh":
        f, old = case["f"], case["old"]
        steps = None if f is None else _fh_model(f)
        if f is not None and steps is None and v == "accept":
            return "malformed-input-accepted: set_fh invalid horizon"
        if f is None and not case["required"] and case["fitted"] and old is None and v == "accept":
            return "missing-horizon-accepted: optional mixin, fitted, none known"
        if f is None and case["required"] and not case["fitted"] and v == "accept":
            return "missing-horizon-accepted: required mixin before fit"
        if (steps is not None and case["required"] and case["fitted"] and steps != old
                and v == "accept"):
            return "different-horizon-accepted: fitted with %s, given %s" % (old, steps)
        if v == "reject" and steps is not None and not (case["required"] and case["fitted"]):
            return "valid-input-rejected: set_fh %s" % out.get("exc")
    return None


def nontrivial(case, out):
    return out.get("verdict") in ("accept", "reject")


def shrink(case):
    c = dict(case)
    if isinstance(c.get("n"), int) and c["n"] > 8:
        d = dict(c)
        d["n"] = c["n"] - 1
        yield d
    for key in ("wl", "step", "iw", "sp"):
        v = c.get(key)
        if isinstance(v, list) and v and v[0] == "int" and v[1] > 1:
            d = dict(c)
            d[key] = ["int", v[1] - 1]
            yield d
    if c.get("X") is not None:
        d = dict(c)
        d["X"] = None
        yield d
    f = c.get("fh") if c["kind"] != "fh" else c.get("f")
    if isinstance(f, list) and f and f[0] == "list" and len(f[1]) > 1:
        for i in range(len(f[1])):
            d = dict(c)
            d["fh" if c["kind"] != "fh" else "f"] = ["list", f[1][:i] + f[1][i + 1:]] + f[2:]
            yield d
    if c.get("names") and len(c["names"]) > 1:
        for i in range(len(c["names"])):
            d = dict(c)
            d["names"] = c["names"][:i] + c["names"][i + 1:]
            if "kinds" in c:
                d["kinds"] = c["kinds"][:i] + c["kinds"][i + 1:]
            yield d


# ------------------------------------------------------------------------------------------------
# model side

CASES_HEADER = """From Coq Require Import ZArith List Bool.
Require Import SkV.Lib.Base SkV.C01.Model SkV.C20.Model SkV.C20.Cases.
Import ListNotations.
Open Scope Z_scope.
"""

CONT = {"series": "CSeries", "frame": "CFrame", "array1": "CArray1", "array2": "CArray2",
        "list": "CList"}


def _sdesc(d):
    return "{| cont := %s; slen := %s; ssorted := %s |}" % (CONT[d["cont"]], cz(d["len"]),
                                                            cbool(d["sorted"] or d["len"] < 2))


def _cnames(names):
    # the name string is determined by (id, dunder): nid = 2*id + dunder keeps names distinct
    return clist(["{| nid := %s; has_dunder := %s |}" % (cz(2 * n["id"] + (1 if n["dunder"] else 0)),
                                                          cbool(n["dunder"])) for n in names])


def _naive_in(c):
    X = "None" if c["X"] is None else "(Some (%s, %s))" % (_sdesc(c["X"]["desc"]),
                                                          cbool(c["X"]["same"]))
    return ("{| f_strategy := %s; f_sp := %s; f_wl := %s; f_y := %s; f_X := %s; f_fh := %s |}"
            % ({"last": "SLast", "mean": "SMean", "drift": "SDrift", "unknown": "SUnknown"}[
                c["strategy"]], pv_coq(c["sp"]), pv_coq(c["wl"]), _sdesc(c["y"]), X,
               fh_coq(c["fh"])))


def _split_in(c):
    return ("{| s_n := %s; s_fh := %s; s_wl := %s; s_step := %s; s_iw := %s; s_sww := %s |}"
            % (cz(c["n"]), fh_coq(c["fh"]), pv_coq(c["wl"]), pv_coq(c["step"]), pv_coq(c["iw"]),
               cbool(c["sww"])))


def coq_case(case, out):
    k = case["kind"]
    if out["verdict"] == "other":
        acc = "false"
    else:
        acc = cbool(out["verdict"] == "accept")
    if k == "setting":
        if case["entry"] == "naive_drift.window_length" and case["v"] == ["int", 1]:
            return None  # drift needs a window >= 2: covered by the naive_fit cases
        return "TSetting %s %s %s" % (pv_coq(case["v"]), cbool(case["none_ok"]), acc)
    if k == "sliding":
        return "TSliding %s %s" % (_split_in(case), acc)
    if k == "naive_fit":
        return "TNaiveFit %s %s" % (_naive_in(case), acc)
    if k == "series":
        return "TSeries %s %s %s %s %s" % (cbool(case["univariate"]), cbool(case["allow_empty"]),
                                          cbool(case["allow_numpy"]), _sdesc(case["s"]), acc)
    if k == "set_fh":
        o = "None"
        if out["verdict"] == "accept":
            o = "(Some %s)" % copt(out["fh_steps"], czlist)
        f = "None" if case["f"] is None else "(Some %s)" % fh_coq(case["f"])
        return "TSetFh %s %s %s %s %s" % (cbool(case["required"]), cbool(case["fitted"]),
                                         copt(case["old"], czlist), f, o)
    if k == "members":
        return "TMembers %s [200; 202; 204] %s %s" % (_cnames(case["names"]),
                                                     cbool(case["allfc"]), acc)
    if k == "pipeline":
        kinds = clist([{"tr": "KTransformer", "fc": "KForecaster", "other": "KOther"}[x]
                       for x in case["kinds"]])
        return "TPipeline %s [200] %s %s" % (_cnames(case["names"]), kinds, acc)
    if k == "fh":
        o = "None" if out["verdict"] != "accept" else "(Some %s)" % czlist(out["fh_steps"])
        return "TFh %s %s" % (fh_coq(case["f"]), o)
    return None


def coq_model_term(case):
    k = case["kind"]
    if k == "setting":
        return "(posint_or_none_ok %s, posint_ok %s)" % (pv_coq(case["v"]), pv_coq(case["v"]))
    if k == "sliding":
        return "is_ok (sliding_entry %s)" % _split_in(case)
    if k == "naive_fit":
        return "(naive_fit_ok %s, naive_window %s)" % (_naive_in(case), _naive_in(case))
    if k == "set_fh":
        f = "None" if case["f"] is None else "(Some %s)" % fh_coq(case["f"])
        return "set_fh %s %s %s %s" % (cbool(case["required"]), cbool(case["fitted"]),
                                      copt(case["old"], czlist), f)
    if k == "fh":
        return "fh_checked %s" % fh_coq(case["f"])
    if k == "members":
        return "members_ok %s [200; 202; 204] %s" % (_cnames(case["names"]), cbool(case["allfc"]))
    if k == "pipeline":
        kinds = clist([{"tr": "KTransformer", "fc": "KForecaster", "other": "KOther"}[x]
                       for x in case["kinds"]])
        return "pipeline_ok %s [200] %s" % (_cnames(case["names"]), kinds)
    return "tt"


def distribution(cases, results):
    import collections
    d = collections.Counter()
    for c, r in zip(cases, results):
        o = r.get("out") or {}
        d["%s:%s" % (c["kind"], o.get("verdict", "driver-error"))] += 1
        if o.get("exc") and o.get("verdict") == "reject":
            d["exc:" + o["exc"]] += 1
    return dict(d)
