"""C11, statsmodels adapters: regenerates from /repo on every run the OPTION-FORWARDING TABLES of

  AutoETS._fit_forecaster          (ets.py: the user-specified branch AND the automatic search)
  ExponentialSmoothing._fit_forecaster   (exp_smoothing.py; ThetaForecaster inherits it)

into build/coq/C11/GenOpts.v: for every call of the wrapped statsmodels constructor and of its
`.fit`, the list of (statsmodels keyword, where the value comes from), plus the constructor
parameters of the sktime class and whether `__init__` stores them verbatim.  coq/C11/OptsBridge.v
compares the tables with the pinned model (coq/C11/OptsModel.v) and proves on the GENERATED tables
that every constructor option reaches the wrapped call under the matching keyword.

By data flow, not by text: keywords may be written out, collected in a dict literal / `dict(...)`
bound to a local (also of the enclosing function) and splatted with `**`, or mixed; values may go
through single-assignment locals; the candidate components of the automatic search are traced from
the nested fit function's parameters through the generator and the candidate iterator back to the
range variable they are drawn from.  Fail closed: anything else raises `Unsupported`.
"""
import ast
import os

from .naive_c11 import Unsupported, _need, _u, argnames, body_of, find
from .sites_c03 import _single_assignments
from . import canon_c11 as C


def _resolve(outer, e, depth=0):
    """e with the single-assignment locals of `outer` (nested functions included) substituted"""
    env = _single_assignments(outer)
    for inner in ast.walk(outer):
        if isinstance(inner, ast.FunctionDef) and inner is not outer:
            for k, v in _single_assignments(inner).items():
                env.setdefault(k, v)
    for _ in range(6):
        new = C.subst(e, env)
        if _u(new) == _u(e):
            break
        e = new
    return e


def _dict_items(outer, e):
    """a `**expr`: the (key, value) pairs of the dict literal / dict(...) call it denotes"""
    d = _resolve(outer, e)
    if isinstance(d, ast.Dict):
        _need(all(isinstance(k, ast.Constant) and isinstance(k.value, str) for k in d.keys),
              "splatted dict with non-literal keys", d)
        return [(k.value, v) for k, v in zip(d.keys, d.values)]
    if isinstance(d, ast.Call) and _u(d.func) == "dict" and not d.args and all(k.arg for k in d.keywords):
        return [(k.arg, k.value) for k in d.keywords]
    raise Unsupported("cannot resolve the splatted keyword arguments %s" % _u(e))


def kw_table(outer, call, source):
    rows = []
    for k in call.keywords:
        items = [(k.arg, k.value)] if k.arg is not None else _dict_items(outer, k.value)
        for key, val in items:
            rows.append((key, source(_resolve(outer, val))))
    keys = [r[0] for r in rows]
    _need(len(set(keys)) == len(keys), "a keyword is passed twice to %s" % _u(call.func), call)
    return sorted(rows)


def _self_source(e):
    if isinstance(e, ast.Attribute) and _u(e.value) == "self":
        return "self." + e.attr
    if isinstance(e, ast.Constant):
        return "const:%r" % (e.value,)
    raise Unsupported("option value that is neither a constructor option nor a constant: %s" % _u(e))


def _init_params(cls, what):
    init = find(cls, "__init__")
    a = init.args
    _need(not a.vararg and not a.kwonlyargs and not a.posonlyargs, "%s.__init__ signature" % what)
    params = [x.arg for x in a.args][1:]
    stores = {" ".join(_u(s).split()) for s in body_of(init)}
    not_stored = [p for p in params if "self.%s = %s" % (p, p) not in stores]
    return params, not_stored


def _calls(fn, pred):
    return [n for n in ast.walk(fn) if isinstance(n, ast.Call) and pred(n)]


def _enclosing_function(outer, node):
    best = outer
    for f in ast.walk(outer):
        if isinstance(f, ast.FunctionDef) and f is not outer and any(n is node for n in ast.walk(f)):
            best = f
    return best


def _fit_call_for(outer, scope, names):
    """the `.fit(...)` call on the object the constructor call was bound to (under any of its
    names), inside `scope`"""
    hits = [n for n in ast.walk(scope) if isinstance(n, ast.Call) and isinstance(n.func, ast.Attribute)
            and n.func.attr == "fit" and _u(n.func.value) in names and not n.args]
    _need(len(hits) == 1, "expected exactly one <model>.fit(...) call, found %d" % len(hits))
    return hits[0]


def _bound_to(scope, call):
    """all names the constructed model goes by in `scope` (the assignment target and its aliases)"""
    names = set()
    for n in ast.walk(scope):
        if isinstance(n, ast.Assign) and n.value is call and len(n.targets) == 1:
            names.add(_u(n.targets[0]))
    _need(names, "the statsmodels model is not bound to a name: %s" % _u(call)[:80])
    changed = True
    while changed:
        changed = False
        for n in ast.walk(scope):
            if isinstance(n, ast.Assign) and isinstance(n.value, (ast.Name, ast.Attribute)) and _u(n.value) in names:
                for t in n.targets:
                    if _u(t) not in names:
                        names.add(_u(t))
                        changed = True
    return names


def _candidate_roles(outer, fit_fn):
    """parameter of the nested fit function -> the range variable its values are drawn from"""
    params = argnames(fit_fn)
    # call site: <fit_fn>(a, b, ...) or delayed(<fit_fn>)(a, b, ...) inside a comprehension / generator
    sites = []
    for n in ast.walk(outer):
        if isinstance(n, (ast.GeneratorExp, ast.ListComp)) and len(n.generators) == 1:
            c = n.elt
            if isinstance(c, ast.Call) and (_u(c.func) == fit_fn.name or _u(c.func) == "delayed(%s)" % fit_fn.name):
                sites.append((c, n.generators[0]))
    _need(len(sites) == 1, "expected one comprehension calling %s, found %d" % (fit_fn.name, len(sites)))
    c, gen = sites[0]
    _need(not c.keywords and len(c.args) == len(params) and all(isinstance(a, ast.Name) for a in c.args)
          and isinstance(gen.target, ast.Tuple) and all(isinstance(t, ast.Name) for t in gen.target.elts)
          and not gen.ifs, "candidate call site shape", c)
    targets = [t.id for t in gen.target.elts]
    it = gen.iter
    _need(isinstance(it, ast.Call) and isinstance(it.func, ast.Name) and not it.keywords
          and all(isinstance(a, ast.Name) for a in it.args), "candidates come from a call of the iterator", it)
    iters = [f for f in ast.walk(outer) if isinstance(f, ast.FunctionDef) and f.name == it.func.id]
    _need(len(iters) == 1, "candidate iterator %s" % it.func.id)
    itf = iters[0]
    iparams = argnames(itf)
    _need(len(iparams) == len(it.args), "iterator arguments")
    loops = [n for n in ast.walk(itf) if isinstance(n, ast.For)]
    _need(len(loops) == 1 and isinstance(loops[0].iter, ast.Call) and _u(loops[0].iter.func) in ("product", "itertools.product")
          and isinstance(loops[0].target, ast.Tuple), "iterator: one loop over product(...)")
    prod = [_u(a) for a in loops[0].iter.args]
    ltargets = [t.id for t in loops[0].target.elts]
    _need(len(prod) == len(ltargets) and all(p in iparams for p in prod), "product over the iterator's parameters")
    ys = [n for n in ast.walk(itf) if isinstance(n, ast.Yield)]
    _need(len(ys) == 1 and isinstance(ys[0].value, ast.Tuple) and [(_u(e)) for e in ys[0].value.elts] and
          all(_u(e) in ltargets for e in ys[0].value.elts) and len(ys[0].value.elts) == len(targets),
          "iterator yields the loop variables")
    roles = {}
    for p, a in zip(params, c.args):
        _need(a.id in targets, "candidate argument %s" % a.id)
        j = targets.index(a.id)
        lv = _u(ys[0].value.elts[j])
        ip = prod[ltargets.index(lv)]
        roles[p] = _u(it.args[iparams.index(ip)])
    return roles


def _coq_str(s):
    return '"%s"' % s.replace('"', '""')


def _coq_table(name, rows, comment):
    body = "; ".join("(%s, %s)" % (_coq_str(k), _coq_str(v)) for k, v in rows)
    return "(* %s *)\nDefinition %s : list (string * string) :=\n  [%s].\n" % (comment, name, body)


def _coq_list(name, xs, comment):
    return "(* %s *)\nDefinition %s : list string := [%s].\n" % (comment, name, "; ".join(_coq_str(x) for x in xs))


def ets(repo, out):
    with open(os.path.join(repo, "sktime/forecasting/ets.py")) as f:
        mod = ast.parse(f.read())
    imp = [(n.module, a.name, a.asname) for n in mod.body if isinstance(n, ast.ImportFrom) for a in n.names]
    _need(("statsmodels.tsa.exponential_smoothing.ets", "ETSModel", "_ETSModel") in imp,
          "ets.py: `from statsmodels.tsa.exponential_smoothing.ets import ETSModel as _ETSModel`")
    cls = find(mod, "AutoETS")
    _need([_u(b) for b in cls.bases] == ["_StatsModelsAdapter"], "bases of AutoETS")
    params, not_stored = _init_params(cls, "AutoETS")
    out.append(_coq_list("gen_ets_params", params, "AutoETS.__init__ parameters"))
    out.append(_coq_list("gen_ets_not_stored", not_stored, "... of which NOT stored verbatim as self.<name>"))
    fn = find(cls, "_fit_forecaster")
    _need(argnames(fn)[:2] == ["self", "y"], "AutoETS._fit_forecaster signature")
    ctors = _calls(fn, lambda n: _u(n.func) == "_ETSModel")
    _need(len(ctors) == 2, "expected two _ETSModel(...) calls (search / user-specified), found %d" % len(ctors))
    nested = [c for c in ctors if _enclosing_function(fn, c) is not fn]
    direct = [c for c in ctors if _enclosing_function(fn, c) is fn]
    _need(len(nested) == 1 and len(direct) == 1, "one _ETSModel call in the nested fit function, one in the body")
    # which branch: the user-specified model is built where `self.auto` is false
    t = C.of(fn)
    for c in ctors:
        _need(len(c.args) == 1 and _u(_resolve(fn, c.args[0])) == "y" and not any(isinstance(a, ast.Starred) for a in c.args),
              "_ETSModel(y, <keywords>)", c)
    # user-specified branch
    c = direct[0]
    target = _bound_to(fn, c)
    _need("self._forecaster" in target, "the user-specified model is stored in self._forecaster")
    fc = _fit_call_for(fn, fn, target)
    fit_targets = [n for n in ast.walk(fn) if isinstance(n, ast.Assign) and n.value is fc]
    _need(len(fit_targets) == 1 and _u(fit_targets[0].targets[0]) == "self._fitted_forecaster",
          "the fitted model is stored in self._fitted_forecaster")
    # it sits in the `not self.auto` branch: walk the canonical tree
    def in_branch(tree, want, seen=None):
        k = tree[0]
        if k == "IF":
            if _u(tree[1]) == "self.auto":
                return in_branch(tree[2], want, True) or in_branch(tree[3], want, False)
            return in_branch(tree[2], want, seen) or in_branch(tree[3], want, seen)
        if k in ("EFF", "OPAQUE", "ASSERT"):
            if k == "EFF" and "self._forecaster = _ETSModel(" in " ".join(_u(tree[1]).split()) and seen is want:
                return True
            return in_branch(tree[2], want, seen)
        return False
    _need(in_branch(t, False) and not in_branch(t, True),
          "self._forecaster = _ETSModel(...) must be the `not self.auto` branch")
    out.append(_coq_table("gen_ets_ctor_fixed", kw_table(fn, c, _self_source),
                          "AutoETS(auto=False): keywords of the ETSModel(y, ...) call"))
    out.append(_coq_table("gen_ets_fit_fixed", kw_table(fn, fc, _self_source), "... and of its .fit(...) call"))
    # automatic search
    c = nested[0]
    fitfn = _enclosing_function(fn, c)
    roles = _candidate_roles(fn, fitfn)

    def auto_source(e):
        if isinstance(e, ast.Name) and e.id in roles:
            return "candidate:" + roles[e.id]
        return _self_source(e)
    target = _bound_to(fitfn, c)
    fc = _fit_call_for(fn, fitfn, target)
    out.append(_coq_table("gen_ets_ctor_auto", kw_table(fn, c, auto_source),
                          "AutoETS(auto=True): keywords of the ETSModel(y, ...) call of every candidate"))
    out.append(_coq_table("gen_ets_fit_auto", kw_table(fn, fc, auto_source), "... and of its .fit(...) call"))


def es(repo, out):
    with open(os.path.join(repo, "sktime/forecasting/exp_smoothing.py")) as f:
        mod = ast.parse(f.read())
    imp = [(n.module, a.name, a.asname) for n in mod.body if isinstance(n, ast.ImportFrom) for a in n.names]
    _need(("statsmodels.tsa.holtwinters", "ExponentialSmoothing", "_ExponentialSmoothing") in imp,
          "exp_smoothing.py: statsmodels ExponentialSmoothing imported as _ExponentialSmoothing")
    cls = find(mod, "ExponentialSmoothing")
    _need([_u(b) for b in cls.bases] == ["_StatsModelsAdapter"], "bases of ExponentialSmoothing")
    params, not_stored = _init_params(cls, "ExponentialSmoothing")
    out.append(_coq_list("gen_es_params", params, "ExponentialSmoothing.__init__ parameters"))
    out.append(_coq_list("gen_es_not_stored", not_stored, "... of which NOT stored verbatim"))
    fn = find(cls, "_fit_forecaster")
    ctors = _calls(fn, lambda n: _u(n.func) == "_ExponentialSmoothing")
    _need(len(ctors) == 1, "one _ExponentialSmoothing(...) call")
    c = ctors[0]
    _need(len(c.args) == 1 and _u(_resolve(fn, c.args[0])) == "y", "_ExponentialSmoothing(y, <keywords>)", c)
    names = _bound_to(fn, c)
    _need("self._forecaster" in names, "the model is stored in self._forecaster")
    fc = _fit_call_for(fn, fn, names)
    out.append(_coq_table("gen_es_ctor", kw_table(fn, c, _self_source), "keywords of the statsmodels ExponentialSmoothing(y, ...) call"))
    out.append(_coq_table("gen_es_fit", kw_table(fn, fc, _self_source), "... and of its .fit(...) call"))
    # ThetaForecaster is this forecaster with its own options handed over unchanged
    with open(os.path.join(repo, "sktime/forecasting/theta.py")) as f:
        tmod = ast.parse(f.read())
    tcls = find(tmod, "ThetaForecaster")
    _need([_u(b) for b in tcls.bases] == ["ExponentialSmoothing"], "bases of ThetaForecaster")
    _need("_fit_forecaster" not in {n.name for n in tcls.body if isinstance(n, ast.FunctionDef)},
          "ThetaForecaster overrides _fit_forecaster")
    tparams, _ = _init_params(tcls, "ThetaForecaster")
    sup = [n for n in ast.walk(find(tcls, "__init__")) if isinstance(n, ast.Call) and isinstance(n.func, ast.Attribute)
           and n.func.attr == "__init__" and _u(n.func.value).startswith("super(")]
    _need(len(sup) == 1 and not sup[0].args, "ThetaForecaster.__init__ calls super().__init__(<keywords>)")
    init = find(tcls, "__init__")

    def theta_source(e):
        if isinstance(e, ast.Name) and e.id in tparams:
            return "arg:" + e.id
        return _self_source(e)
    out.append(_coq_list("gen_theta_params", tparams, "ThetaForecaster.__init__ parameters"))
    out.append(_coq_table("gen_theta_super", kw_table(init, sup[0], theta_source),
                          "what ThetaForecaster hands to ExponentialSmoothing.__init__"))


HEADER = """(* GENERATED by translator/adapters_c11.py from sktime/forecasting/ets.py, exp_smoothing.py, theta.py
   -- do not edit, never committed.  Option-forwarding tables: (statsmodels keyword, source). *)
From Coq Require Import List String.
Import ListNotations.
Open Scope string_scope.

"""


SITE_HEADER = """(* GENERATED by translator/adapters_c11.py from sktime/forecasting/base/adapters/_statsmodels.py
   (_StatsModelsAdapter._predict) -- do not edit, never committed.  Which positions of the wrapped
   statsmodels results the adapter asks for (predict(start, end)) and which labels it selects. *)
From Coq Require Import ZArith List.
Require Import SkV.Lib.Base SkV.C11.Gen.
Open Scope Z_scope.
"""

SITE_HORIZONS = ("fh", "self.fh")


def adapter_site(repo):
    """_StatsModelsAdapter._predict (base of ExponentialSmoothing, AutoETS, ThetaForecaster), by its
    canonical decision tree (names of temporaries, tuple unpacking, P[0] / P[[0, -1]][0] do not matter):
    on the return_pred_int=False path, with NO other test and no effect, the returned value must be
        self._fitted_forecaster.predict(S, E).loc[<fh>.to_absolute(self.cutoff).to_pandas()]
    with S / E = an end (first or last) of <fh>.to_absolute_int(self._y.index[0], self.cutoff).
    Regenerated: which end goes to `start` and which to `end`, and the composition of the two
    ForecastingHorizon conversions (already regenerated in C11/Gen.v) giving positions and labels.
    Any other way to obtain the values (e.g. forecast(steps), which counts from the end of the wrapped
    model's own data instead of from the cutoff) is an unknown shape: fail closed."""
    from .naive_c11 import _decider, bound_args, select
    rel = "sktime/forecasting/base/adapters/_statsmodels.py"
    with open(os.path.join(repo, rel)) as f:
        amod = ast.parse(f.read())
    acls = find(amod, "_StatsModelsAdapter")
    fn = find(acls, "_predict")
    scope = C.Scope(cls=acls, mod=amod, repo=repo)
    effs, leaf = select(C.of(fn, scope), _decider({"return_pred_int": False}), "_StatsModelsAdapter._predict")
    _need(not effs and leaf[0] == "RET" and isinstance(leaf[1], ast.Subscript)
          and isinstance(leaf[1].value, ast.Attribute) and leaf[1].value.attr == "loc",
          "adapter: _predict must return <dense forecast>.loc[<labels>] without other effects")
    labels = leaf[1].slice
    _need(isinstance(labels, ast.Call) and isinstance(labels.func, ast.Attribute)
          and labels.func.attr == "to_pandas" and not labels.args and not labels.keywords,
          "adapter: labels are <fh>.to_absolute(self.cutoff).to_pandas()", labels)
    lab = labels.func.value
    _need(isinstance(lab, ast.Call) and isinstance(lab.func, ast.Attribute) and lab.func.attr == "to_absolute"
          and _u(lab.func.value) in SITE_HORIZONS and _u(bound_args(lab, ["cutoff"])[0]) == "self.cutoff",
          "adapter: labels are <fh>.to_absolute(self.cutoff).to_pandas()", labels)
    dense = leaf[1].value.value
    _need(isinstance(dense, ast.Call) and _u(dense.func) == "self._fitted_forecaster.predict",
          "adapter: the dense forecast is self._fitted_forecaster.predict(start, end)", dense)
    _need(not [k for k in dense.keywords if k.arg not in ("start", "end")] and len(dense.args) <= 2,
          "adapter: predict(start, end) only", dense)
    p_start, p_end = bound_args(dense, ["start", "end"])

    def endpoint(e):
        """P[[0, -1]][i]  or  P[0] / P[-1]  ->  (P, 'zfirst' | 'zlast')"""
        if isinstance(e, ast.Subscript) and isinstance(e.value, ast.Subscript) \
                and _u(e.value.slice) == "[0, -1]" and _u(e.slice) in ("0", "1", "-1", "-2"):
            return e.value.value, "zfirst" if _u(e.slice) in ("0", "-2") else "zlast"
        if isinstance(e, ast.Subscript) and _u(e.slice) in ("0", "-1"):
            return e.value, "zfirst" if _u(e.slice) == "0" else "zlast"
        raise Unsupported("adapter: start / end must be an end of the requested positions: %s" % _u(e))

    ends = []
    for e in (p_start, p_end):
        v, which = endpoint(e)
        _need(isinstance(v, ast.Call) and isinstance(v.func, ast.Attribute) and v.func.attr == "to_absolute_int"
              and _u(v.func.value) in SITE_HORIZONS, "adapter: positions come from <fh>.to_absolute_int(...)", v)
        a_start, a_cut = bound_args(v, ["start", "cutoff"])
        _need(_u(a_start) == "self._y.index[0]" and _u(a_cut) == "self.cutoff",
              "adapter: positions are counted from self._y.index[0] and placed by self.cutoff", v)
        _need(_u(v.func.value) == _u(lab.func.value), "adapter: positions and labels of the same horizon", v)
        ends.append(which)
    out = [SITE_HEADER]
    out.append("(* position (counted from the first remembered time stamp) of the relative step r *)")
    out.append("Definition gen_adapter_position (first cutoff r : Z) : Z := "
               "gen_fh_abs_int first (gen_fh_abs cutoff r).\n")
    out.append("(* predict(start, end) of the wrapped results *)")
    out.append("Definition gen_adapter_start (first cutoff : Z) (fh : list Z) : Z := "
               "gen_adapter_position first cutoff (%s fh).\n" % ends[0])
    out.append("Definition gen_adapter_end (first cutoff : Z) (fh : list Z) : Z := "
               "gen_adapter_position first cutoff (%s fh).\n" % ends[1])
    out.append("(* .loc[fh.to_absolute(self.cutoff).to_pandas()] *)")
    out.append("Definition gen_adapter_label (cutoff r : Z) : Z := gen_fh_abs cutoff r.\n")
    return "\n".join(out)


def translate(repo):
    out = [HEADER]
    ets(repo, out)
    es(repo, out)
    return {"C11/GenOpts.v": "\n".join(out), "C11/GenAdapter.v": adapter_site(repo)}


if __name__ == "__main__":
    import sys
    print(translate(sys.argv[1] if len(sys.argv) > 1 else "/repo")["C11/GenOpts.v"])
