"""Canonical decision-tree form of a Python function body, used by translator/naive_c11.py and
translator/sites_c03.py to pin "shape facts" by DATA FLOW instead of by source text or statement
position.  The form is invariant under:

  * renamed / introduced / inlined local temporaries and a repeated sub-expression computed once
    (assignments to local names are substituted into their uses; tuple assignments too);
  * guard clauses / early returns vs if/else nesting (the continuation is pushed into both
    branches), `if not c: A else: B` vs `if c: B else: A`, `elif` chains;
  * conditional expressions vs if/else statements (an `a if c else b` inside a statement is lifted
    to a branch of the tree);
  * keyword-argument order in calls, docstrings, comments, `pass`.

A tree is one of
  ("IF", test, then_tree, else_tree) | ("RET", expr | None) | ("RAISE", exception name) |
  ("EFF", stmt, next_tree)    an effect: call statement, assignment to an attribute / subscript |
  ("ASSERT", test, next_tree) | ("OPAQUE", stmt, next_tree)   loops, with, try: kept as text |
  ("END",)
with expressions as `ast` nodes (after substitution).  `show(tree)` is its text; pins compare texts
or destructure the tree and hand the expressions to the integer-expression translator.
Substitution is only sound for pure right-hand sides; the pinned functions only bind locals to
pure expressions or to the result of a call that is then used once (evaluation ORDER of such calls
relative to effects is not represented - the pins that depend on order list the effects).
"""
import ast
import copy


def _u(n):
    return ast.unparse(n)


def body_of(fn):
    b = list(fn.body)
    if b and isinstance(b[0], ast.Expr) and isinstance(getattr(b[0], "value", None), ast.Constant) \
            and isinstance(b[0].value.value, str):
        b = b[1:]
    return b


class _Subst(ast.NodeTransformer):
    def __init__(self, env):
        self.env = env

    def visit_Name(self, n):
        if isinstance(n.ctx, ast.Load) and n.id in self.env:
            return copy.deepcopy(self.env[n.id])
        return n

    def visit_Call(self, n):
        n = self.generic_visit(n)
        n.keywords = sorted(n.keywords, key=lambda k: k.arg or "")
        return n


def subst(e, env):
    return _Subst(env).visit(copy.deepcopy(e))


def _find_ifexp(e):
    """outermost conditional expression evaluated unconditionally in e"""
    if isinstance(e, ast.IfExp):
        return e
    if isinstance(e, (ast.Lambda, ast.ListComp, ast.SetComp, ast.DictComp, ast.GeneratorExp)):
        return None
    if isinstance(e, ast.BoolOp):
        return _find_ifexp(e.values[0])
    for k in ast.iter_child_nodes(e):
        if isinstance(k, (ast.expr, ast.keyword)):
            r = _find_ifexp(k.value if isinstance(k, ast.keyword) else k)
            if r is not None:
                return r
    return None


def _replace(root, target, new):
    target._mark = True
    dup = copy.deepcopy(root)
    del target._mark

    class R(ast.NodeTransformer):
        def visit(self, node):
            if getattr(node, "_mark", False):
                return copy.deepcopy(new)
            return self.generic_visit(node)
    return R().visit(dup)


def _lift(st, field):
    """`st` with a conditional expression inside st.<field> -> if/else of two copies of st"""
    e = getattr(st, field)
    if e is None:
        return None
    x = _find_ifexp(e)
    if x is None:
        return None
    a, b = copy.copy(st), copy.copy(st)
    setattr(a, field, _replace(e, x, x.body))
    setattr(b, field, _replace(e, x, x.orelse))
    return ast.If(test=x.test, body=[a], orelse=[b])


def tree(stmts, env=None):
    env = dict(env or {})
    if not stmts:
        return ("END",)
    st, rest = stmts[0], list(stmts[1:])
    if isinstance(st, ast.Pass) or (isinstance(st, ast.Expr) and isinstance(st.value, ast.Constant)
                                    and isinstance(st.value.value, str)):
        return tree(rest, env)
    for field in ("value", "test"):
        if isinstance(st, (ast.Return, ast.Assign, ast.Expr, ast.If, ast.Assert, ast.AugAssign)) \
                and hasattr(st, field) and not (isinstance(st, ast.If) and field == "value"):
            lifted = _lift(st, field)
            if lifted is not None:
                return tree([lifted] + rest, env)
    if isinstance(st, ast.Return):
        return ("RET", None if st.value is None else subst(st.value, env))
    if isinstance(st, ast.Raise):
        exc = st.exc.func if isinstance(st.exc, ast.Call) else st.exc
        return ("RAISE", _u(exc) if exc is not None else "")
    if isinstance(st, ast.If):
        t = subst(st.test, env)
        body, orelse = list(st.body), list(st.orelse)
        while isinstance(t, ast.UnaryOp) and isinstance(t.op, ast.Not):
            t, body, orelse = t.operand, orelse, body
        if isinstance(t, ast.Constant) and isinstance(t.value, bool):     # if True: / if False:
            return tree((body if t.value else orelse) + rest, env)
        return ("IF", t, tree(body + rest, env), tree(orelse + rest, env))
    if isinstance(st, ast.Assert):
        return ("ASSERT", subst(st.test, env), tree(rest, env))
    if isinstance(st, ast.Assign) and len(st.targets) == 1:
        tg = st.targets[0]
        if isinstance(tg, ast.Name):
            env[tg.id] = subst(st.value, env)
            return tree(rest, env)
        if isinstance(tg, ast.Tuple) and all(isinstance(t, ast.Name) for t in tg.elts):
            v = subst(st.value, env)
            if isinstance(v, ast.Tuple) and len(v.elts) == len(tg.elts):
                for t, x in zip(tg.elts, v.elts):
                    env[t.id] = x
            else:
                for i, t in enumerate(tg.elts):
                    env[t.id] = ast.Subscript(value=v, slice=ast.Constant(i), ctx=ast.Load())
            return tree(rest, env)
    if isinstance(st, (ast.Assign, ast.AugAssign, ast.AnnAssign, ast.Expr, ast.Delete)):
        return ("EFF", subst(st, env), tree(rest, env))
    return ("OPAQUE", subst(st, env), tree(rest, env))


def of(fn):
    return tree(body_of(fn))


def show(t):
    k = t[0]
    if k == "IF":
        return "IF(%s){%s}{%s}" % (_u(t[1]), show(t[2]), show(t[3]))
    if k == "RET":
        return "RET(%s)" % ("" if t[1] is None else _u(t[1]))
    if k == "RAISE":
        return "RAISE(%s)" % t[1]
    if k in ("EFF", "OPAQUE"):
        return "%s(%s);%s" % (k, " ".join(_u(t[1]).split()), show(t[2]))
    if k == "ASSERT":
        return "ASSERT(%s);%s" % (_u(t[1]), show(t[2]))
    return "END"


def leaves(t, path=()):
    """(path of (test text, branch bool), leaf) for every leaf; effects are part of the path"""
    k = t[0]
    if k == "IF":
        yield from leaves(t[2], path + ((_u(t[1]), True),))
        yield from leaves(t[3], path + ((_u(t[1]), False),))
    elif k in ("EFF", "OPAQUE", "ASSERT"):
        yield from leaves(t[2], path + ((k + ":" + " ".join(_u(t[1]).split()), None),))
    else:
        yield path, t


def effects(t):
    """the effects on the path to a leaf, as ast statements (for a tree without branching effects)"""
    out = []
    while t[0] in ("EFF", "OPAQUE", "ASSERT"):
        out.append(t[1])
        t = t[2]
    return out, t
