"""Canonical decision-tree form of a Python function body, used by translator/naive_c11.py and
translator/sites_c03.py to pin "shape facts" by DATA FLOW instead of by source text or statement
position.  The form is invariant under:

  * renamed / introduced / inlined local temporaries and a repeated sub-expression computed once
    (assignments to local names are substituted into their uses; tuple assignments too);
  * guard clauses / early returns vs if/else nesting (the continuation is pushed into both
    branches), `if not c: A else: B` vs `if c: B else: A`, `x is not None` / `!=` / `not in` vs
    the positive test with swapped branches, `elif` chains;
  * conditional expressions vs if/else statements (an `a if c else b` inside a statement is lifted
    to a branch of the tree);
  * keyword-argument order in calls, a literal dict splatted with `**` vs keyword arguments,
    docstrings, comments, `pass`;
  * private helpers (inlined, see `Scope`) and simple module-level constants (by value).

A tree is one of
  ("IF", test, then_tree, else_tree) | ("RET", expr | None) | ("RAISE", exception name) |
  ("EFF", stmt, next_tree)    an effect: call statement, assignment to an attribute / subscript |
  ("ASSERT", test, next_tree) | ("OPAQUE", stmt, next_tree)   loops, with, try: kept as text |
  ("END",)
with expressions as `ast` nodes (after substitution).  `show(tree)` is its text; pins compare texts
or destructure the tree and hand the expressions to the integer-expression translator.
Substitution is only sound for pure right-hand sides; the pinned functions only bind locals to
pure expressions or to the result of a call that is then used once (evaluation ORDER of such calls
relative to effects is not represented - the pins that depend on order list the effects).
"""
import ast
import copy


def _u(n):
    return ast.unparse(n)


def body_of(fn):
    b = list(fn.body)
    if b and isinstance(b[0], ast.Expr) and isinstance(getattr(b[0], "value", None), ast.Constant) \
            and isinstance(b[0].value.value, str):
        b = b[1:]
    return b


class _Subst(ast.NodeTransformer):
    def __init__(self, env):
        self.env = env

    def visit_Name(self, n):
        if isinstance(n.ctx, ast.Load) and n.id in self.env:
            return copy.deepcopy(self.env[n.id])
        return n

    def visit_Call(self, n):
        n = self.generic_visit(n)
        # f(**{"a": x, "b": y}) / f(**dict(a=x, b=y))  ==  f(a=x, b=y)   (after substitution a splatted
        # local bound to a literal dict is such a literal)
        kws = []
        for k in n.keywords:
            v = k.value
            if k.arg is None and isinstance(v, ast.Dict) and v.keys and all(
                    isinstance(x, ast.Constant) and isinstance(x.value, str) for x in v.keys):
                kws += [ast.keyword(arg=x.value, value=y) for x, y in zip(v.keys, v.values)]
            elif k.arg is None and isinstance(v, ast.Call) and _u(v.func) == "dict" and not v.args \
                    and all(x.arg for x in v.keywords):
                kws += list(v.keywords)
            else:
                kws.append(k)
        n.keywords = sorted(kws, key=lambda k: k.arg or "")
        return n


def subst(e, env):
    return _Subst(env).visit(copy.deepcopy(e))


def _find_ifexp(e):
    """outermost conditional expression evaluated unconditionally in e"""
    if isinstance(e, ast.IfExp):
        return e
    if isinstance(e, (ast.Lambda, ast.ListComp, ast.SetComp, ast.DictComp, ast.GeneratorExp)):
        return None
    if isinstance(e, ast.BoolOp):
        return _find_ifexp(e.values[0])
    for k in ast.iter_child_nodes(e):
        if isinstance(k, (ast.expr, ast.keyword)):
            r = _find_ifexp(k.value if isinstance(k, ast.keyword) else k)
            if r is not None:
                return r
    return None


def _replace(root, target, new):
    target._mark = True
    dup = copy.deepcopy(root)
    del target._mark

    class R(ast.NodeTransformer):
        def visit(self, node):
            if getattr(node, "_mark", False):
                return copy.deepcopy(new)
            return self.generic_visit(node)
    return R().visit(dup)


def _lift(st, field):
    """`st` with a conditional expression inside st.<field> -> if/else of two copies of st"""
    e = getattr(st, field)
    if e is None:
        return None
    x = _find_ifexp(e)
    if x is None:
        return None
    a, b = copy.copy(st), copy.copy(st)
    setattr(a, field, _replace(e, x, x.body))
    setattr(b, field, _replace(e, x, x.orelse))
    return ast.If(test=x.test, body=[a], orelse=[b])


class Scope:
    """where private helpers are looked up: the class (and its bases), the module, and modules of the
    package the module imports names from.  `keep` = names that are ROLES of the pin (hooks the pin
    talks about): they are not inlined.  Only private names (leading underscore, no dunder) are
    inlined: public methods are API."""

    def __init__(self, cls=None, bases=(), mod=None, repo=None, keep=()):
        self.methods = {}
        for c in ([cls] if cls is not None else []) + list(bases):
            for n in c.body:
                if isinstance(n, ast.FunctionDef) and n.name not in self.methods:
                    decos = {_u(d) for d in n.decorator_list}
                    if decos <= {"staticmethod"}:
                        self.methods[n.name] = (n, "staticmethod" in decos)
        self.functions = {}
        self.consts = {}
        if mod is not None:
            # simple module-level constants (bound once, to a literal / a tuple of names) stand for
            # their value
            counts = {}
            for n in ast.walk(mod):
                if isinstance(n, ast.Name) and isinstance(n.ctx, (ast.Store, ast.Del)):
                    counts[n.id] = counts.get(n.id, 0) + 1
            for n in mod.body:
                if isinstance(n, ast.Assign) and len(n.targets) == 1 and isinstance(n.targets[0], ast.Name) \
                        and counts.get(n.targets[0].id) == 1 and self._simple(n.value):
                    self.consts[n.targets[0].id] = n.value
            for n in mod.body:
                if isinstance(n, ast.FunctionDef) and not n.decorator_list:
                    self.functions[n.name] = n
            if repo is not None:
                import os
                for n in mod.body:
                    if isinstance(n, ast.ImportFrom) and n.module and n.module.startswith("sktime.") and n.level == 0:
                        path = os.path.join(repo, n.module.replace(".", "/"))
                        for cand in (path + ".py", os.path.join(path, "__init__.py")):
                            if os.path.exists(cand):
                                try:
                                    with open(cand) as f:
                                        m2 = ast.parse(f.read())
                                except SyntaxError:
                                    break
                                defs = {x.name: x for x in m2.body if isinstance(x, ast.FunctionDef)
                                        and not x.decorator_list}
                                for a in n.names:
                                    if a.name in defs and (a.asname or a.name) not in self.functions:
                                        self.functions[a.asname or a.name] = defs[a.name]
                                break
        self.keep = set(keep)

    @staticmethod
    def _simple(e):
        if isinstance(e, ast.Constant):
            return True
        if isinstance(e, (ast.Tuple, ast.List, ast.Set)):
            return all(Scope._simple(x) for x in e.elts)
        if isinstance(e, ast.Name):
            return True
        if isinstance(e, ast.Attribute):
            return Scope._simple(e.value)
        if isinstance(e, ast.UnaryOp) and isinstance(e.op, ast.USub):
            return Scope._simple(e.operand)
        return False

    def consts_for(self, fn):
        """the module constants visible in fn (not shadowed by a parameter)"""
        a = fn.args
        params = {x.arg for x in a.args + a.kwonlyargs + a.posonlyargs}
        for extra in (a.vararg, a.kwarg):
            if extra is not None:
                params.add(extra.arg)
        return {k: v for k, v in self.consts.items() if k not in params}

    @staticmethod
    def private(name):
        return name.startswith("_") and not (name.startswith("__") and name.endswith("__"))

    def resolve(self, call):
        """(FunctionDef, parameter names to bind) for an inlinable call, else None"""
        f = call.func
        if isinstance(f, ast.Attribute) and isinstance(f.value, ast.Name) and f.value.id == "self" \
                and f.attr in self.methods and self.private(f.attr) and f.attr not in self.keep:
            fn, static = self.methods[f.attr]
            params = [a.arg for a in fn.args.args]
            return fn, (params if static else params[1:])
        if isinstance(f, ast.Name) and f.id in self.functions and self.private(f.id) and f.id not in self.keep:
            fn = self.functions[f.id]
            return fn, [a.arg for a in fn.args.args]
        return None


def _first_inlinable(e, scope, conditional=False):
    if isinstance(e, (ast.Lambda, ast.ListComp, ast.SetComp, ast.DictComp, ast.GeneratorExp)):
        return None
    if isinstance(e, ast.IfExp):
        kids = [(e.test, conditional), (e.body, True), (e.orelse, True)]
    elif isinstance(e, ast.BoolOp):
        kids = [(v, conditional or i > 0) for i, v in enumerate(e.values)]
    else:
        kids = []
        for k in ast.iter_child_nodes(e):
            if isinstance(k, ast.expr):
                kids.append((k, conditional))
            elif isinstance(k, ast.keyword):
                kids.append((k.value, conditional))
    for k, c in kids:
        h = _first_inlinable(k, scope, c)
        if h is not None:
            return h
    if isinstance(e, ast.Call) and not conditional and scope.resolve(e) is not None:
        return e
    return None


def _bind(call, fn, params):
    a = fn.args
    if a.vararg or a.kwarg or a.kwonlyargs or a.posonlyargs:
        return None
    if any(isinstance(x, ast.Starred) for x in call.args) or any(k.arg is None for k in call.keywords):
        return None
    if len(call.args) > len(params):
        return None
    env = dict(zip(params, call.args))
    for k in call.keywords:
        if k.arg not in params or k.arg in env:
            return None
        env[k.arg] = k.value
    for p_, d in zip(params[len(params) - len(a.defaults):], a.defaults):
        env.setdefault(p_, d)
    return env if set(env) == set(params) else None


def _map_leaves(t, k):
    kind = t[0]
    if kind == "IF":
        return ("IF", t[1], _map_leaves(t[2], k), _map_leaves(t[3], k))
    if kind in ("EFF", "OPAQUE", "ASSERT"):
        return (kind, t[1], _map_leaves(t[2], k))
    if kind == "RET":
        return k(t[1] if t[1] is not None else ast.Constant(None))
    if kind == "END":
        return k(ast.Constant(None))
    return t                                   # RAISE


def tree(stmts, env=None, scope=None, depth=0, presub=False):
    env = dict(env or {})
    if not stmts:
        return ("END",)
    st, rest = stmts[0], list(stmts[1:])
    if presub:
        _sub = lambda e, env_: e                # the first statement is substituted already
    else:
        _sub = subst
    rec = lambda stmts_, env_: tree(stmts_, env_, scope, depth)
    if isinstance(st, ast.Pass) or (isinstance(st, ast.Expr) and isinstance(st.value, ast.Constant)
                                    and isinstance(st.value.value, str)):
        return rec(rest, env)
    for field in ("value", "test"):
        if isinstance(st, (ast.Return, ast.Assign, ast.Expr, ast.If, ast.Assert, ast.AugAssign)) \
                and hasattr(st, field) and not (isinstance(st, ast.If) and field == "value"):
            lifted = _lift(st, field)
            if lifted is not None:
                return tree([lifted] + rest, env, scope, depth, presub)
    # private helpers are inlined (value and effect positions alike): extraction, inlining, moving,
    # renaming and splitting of helpers all normalise to the same tree
    if scope is not None and depth < 6:
        field = "test" if isinstance(st, (ast.If, ast.Assert)) else "value"
        e0 = getattr(st, field, None) if isinstance(st, (ast.Return, ast.Assign, ast.Expr, ast.If, ast.Assert, ast.AugAssign)) else None
        if isinstance(e0, ast.expr):
            e_s = _sub(e0, env)
            h = _first_inlinable(e_s, scope)
            if h is not None:
                fn, params = scope.resolve(h)
                cenv = _bind(h, fn, params)
                if cenv is not None:
                    cenv = dict(scope.consts_for(fn), **cenv)
                    ctree = tree(body_of(fn), cenv, scope, depth + 1)

                    def k(v, st=st, field=field, e_s=e_s, h=h):
                        st2 = copy.copy(st)
                        setattr(st2, field, _replace(e_s, h, v))
                        if isinstance(st, ast.Expr) and h is e_s:
                            return tree(rest, env, scope, depth)          # value of an effect call dropped
                        return tree([st2] + rest, env, scope, depth, presub=True)
                    return _map_leaves(ctree, k)
    if isinstance(st, ast.Return):
        return ("RET", None if st.value is None else _sub(st.value, env))
    if isinstance(st, ast.Raise):
        exc = st.exc.func if isinstance(st.exc, ast.Call) else st.exc
        return ("RAISE", _u(exc) if exc is not None else "")
    if isinstance(st, ast.If):
        t = _sub(st.test, env)
        body, orelse = list(st.body), list(st.orelse)
        while True:
            if isinstance(t, ast.UnaryOp) and isinstance(t.op, ast.Not):
                t, body, orelse = t.operand, orelse, body
            elif isinstance(t, ast.Compare) and len(t.ops) == 1 and isinstance(t.ops[0], (ast.IsNot, ast.NotEq, ast.NotIn)):
                # `a is not b` / `a != b` / `a not in b`: the positive test with the branches swapped
                pos = {ast.IsNot: ast.Is, ast.NotEq: ast.Eq, ast.NotIn: ast.In}[type(t.ops[0])]()
                t, body, orelse = ast.Compare(left=t.left, ops=[pos], comparators=t.comparators), orelse, body
            else:
                break
        if isinstance(t, ast.Constant) and isinstance(t.value, bool):     # if True: / if False:
            return rec((body if t.value else orelse) + rest, env)
        return ("IF", t, rec(body + rest, env), rec(orelse + rest, env))
    if isinstance(st, ast.Assert):
        return ("ASSERT", _sub(st.test, env), rec(rest, env))
    if isinstance(st, ast.Assign) and len(st.targets) == 1:
        tg = st.targets[0]
        if isinstance(tg, ast.Name):
            env[tg.id] = _sub(st.value, env)
            return rec(rest, env)
        if isinstance(tg, ast.Tuple) and all(isinstance(t, ast.Name) for t in tg.elts):
            v = _sub(st.value, env)
            if isinstance(v, ast.Tuple) and len(v.elts) == len(tg.elts):
                for t, x in zip(tg.elts, v.elts):
                    env[t.id] = x
            else:
                for i, t in enumerate(tg.elts):
                    env[t.id] = ast.Subscript(value=v, slice=ast.Constant(i), ctx=ast.Load())
            return rec(rest, env)
    if isinstance(st, (ast.Assign, ast.AugAssign, ast.AnnAssign, ast.Expr, ast.Delete)):
        return ("EFF", _sub(st, env), rec(rest, env))
    return ("OPAQUE", _sub(st, env), rec(rest, env))


def of(fn, scope=None):
    return tree(body_of(fn), scope.consts_for(fn) if scope is not None else None, scope)


def show(t):
    k = t[0]
    if k == "IF":
        return "IF(%s){%s}{%s}" % (_u(t[1]), show(t[2]), show(t[3]))
    if k == "RET":
        return "RET(%s)" % ("" if t[1] is None else _u(t[1]))
    if k == "RAISE":
        return "RAISE(%s)" % t[1]
    if k in ("EFF", "OPAQUE"):
        return "%s(%s);%s" % (k, " ".join(_u(t[1]).split()), show(t[2]))
    if k == "ASSERT":
        return "ASSERT(%s);%s" % (_u(t[1]), show(t[2]))
    return "END"


def leaves(t, path=()):
    """(path of (test text, branch bool), leaf) for every leaf; effects are part of the path"""
    k = t[0]
    if k == "IF":
        yield from leaves(t[2], path + ((_u(t[1]), True),))
        yield from leaves(t[3], path + ((_u(t[1]), False),))
    elif k in ("EFF", "OPAQUE", "ASSERT"):
        yield from leaves(t[2], path + ((k + ":" + " ".join(_u(t[1]).split()), None),))
    else:
        yield path, t


def only_raises(t):
    """every path of the tree ends in a raise"""
    k = t[0]
    if k == "IF":
        return only_raises(t[2]) and only_raises(t[3])
    if k in ("EFF", "OPAQUE", "ASSERT"):
        return only_raises(t[2])
    return k == "RAISE"


def effects(t):
    """the effects on the path to a leaf, as ast statements (for a tree without branching effects)"""
    out = []
    while t[0] in ("EFF", "OPAQUE", "ASSERT"):
        out.append(t[1])
        t = t[2]
    return out, t
