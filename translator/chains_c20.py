"""C20: the validation structure of the forecasting entry points as ordered, guarded event chains.

For every configured entry point the method body is walked statement by statement (fail-closed)
and flattened into a Gallina `list gev`; every event carries the path condition (guards of the
enclosing `if`s, negated guards of earlier early `return`s) under which it is executed:

    AChk v        a validator call that may reject (`check_y_X(y, X, allow_empty=False)`,
                  `self._set_fh(fh)`, `self.check_is_fitted()`, `self._check_forecasters()`, an
                  inline `if <guard>: raise ...` (= VRaise under that guard), a block of rules
                  that is regenerated as a function of its own (NaiveForecaster's settings), ...)
    AMut a        a mutation of the observable state (`self._y`, `self._X`, `self._fh`, the cutoff,
                  `self._is_fitted = <const>`)
    (work)        anything else (fitting, numerics, construction of results) is not listed, but it
                  is checked: work statements may not contain `raise`, calls of known validators
                  or of anything named like one, or observable mutations - otherwise the
                  translation fails closed.

Helper methods (`self._set_y_X`, `self._update_y_X`, `_split_by_fh`, ...) are inlined at the call
site, so a validator moved into / out of / within a helper, dropped, or moved behind a state
mutation changes the emitted list - and with it the bridge lemmas `gen_chain_X = chain_X` and the
safety facts computed on the regenerated lists.  Besides the configured helpers, ANY call at
statement level (`f(..)`, `x = f(..)`, `return f(..)`, `yield f(..)`) of a function of the same file
or of a `self._m(..)` method of the same class (or a base class in the file) is followed: its body
is walked with the parameters replaced by the argument expressions, and if that yields events
they are listed in place (a `raise` guard of the helper narrows the caller's path exactly like an
inline guard; a `return` of the helper does not).  A helper whose body is outside the walker's
subset, or that has no events, stays opaque work as before; a validator-like name that is neither
known nor followable fails closed.  So extracting validation into a private helper (or inlining
it back) leaves the chain unchanged.

The meaning of the tests that become guards and of the calls that become validators is fixed by
the tables below (the trusted part, like the primitive table of pyz).
"""
import ast
import copy
import os
import re

from .pyz import Unsupported, find

# ---- tables ------------------------------------------------------------------------------------------

# test (unparsed) -> (guard, polarity)
GUARDS = {
    "X is not None": ("GXGiven", True), "X is None": ("GXGiven", False),
    "cv is not None": ("GCvGiven", True), "cv is None": ("GCvGiven", False),
    "fh is not None": ("GFhGiven", True), "fh is None": ("GFhGiven", False),
    "y is None": ("GYGiven", False),
    "return_pred_int": ("GRetInt", True),
    "update_params": ("GUpdateParams", True),
    "len(y) > 0": ("GYNonEmpty", True), "len(y) == 0": ("GYNonEmpty", False),
    "test_size is not None or train_size is not None": ("GSizesGiven", True),
    "self.initial_window is not None": ("GIwGiven", True),
    "not self.start_with_window": ("GSww", False),
    "self.initial_window <= self.window_length": ("GIwLeWl", True),
    "not self.fh.is_all_out_of_sample(self.cutoff)": ("GFhOos", False),
    "not fh.is_all_out_of_sample()": ("GArgFhOos", False),
    "fh.is_relative": ("GFhRelative", True),
    "scitype == 'infer'": ("GScitypeInfer", True),
    "np.max(cutoffs) >= y.shape[0]": ("GCutoffBeyond", True),
    "np.max(cutoffs) + np.max(fh) >= y.shape[0]": ("GCutoffFhBeyond", True),
    "window_length + fh_max >= n_timepoints": ("GReduceTooShort", True),
    "self.refit": ("GRefit", True),
}

MUT_ATTRS = {"self._y": "A_y", "self._X": "A_X", "self._fh": "A_fh", "self._cutoff": "A_cutoff"}
DATA_ARGS = {"y": "y", "X": "X", "y_new": "y", "Z": "y"}


def _kw(call, allowed):
    out = {}
    for k in call.keywords:
        if k.arg is None or k.arg not in allowed:
            raise Unsupported("keyword %s in %s" % (k.arg, ast.unparse(call)))
        out[k.arg] = k.value
    return out


def _const(node, default=None):
    if node is None:
        return default
    if isinstance(node, ast.Constant):
        return node.value
    raise Unsupported("non-constant validator option " + ast.unparse(node))


def _cb(b):
    return "true" if b else "false"


def _pos(call, names):
    """Positional arguments must be exactly the given data names (after renaming of y_new / Z)."""
    got = [DATA_ARGS.get(ast.unparse(a), ast.unparse(a)) for a in call.args]
    if got != list(names):
        raise Unsupported("arguments of %s: expected %s" % (ast.unparse(call), list(names)))


def v_check_y_X(c, ctx):
    if len(c.args) == 1:
        _pos(c, ["y"])
        withx = False
    else:
        _pos(c, ["y", "X"])
        withx = True
    kw = _kw(c, ("allow_empty", "enforce_index_type"))
    if "enforce_index_type" in kw and ast.unparse(kw["enforce_index_type"]) != "enforce_index_type":
        raise Unsupported("enforce_index_type in " + ast.unparse(c))
    return "(VCheckYX %s %s)" % (_cb(_const(kw.get("allow_empty"), False)), _cb(withx and ctx.x_given))


def v_check_y(c, ctx):
    _pos(c, ["y"])
    kw = _kw(c, ("allow_empty",))
    return "(VCheckY %s)" % _cb(_const(kw.get("allow_empty"), False))


def v_check_X(c, ctx):
    _pos(c, ["X"])
    _kw(c, ())
    return "VCheckX"


def v_equal_index(c, ctx):
    _pos(c, ["y", "X"])
    return "VEqualIndex"


def v_noargs(term):
    def h(c, ctx):
        if c.args or c.keywords:
            raise Unsupported("arguments in " + ast.unparse(c))
        return term
    return h


def v_set_fh(c, ctx):
    if [ast.unparse(a) for a in c.args] != ["fh"] or c.keywords:
        raise Unsupported("arguments in " + ast.unparse(c))
    return "VSetFh"


def v_check_fh(c, ctx):
    a = [ast.unparse(x) for x in c.args]
    kw = _kw(c, ("enforce_relative",))
    if a == ["self.fh"]:
        src = "FhSelf"
    elif a == ["fh"]:
        src = "FhArg"
    else:
        raise Unsupported("arguments in " + ast.unparse(c))
    return "(VCheckFh %s %s)" % (src, _cb(_const(kw.get("enforce_relative"), False)))


def v_split_check_fh(c, ctx):
    # _split.py: _check_fh(fh) = check_fh(fh, enforce_relative=True)  (checked by `pins`)
    a = [ast.unparse(x) for x in c.args]
    if a != ["self.fh"] or c.keywords:
        raise Unsupported("arguments in " + ast.unparse(c))
    return "(VCheckFh FhSelf true)"


def v_check_cv(c, ctx):
    a = [ast.unparse(x) for x in c.args]
    kw = _kw(c, ("enforce_start_with_window",))
    if a == ["cv"]:
        src = "CvArg"
    elif a == ["self.cv"]:
        src = "CvSelf"
    else:
        raise Unsupported("arguments in " + ast.unparse(c))
    return "(VCheckCv %s %s)" % (src, _cb(_const(kw.get("enforce_start_with_window"), False)))


def v_check_scoring(c, ctx):
    a = [ast.unparse(x) for x in c.args]
    if c.keywords or a not in (["scoring"], ["self.scoring"]):
        raise Unsupported("arguments in " + ast.unparse(c))
    return "(VCheckScoring %s)" % ("ScArg" if a == ["scoring"] else "ScSelf")


def v_attr(term, attrs):
    def h(c, ctx):
        a = [ast.unparse(x) for x in c.args]
        if c.keywords or not a or a[0] not in attrs:
            raise Unsupported("arguments in " + ast.unparse(c))
        if len(a) > 1 and not (len(a) == 2 and isinstance(c.args[1], ast.Constant)
                               and isinstance(c.args[1].value, str)):
            raise Unsupported("arguments in " + ast.unparse(c))
        return term % attrs[a[0]] if "%s" in term else term
    return h


def v_name(term, name):
    def h(c, ctx):
        if [ast.unparse(x) for x in c.args] != [name] or c.keywords:
            raise Unsupported("arguments in " + ast.unparse(c))
        return term
    return h


def v_windows_fit(c, ctx):
    if [ast.unparse(x) for x in c.args] != ["y", "fh", "window_length", "initial_window"] or c.keywords:
        raise Unsupported("arguments in " + ast.unparse(c))
    return "VWindowsFit"


VALIDATORS = {
    "check_y_X": v_check_y_X, "check_y": v_check_y, "check_X": v_check_X,
    "check_equal_time_index": v_equal_index,
    "self.check_is_fitted": v_noargs("VIsFitted"),
    "self._set_fh": v_set_fh,
    "check_fh": v_check_fh,
    "check_cv": v_check_cv, "check_scoring": v_check_scoring,
    "check_step_length": v_attr("VCheckStep", {"self.step_length": ""}),
    "check_window_length": v_attr("(VCheckWl %s)", {"self.window_length": "WWindow",
                                                    "self.initial_window": "WInitial",
                                                    "window_length": "WWindow"}),
    "check_sp": v_attr("VCheckSp", {"self.sp": ""}),
    "check_cutoffs": v_attr("VCheckCutoffs", {"self.cutoffs": ""}),
    "self._check_forecasters": v_noargs("VForecasters"),
    "self._check_steps": v_noargs("VSteps"),
    "_check_window_lengths": v_windows_fit,
    "_infer_scitype": v_name("VInferScitype", "estimator"),
}
# per source file: names that mean something else there
VALIDATORS_BY_FILE = {
    "sktime/forecasting/model_evaluation/_functions.py": {
        "_check_strategy": v_name("VEvalStrategy", "strategy")},
    "sktime/forecasting/compose/_reduce.py": {
        "_check_strategy": v_name("VReduceStrategy", "strategy"),
        "_check_scitype": v_name("VScitype", "scitype"),
        "_check_fh": None},                                    # asserts only (pinned below)
    "sktime/forecasting/model_selection/_split.py": {
        "_check_fh": v_split_check_fh,
        "_check_y": v_name("VTimeIndex", "y")},
}
CHECKLIKE = re.compile(r"(^|\.)(_?check_\w*|_set_fh|_set_y_X|_update_y_X|_update_X|check_is_fitted"
                       r"|_infer_scitype|_set_cutoff)$")

# helper calls inlined at the call site: callee -> (source file, path, expected argument text)
HELPERS = {
    "self._set_y_X": ("sktime/forecasting/base/_sktime.py", "_SktimeForecaster._set_y_X",
                      ["(y, X)"], {}),
    "self._update_y_X": ("sktime/forecasting/base/_sktime.py", "_SktimeForecaster._update_y_X",
                         ["(y, X)"], {}),
    "_split_by_fh": ("sktime/forecasting/model_selection/_split.py", "_split_by_fh",
                     ["(y, fh, X=X)"], {}),
    "super(ThetaForecaster, self).fit": (
        "sktime/forecasting/base/adapters/_statsmodels.py", "_StatsModelsAdapter.fit",
        ["(y, fh=fh)"], {"x_given": False}),
}

# source shapes the tables above rely on (checked verbatim, fail-closed)
PINS = [
    ("sktime/forecasting/model_selection/_split.py", "_check_fh",
     "return check_fh(fh, enforce_relative=True)"),
    ("sktime/forecasting/compose/_reduce.py", "_check_fh",
     "assert fh.is_relative\nassert fh.is_all_out_of_sample()\nreturn fh.to_indexer().to_numpy()"),
    ("sktime/forecasting/base/_sktime.py", "_SktimeForecaster._set_cutoff", "self._cutoff = cutoff"),
    ("sktime/forecasting/base/_sktime.py", "_SktimeForecaster.fh",
     "if self._fh is None:\n    raise ValueError('No `fh` has been set yet, please specify `fh` in "
     "`fit` or `predict`')\nreturn self._fh"),
]


class Ctx:
    def __init__(self, repo, src, x_given=True):
        self.repo = repo
        self.src = src
        self.x_given = x_given
        self.mods = {}

    def mod(self, src):
        if src not in self.mods:
            with open(os.path.join(self.repo, src)) as f:
                self.mods[src] = ast.parse(f.read())
        return self.mods[src]

    def validators(self):
        v = dict(VALIDATORS)
        v.update(VALIDATORS_BY_FILE.get(self.src, {}))
        return v


def _calls(node):
    return [n for n in ast.walk(node) if isinstance(n, ast.Call)]


def _is_doc(s):
    return isinstance(s, ast.Expr) and isinstance(s.value, ast.Constant) and isinstance(s.value.value, str)


def _obs_mutation(node):
    """Does the statement (deeply) assign an observable attribute / call _set_cutoff?"""
    for n in ast.walk(node):
        tg = []
        if isinstance(n, ast.Assign):
            tg = n.targets
        elif isinstance(n, (ast.AugAssign, ast.AnnAssign)):
            tg = [n.target]
        for t in tg:
            for x in (t.elts if isinstance(t, ast.Tuple) else [t]):
                u = ast.unparse(x)
                if u in MUT_ATTRS or u == "self._is_fitted":
                    return True
        if isinstance(n, ast.Call) and ast.unparse(n.func) == "self._set_cutoff":
            return True
    return False


class Chain:
    def __init__(self, ctx, cfg):
        self.ctx = ctx
        self.cfg = cfg
        self.events = []          # (path tuple, act)

    def emit(self, path, act):
        if act == "AWork":
            return          # work is checked to be free of validation / raises / mutations, not listed
        self.events.append((tuple(path), act))

    def clean(self, node, what):
        """A work statement: no raise, no validator-like call, no observable mutation."""
        for n in ast.walk(node):
            if isinstance(n, ast.Raise):
                raise Unsupported("%s: raise inside %s" % (self.cfg["path"], what))
        vals = self.ctx.validators()
        for c in _calls(node):
            u = ast.unparse(c.func)
            if u in vals and vals[u] is None:
                continue
            if u in vals or u in HELPERS or CHECKLIKE.search(u):
                raise Unsupported("%s: validator call %s inside %s" % (self.cfg["path"], u, what))
        if _obs_mutation(node):
            raise Unsupported("%s: state mutation inside %s" % (self.cfg["path"], what))

    def fh_access(self, node, path):
        """`self.fh` raises when no horizon is known: a check of its own."""
        for n in ast.walk(node):
            if isinstance(n, ast.Attribute) and ast.unparse(n) == "self.fh" \
                    and isinstance(n.ctx, ast.Load) and self.cfg.get("fh_property", True):
                self.emit(path, "(AChk VFhKnown)")
                return

    def resolve_helper(self, f):
        """A function of the same file / a method of the same class a call refers to."""
        mod = self.ctx.mod(self.ctx.src)
        if isinstance(f, ast.Name):
            for n in mod.body:
                if isinstance(n, ast.FunctionDef) and n.name == f.id:
                    return n, False
            return None
        if isinstance(f, ast.Attribute) and isinstance(f.value, ast.Name) and f.value.id == "self" \
                and "." in self.cfg["path"]:
            classes = {n.name: n for n in mod.body if isinstance(n, ast.ClassDef)}
            todo, seen = [self.cfg["path"].split(".")[0]], set()
            while todo:
                c = todo.pop(0)
                if c in seen or c not in classes:
                    continue
                seen.add(c)
                for n in classes[c].body:
                    if isinstance(n, ast.FunctionDef) and n.name == f.attr:
                        static = any(ast.unparse(d) == "staticmethod" for d in n.decorator_list)
                        return n, not static
                todo += [ast.unparse(b) for b in classes[c].bases]
        return None

    def follow(self, call, path):
        """Walk the body of a same-file helper in place of the call. Returns the caller's path after
        the call (narrowed by the helper's raise guards) if the helper has events, else None."""
        nm = call.func.id if isinstance(call.func, ast.Name) else getattr(call.func, "attr", "")
        if not nm.startswith("_") or nm.startswith("__"):
            return None          # public API is an entry point of its own (and may be overridden)
        r = self.resolve_helper(call.func)
        if r is None or len(self.cfg.get("_stack", ())) >= 4:
            return None
        fn, takes_self = r
        body = [x for x in fn.body if not _is_doc(x)]
        if len(body) == 1 and isinstance(body[0], ast.Raise):
            return None                                          # abstract method
        if fn.name in self.cfg.get("_stack", ()):
            return None
        a = fn.args
        if a.vararg or a.kwarg or a.kwonlyargs or a.posonlyargs \
                or any(isinstance(x, ast.Starred) for x in call.args):
            return None
        names = [x.arg for x in a.args][1 if takes_self else 0:]
        dflt = dict(zip(names[len(names) - len(a.defaults):], a.defaults))
        given = dict(zip(names, call.args))
        if len(call.args) > len(names):
            return None
        for kw in call.keywords:
            if kw.arg is None or kw.arg not in names or kw.arg in given:
                return None
            given[kw.arg] = kw.value
        sub_map = {}
        for n in names:
            if n in given:
                sub_map[n] = given[n]
            elif n in dflt:
                sub_map[n] = dflt[n]
            else:
                return None
        stored = {x.id for st in body for x in ast.walk(st)
                  if isinstance(x, ast.Name) and isinstance(x.ctx, ast.Store)}

        class Sub(ast.NodeTransformer):
            def visit_Name(self, node):
                if isinstance(node.ctx, ast.Load) and node.id in sub_map and node.id not in stored:
                    return copy.deepcopy(sub_map[node.id])
                return node
        body2 = [ast.fix_missing_locations(Sub().visit(copy.deepcopy(st))) for st in body]
        sub = Chain(self.ctx, dict(self.cfg, blocks=(),
                                   _stack=tuple(self.cfg.get("_stack", ())) + (fn.name,)))
        try:
            sub.walk(body2, list(path))
        except Unsupported:
            return None                       # outside the walker's subset: opaque work, as before
        if not sub.events:
            return None
        for p, act in sub.events:
            self.emit(p, act)
        return list(sub.raise_path)

    def validator_call(self, call, path):
        """Emit the event(s) of a statement-level validator / helper call. Returns the path under
        which the caller continues, or None if the call is neither."""
        u = ast.unparse(call.func)
        vals = self.ctx.validators()
        if u in HELPERS:
            src, hpath, shapes, opts = HELPERS[u]
            args = ast.unparse(call)[len(u):]
            args = re.sub(r"\by_new\b", "y", args)
            if args not in shapes:
                raise Unsupported("%s: helper call %s" % (self.cfg["path"], ast.unparse(call)))
            sub = Chain(Ctx(self.ctx.repo, src, opts.get("x_given", self.ctx.x_given)),
                        dict(path=hpath, fh_property=self.cfg.get("fh_property", True)))
            sub.ctx.mods = self.ctx.mods
            sub.walk(find(self.ctx.mod(src), hpath).body, list(path))
            for p, a in sub.events:
                self.emit(p, a)
            return list(sub.raise_path)
        if u in vals:
            if vals[u] is None:
                return None
            for a in list(call.args) + [k.value for k in call.keywords]:
                self.clean(a, "the arguments of " + u)
            self.emit(path, "(AChk %s)" % vals[u](call, self.ctx))
            return path
        p2 = self.follow(call, path)
        if p2 is not None:
            return p2
        if CHECKLIKE.search(u) and u != "self._set_cutoff":
            raise Unsupported("%s: unknown validator %s" % (self.cfg["path"], u))
        return None

    def mutation_targets(self, tg):
        out = []
        for x in (tg.elts if isinstance(tg, ast.Tuple) else [tg]):
            u = ast.unparse(x)
            if u in MUT_ATTRS:
                out.append("(AMut %s)" % MUT_ATTRS[u])
            elif u == "self._is_fitted":
                out.append(None)      # needs the constant
            else:
                out.append("AWork")
        return out

    def guard(self, test):
        """The guard a test stands for: by its text, or by its text after replacing temporaries
        (`m = np.max(cutoffs)` ... `if m >= n:`) by their defining expressions."""
        u = ast.unparse(test)
        if u in GUARDS:
            return GUARDS[u]
        if isinstance(test, ast.UnaryOp) and isinstance(test.op, ast.Not):
            g = self.guard(test.operand)
            return None if g is None else (g[0], not g[1])
        temps = getattr(self, "temps", {})
        if temps:
            class Sub(ast.NodeTransformer):
                def visit_Name(self, node):
                    if isinstance(node.ctx, ast.Load) and node.id in temps:
                        return self.visit(copy.deepcopy(temps[node.id]))
                    return node
            u2 = ast.unparse(Sub().visit(copy.deepcopy(test)))
            if u2 in GUARDS:
                return GUARDS[u2]
        return None

    def note_temps(self, stmts):
        """Single-assignment temporaries with a side-effect-free right-hand side."""
        counts = {}
        for st in stmts:
            for x in ast.walk(st):
                if isinstance(x, ast.Name) and isinstance(x.ctx, ast.Store):
                    counts[x.id] = counts.get(x.id, 0) + 1
        pure_calls = re.compile(r"^(np\.(max|min|abs)|len|abs|min|max)$")

        def pure(e):
            for x in ast.walk(e):
                if isinstance(x, ast.Call) and not pure_calls.match(ast.unparse(x.func)):
                    return False
                if isinstance(x, (ast.Lambda, ast.Yield, ast.Await, ast.NamedExpr)):
                    return False
                if isinstance(x, ast.Name) and counts.get(x.id, 0) > 1:
                    return False
            return True
        self.temps = dict(getattr(self, "temps", {}))
        for st in stmts:
            if isinstance(st, ast.Assign) and len(st.targets) == 1 \
                    and isinstance(st.targets[0], ast.Name) and counts.get(st.targets[0].id) == 1 \
                    and pure(st.value) and not any(
                        isinstance(x, ast.Name) and x.id == st.targets[0].id for x in ast.walk(st.value)):
                self.temps[st.targets[0].id] = st.value

    def walk(self, stmts, path):
        """Returns "raise" / "return" if every path through the block ends that way (so nothing
        after it runs on this path), else None.  `self.raise_path` = the path under which a CALLER
        continues after the block (narrowed by the guards that end in a raise only)."""
        stmts = [s for s in stmts if not _is_doc(s)]
        self.raise_path = list(path)
        self.note_temps(stmts)
        blocks = self.cfg.get("blocks", ())
        i = 0
        while i < len(stmts):
            s = stmts[i]
            # configured blocks that are regenerated as functions of their own
            hit = False
            for term, sel in blocks:
                chosen = sel(stmts)
                if chosen and s is chosen[0]:
                    idx = [stmts.index(c) for c in chosen]
                    if idx != list(range(i, i + len(chosen))):
                        raise Unsupported("%s: block %s is not contiguous" % (self.cfg["path"], term))
                    self.emit(path, "(AChk %s)" % term)
                    i += len(chosen)
                    hit = True
                    break
            if hit:
                continue
            i += 1
            if isinstance(s, ast.Return):
                if s.value is not None:
                    self.ret_value(s.value, path)
                return "return"
            if isinstance(s, ast.Raise):
                self.emit(path, "(AChk VRaise)")
                return "raise"
            if isinstance(s, ast.Expr) and isinstance(s.value, ast.Yield) \
                    and isinstance(s.value.value, ast.Call):
                p2 = self.validator_call(s.value.value, path)
                if p2 is not None:
                    path = self.narrow(path, p2)
                    continue
            if isinstance(s, ast.Expr) and isinstance(s.value, ast.Call):
                c = s.value
                u = ast.unparse(c.func)
                if u in ("warn", "warnings.warn"):
                    continue
                if u == "self._set_cutoff":
                    self.emit(path, "(AMut A_cutoff)")
                    continue
                p2 = self.validator_call(c, path)
                if p2 is not None:
                    path = self.narrow(path, p2)
                    continue
                self.clean(s, "a work statement")
                self.fh_access(s, path)
                self.emit(path, "AWork")
                continue
            if isinstance(s, ast.Assign) and len(s.targets) == 1:
                tg, v = s.targets[0], s.value
                muts = self.mutation_targets(tg)
                if isinstance(v, ast.IfExp) and not any(m != "AWork" for m in muts) \
                        and self.guard(v.test) is not None:
                    g = self.guard(v.test)
                    for val, pol in ((v.body, g[1]), (v.orelse, not g[1])):
                        p2 = path + [(g[0], pol)]
                        if not (isinstance(val, ast.Call)
                                and self.validator_call(val, p2) is not None):
                            self.clean(val, "a work expression")
                            self.fh_access(val, p2)
                            self.emit(p2, "AWork")
                    continue
                p2 = self.validator_call(v, path) if isinstance(v, ast.Call) else None
                if p2 is not None:
                    path = self.narrow(path, p2)
                else:
                    self.clean(v, "a work expression")
                    self.fh_access(v, path)
                for m, x in zip(muts, tg.elts if isinstance(tg, ast.Tuple) else [tg]):
                    if m is None:
                        if not (isinstance(v, ast.Constant) and isinstance(v.value, bool)):
                            raise Unsupported("%s: self._is_fitted = %s" % (self.cfg["path"],
                                                                          ast.unparse(v)))
                        self.emit(path, "(AMut (A_fitted %s))" % _cb(v.value))
                    else:
                        self.emit(path, m)
                continue
            if isinstance(s, ast.If):
                g = self.guard(s.test)
                if g is None:
                    # not a guard we know: only allowed around pure work
                    self.clean(s, "a conditional on `%s`" % ast.unparse(s.test)[:40])
                    self.fh_access(s, path)
                    self.emit(path, "AWork")
                    continue
                self.clean(s.test, "a test")
                self.fh_access(s.test, path)
                saved = self.raise_path
                r1 = self.walk(s.body, path + [(g[0], g[1])])
                r2 = self.walk(s.orelse, path + [(g[0], not g[1])]) if s.orelse else None
                self.raise_path = saved
                if r1 and r2:
                    return "raise" if r1 == r2 == "raise" else "return"
                if r1:
                    path = path + [(g[0], not g[1])]
                    if r1 == "raise":
                        self.raise_path = self.raise_path + [(g[0], not g[1])]
                elif r2:
                    path = path + [(g[0], g[1])]
                    if r2 == "raise":
                        self.raise_path = self.raise_path + [(g[0], g[1])]
                continue
            if isinstance(s, (ast.For, ast.While, ast.With, ast.FunctionDef, ast.Try, ast.AugAssign,
                              ast.Import, ast.ImportFrom, ast.Pass, ast.Expr, ast.Assign, ast.Assert)):
                if isinstance(s, ast.FunctionDef):
                    # a nested definition does not run here; its calls are made by later work
                    for c in _calls(s):
                        u = ast.unparse(c.func)
                        if u in self.ctx.validators() or u in HELPERS or CHECKLIKE.search(u):
                            raise Unsupported("%s: validator call %s in a nested function"
                                              % (self.cfg["path"], u))
                    self.emit(path, "AWork")
                    continue
                if isinstance(s, (ast.Import, ast.ImportFrom, ast.Pass)):
                    continue
                if isinstance(s, ast.Assert):
                    continue
                self.clean(s, "a work statement")
                self.fh_access(s, path)
                self.emit(path, "AWork")
                continue
            raise Unsupported("%s: statement %s" % (self.cfg["path"], ast.dump(s)[:80]))
        return None

    def narrow(self, path, p2):
        """The caller's path after an inlined helper: its raise guards also narrow what the
        caller's own raise guards have narrowed so far."""
        extra = [g for g in p2 if g not in path]
        self.raise_path = self.raise_path + [g for g in extra if g not in self.raise_path]
        return path + extra

    def ret_value(self, v, path):
        if isinstance(v, ast.Call) and self.validator_call(v, path) is not None:
            return
        if isinstance(v, ast.Name) or (isinstance(v, ast.Constant)):
            return
        self.clean(v, "a returned expression")
        self.fh_access(v, path)
        self.emit(path, "AWork")


# ---- entries --------------------------------------------------------------------------------------


def _naive_block(stmts):
    units = [ast.unparse(s) for s in stmts]
    if "self._set_fh(fh)" in units and "self._is_fitted = True" in units:
        a, b = units.index("self._set_fh(fh)"), units.index("self._is_fitted = True")
        return stmts[a + 1:b]
    return None


def _aggfunc_block(stmts):
    for i, s in enumerate(stmts):
        if isinstance(s, ast.Assign) and ast.unparse(s.targets[0]) == "valid_aggfuncs":
            return stmts[i:i + 2]
    return None


SK = "sktime/forecasting/base/_sktime.py"
SPLIT = "sktime/forecasting/model_selection/_split.py"
RED = "sktime/forecasting/compose/_reduce.py"
ENTRIES = [
    dict(src=SK, path="_SktimeForecaster._set_y_X", coq="set_y_X"),
    dict(src=SK, path="_SktimeForecaster._update_y_X", coq="update_y_X"),
    dict(src=SK, path="_SktimeForecaster.predict", coq="predict"),
    dict(src=SK, path="_SktimeForecaster.update", coq="update"),
    dict(src=SK, path="_SktimeForecaster.update_predict", coq="update_predict"),
    dict(src=SK, path="_SktimeForecaster.update_predict_single", coq="update_predict_single"),
    dict(src=SK, path="_BaseWindowForecaster.update_predict", coq="bw_update_predict"),
    dict(src="sktime/forecasting/naive.py", path="NaiveForecaster.fit", coq="naive_fit",
         blocks=[("VNaiveRules", _naive_block)]),
    dict(src="sktime/forecasting/trend.py", path="PolynomialTrendForecaster.fit", coq="poly_fit"),
    dict(src=RED, path="_Reducer.fit", coq="reducer_fit"),
    dict(src=RED, path="_DirectReducer._fit", coq="direct_fit"),
    dict(src=RED, path="_MultioutputReducer._fit", coq="multioutput_fit"),
    dict(src=RED, path="_sliding_window_transform", coq="sliding_window_transform"),
    dict(src=RED, path="make_reduction", coq="make_reduction"),
    dict(src="sktime/forecasting/compose/_ensemble.py", path="EnsembleForecaster.fit", coq="ens_fit"),
    dict(src="sktime/forecasting/compose/_ensemble.py", path="EnsembleForecaster.update",
         coq="ens_update"),
    dict(src="sktime/forecasting/compose/_ensemble.py", path="EnsembleForecaster._predict",
         coq="ens_predict", blocks=[("VAggfunc", _aggfunc_block)]),
    dict(src="sktime/forecasting/compose/_pipeline.py", path="TransformedTargetForecaster.fit",
         coq="ttf_fit"),
    dict(src="sktime/forecasting/compose/_pipeline.py", path="TransformedTargetForecaster.update",
         coq="ttf_update"),
    dict(src="sktime/forecasting/base/adapters/_statsmodels.py", path="_StatsModelsAdapter.fit",
         coq="sm_fit"),
    dict(src="sktime/forecasting/theta.py", path="ThetaForecaster.fit", coq="theta_fit"),
    dict(src="sktime/forecasting/model_selection/_tune.py", path="BaseGridSearch.fit",
         coq="gscv_fit"),
    dict(src="sktime/forecasting/model_evaluation/_functions.py", path="evaluate", coq="evaluate"),
    dict(src=SPLIT, path="BaseSplitter.split", coq="split", fh_property=False),
    dict(src=SPLIT, path="BaseWindowSplitter._split", coq="window_split", fh_property=False),
    dict(src=SPLIT, path="BaseWindowSplitter.get_cutoffs", coq="window_cutoffs", fh_property=False),
    dict(src=SPLIT, path="SingleWindowSplitter._split", coq="single_split", fh_property=False),
    dict(src=SPLIT, path="CutoffSplitter._split", coq="cutoff_split", fh_property=False),
    dict(src=SPLIT, path="temporal_train_test_split", coq="tts"),
]

HEADER = """(* GENERATED by /verif/translator/chains_c20.py -- do not edit, never committed.
   The validation structure of the entry points: ordered events with their path conditions. *)
From Coq Require Import String ZArith List Bool.
Require Import SkV.Lib.Base SkV.C20.Model SkV.C20.ModelV SkV.C20.Chain.
Import ListNotations.
Open Scope Z_scope.

"""


def check_pins(ctx):
    for src, path, text in PINS:
        fn = find(ctx.mod(src), path)
        body = [s for s in fn.body if not _is_doc(s)]
        got = "\n".join(ast.unparse(s) for s in body)
        if got != text:
            raise Unsupported("%s:%s is not `%s`" % (src, path, text))


def render(events):
    out = []
    for p, a in events:
        out.append("ev [%s] %s" % ("; ".join("(%s, %s)" % (g, _cb(b)) for g, b in p), a))
    return "[ " + ";\n    ".join(out) + " ]"


def extract(repo, cfg, mods=None):
    ctx = Ctx(repo, cfg["src"])
    if mods is not None:
        ctx.mods = mods
    ch = Chain(ctx, cfg)
    fn = find(ctx.mod(cfg["src"]), cfg["path"])
    if not isinstance(fn, ast.FunctionDef):
        raise Unsupported(cfg["path"] + " is not a function")
    ch.walk(fn.body, [])
    return ch.events


def translate(repo):
    mods = {}
    ctx = Ctx(repo, SK)
    ctx.mods = mods
    check_pins(ctx)
    out = [HEADER]
    for cfg in ENTRIES:
        ev = extract(repo, cfg, mods)
        out.append("(* %s : %s *)" % (cfg["src"], cfg["path"]))
        out.append("Definition gen_chain_%s : list gev :=\n  %s.\n" % (cfg["coq"], render(ev)))
    out.append("Definition gen_chain_of (e : entry) : list gev :=\n  match e with\n%s\n  end.\n" % "\n".join(
        "  | E_%s => gen_chain_%s" % (c["coq"], c["coq"]) for c in ENTRIES))
    return {"C20/GenC.v": "\n".join(out)}


if __name__ == "__main__":
    import sys
    print(translate(sys.argv[1] if len(sys.argv) > 1 else "/repo")["C20/GenC.v"])
