"""C20: the validation structure of the forecasting entry points as ordered, guarded event chains.

For every configured entry point the method body is walked statement by statement (fail-closed)
and flattened into a Gallina `list gev`; every event carries the path condition (guards of the
enclosing `if`s, negated guards of earlier early `return`s) under which it is executed:

    AChk v        a validator call that may reject (`check_y_X(y, X, allow_empty=False)`,
                  `self._set_fh(fh)`, `self.check_is_fitted()`, `self._check_forecasters()`, an
                  inline `if <guard>: raise ...` (= VRaise under that guard), a block of rules
                  that is regenerated as a function of its own (NaiveForecaster's settings), ...)
    AMut a        a mutation of the observable state (`self._y`, `self._X`, `self._fh`, the cutoff,
                  `self._is_fitted = <const>`)
    (work)        anything else (fitting, numerics, construction of results) is not listed, but it
                  is checked: work statements may not contain `raise`, calls of known validators
                  or of anything named like one, or observable mutations - otherwise the
                  translation fails closed.

Helper methods (`self._set_y_X`, `self._update_y_X`, `_split_by_fh`, ...) are inlined at the call
site, so a validator moved into / out of / within a helper, dropped, or moved behind a state
mutation changes the emitted list - and with it the bridge lemmas `gen_chain_X = chain_X` and the
safety facts computed on the regenerated lists.  Besides the configured helpers, ANY call at
statement level (`f(..)`, `x = f(..)`, `return f(..)`, `yield f(..)`) of a function of the same file
or of a `self._m(..)` method of the same class (or a base class in the file) is followed: its body
is walked with the parameters replaced by the argument expressions, and if that yields events
they are listed in place (a `raise` guard of the helper narrows the caller's path exactly like an
inline guard; a `return` of the helper does not).  A helper whose body is outside the walker's
subset, or that has no events, stays opaque work as before; a validator-like name that is neither
known nor followable fails closed.  So extracting validation into a private helper (or inlining
it back) leaves the chain unchanged.

The meaning of the tests that become guards and of the calls that become validators is fixed by
the tables below (the trusted part, like the primitive table of pyz).  The keys of the validator
table are PUBLIC validators and the forecaster protocol (`self._set_fh`, `self.check_is_fitted`);
the private validation helpers (`_check_forecasters`, `_check_steps`, the strategy / scitype name
checks) are found by role through the call graph (roles_c20.py), whatever they are called.  Calls
are compared in a canonical argument form (keyword vs positional does not matter).
"""
import ast
import copy
import os
import re

from .pyz import Unsupported, find

# ---- tables ------------------------------------------------------------------------------------------

# test (unparsed) -> (guard, polarity)
GUARDS = {
    "X is not None": ("GXGiven", True), "X is None": ("GXGiven", False),
    "cv is not None": ("GCvGiven", True), "cv is None": ("GCvGiven", False),
    "fh is not None": ("GFhGiven", True), "fh is None": ("GFhGiven", False),
    "y is None": ("GYGiven", False),
    "return_pred_int": ("GRetInt", True),
    "update_params": ("GUpdateParams", True),
    "len(y) > 0": ("GYNonEmpty", True), "len(y) == 0": ("GYNonEmpty", False),
    "test_size is not None or train_size is not None": ("GSizesGiven", True),
    "self.initial_window is not None": ("GIwGiven", True),
    "not self.start_with_window": ("GSww", False),
    "self.initial_window <= self.window_length": ("GIwLeWl", True),
    "not self.fh.is_all_out_of_sample(self.cutoff)": ("GFhOos", False),
    "not fh.is_all_out_of_sample()": ("GArgFhOos", False),
    "fh.is_relative": ("GFhRelative", True),
    "scitype == 'infer'": ("GScitypeInfer", True),
    "np.max(cutoffs) >= y.shape[0]": ("GCutoffBeyond", True),
    "np.max(cutoffs) + np.max(fh) >= y.shape[0]": ("GCutoffFhBeyond", True),
    "window_length + fh_max >= n_timepoints": ("GReduceTooShort", True),
    # the feasibility tests of the window splitters (`_check_window_lengths`, wherever they live);
    # keys are in canonical form: temporaries replaced, `a < b` written `b > a`
    # and a local that holds a checked setting (`wl = check_window_length(self.window_length)`: the
    # validators return their argument, BridgeV) is the setting
    "self.window_length + fh[-1] > y.shape[0]": ("GWlTooLong", True),
    "self.initial_window + fh[-1] > y.shape[0]": ("GIwTooLong", True),
    "self.refit": ("GRefit", True),
}

class _Mirror(ast.NodeTransformer):
    """`a < b` -> `b > a`, `a <= b` -> `b >= a`: one spelling per comparison."""

    def visit_Compare(self, node):
        self.generic_visit(node)
        if len(node.ops) == 1 and isinstance(node.ops[0], (ast.Lt, ast.LtE)):
            op = ast.Gt() if isinstance(node.ops[0], ast.Lt) else ast.GtE()
            return ast.Compare(left=node.comparators[0], ops=[op], comparators=[node.left])
        return node


def canon(node):
    return ast.unparse(_Mirror().visit(copy.deepcopy(node)))


def _canon_guards():
    return {canon(ast.parse(k, mode="eval").body): v for k, v in GUARDS.items()}


MUT_ATTRS = {"self._y": "A_y", "self._X": "A_X", "self._fh": "A_fh", "self._cutoff": "A_cutoff"}
DATA_ARGS = {"y": "y", "X": "X", "y_new": "y", "Z": "y"}


def _kw(call, allowed):
    out = {}
    for k in call.keywords:
        if k.arg is None or k.arg not in allowed:
            raise Unsupported("keyword %s in %s" % (k.arg, ast.unparse(call)))
        out[k.arg] = k.value
    return out


def _const(node, default=None):
    if node is None:
        return default
    if isinstance(node, ast.Constant):
        return node.value
    raise Unsupported("non-constant validator option " + ast.unparse(node))


def _cb(b):
    return "true" if b else "false"


def _pos(call, names):
    """Positional arguments must be exactly the given data names (after renaming of y_new / Z)."""
    got = [DATA_ARGS.get(ast.unparse(a), ast.unparse(a)) for a in call.args]
    if got != list(names):
        raise Unsupported("arguments of %s: expected %s" % (ast.unparse(call), list(names)))


def v_check_y_X(c, ctx):
    if len(c.args) == 1:
        _pos(c, ["y"])
        withx = False
    else:
        _pos(c, ["y", "X"])
        withx = True
    kw = _kw(c, ("allow_empty", "enforce_index_type"))
    if "enforce_index_type" in kw and ast.unparse(kw["enforce_index_type"]) not in (
            "enforce_index_type", "None"):
        raise Unsupported("enforce_index_type in " + ast.unparse(c))
    return "(VCheckYX %s %s)" % (_cb(_const(kw.get("allow_empty"), False)), _cb(withx and ctx.x_given))


def v_check_y(c, ctx):
    _pos(c, ["y"])
    kw = _kw(c, ("allow_empty",))
    return "(VCheckY %s)" % _cb(_const(kw.get("allow_empty"), False))


def v_check_X(c, ctx):
    _pos(c, ["X"])
    _kw(c, ())
    return "VCheckX"


def v_equal_index(c, ctx):
    _pos(c, ["y", "X"])
    return "VEqualIndex"


def v_noargs(term):
    def h(c, ctx):
        if c.args or c.keywords:
            raise Unsupported("arguments in " + ast.unparse(c))
        return term
    return h


def v_set_fh(c, ctx):
    if [ast.unparse(a) for a in c.args] != ["fh"] or c.keywords:
        raise Unsupported("arguments in " + ast.unparse(c))
    return "VSetFh"


def v_check_fh(c, ctx):
    a = [ast.unparse(x) for x in c.args]
    kw = _kw(c, ("enforce_relative",))
    if a in (["self.fh"], ["cv.fh"]):
        src = "FhSelf"
    elif a == ["fh"]:
        src = "FhArg"
    else:
        raise Unsupported("arguments in " + ast.unparse(c))
    return "(VCheckFh %s %s)" % (src, _cb(_const(kw.get("enforce_relative"), False)))


def v_check_cv(c, ctx):
    a = [ast.unparse(x) for x in c.args]
    kw = _kw(c, ("enforce_start_with_window",))
    if a == ["cv"]:
        src = "CvArg"
    elif a == ["self.cv"]:
        src = "CvSelf"
    else:
        raise Unsupported("arguments in " + ast.unparse(c))
    return "(VCheckCv %s %s)" % (src, _cb(_const(kw.get("enforce_start_with_window"), False)))


def v_check_scoring(c, ctx):
    a = [ast.unparse(x) for x in c.args]
    if c.keywords or a not in (["scoring"], ["self.scoring"]):
        raise Unsupported("arguments in " + ast.unparse(c))
    return "(VCheckScoring %s)" % ("ScArg" if a == ["scoring"] else "ScSelf")


def v_attr(term, attrs):
    def h(c, ctx):
        a = [ast.unparse(x) for x in c.args]
        if c.keywords or not a or a[0] not in attrs:
            raise Unsupported("arguments in " + ast.unparse(c))
        if len(a) > 1 and not (len(a) == 2 and isinstance(c.args[1], ast.Constant)
                               and isinstance(c.args[1].value, str)):
            raise Unsupported("arguments in " + ast.unparse(c))
        return term % attrs[a[0]] if "%s" in term else term
    return h


def v_name(term, name):
    def h(c, ctx):
        if [ast.unparse(x) for x in c.args] != [name] or c.keywords:
            raise Unsupported("arguments in " + ast.unparse(c))
        return term
    return h


def _index_of(e, name):
    """`e` is the data `name` or its time index: `y`, `y.index`, or a choice between the two on a
    type test of `y` (`y.index if isinstance(y, pd.Series) else y`)."""
    if isinstance(e, ast.Name):
        return e.id == name
    if isinstance(e, ast.Attribute):
        return e.attr == "index" and isinstance(e.value, ast.Name) and e.value.id == name
    if isinstance(e, ast.IfExp):
        t = e.test
        if isinstance(t, ast.UnaryOp) and isinstance(t.op, ast.Not):
            t = t.operand
        return isinstance(t, ast.Call) and ast.unparse(t.func) == "isinstance" and len(t.args) == 2 \
            and isinstance(t.args[0], ast.Name) and t.args[0].id == name \
            and _index_of(e.body, name) and _index_of(e.orelse, name)
    return False


def v_index_of(term, name):
    def h(c, ctx):
        if len(c.args) != 1 or c.keywords or not _index_of(c.args[0], name):
            raise Unsupported("arguments in " + ast.unparse(c))
        return term
    return h


VALIDATORS = {
    "check_y_X": v_check_y_X, "check_y": v_check_y, "check_X": v_check_X,
    "check_equal_time_index": v_equal_index,
    "self.check_is_fitted": v_noargs("VIsFitted"),
    "self._set_fh": v_set_fh,
    "check_fh": v_check_fh,
    "check_cv": v_check_cv, "check_scoring": v_check_scoring,
    "check_step_length": v_attr("VCheckStep", {"self.step_length": ""}),
    "check_window_length": v_attr("(VCheckWl %s)", {"self.window_length": "WWindow",
                                                    "self.initial_window": "WInitial",
                                                    "window_length": "WWindow"}),
    "check_sp": v_attr("VCheckSp", {"self.sp": ""}),
    "check_cutoffs": v_attr("VCheckCutoffs", {"self.cutoffs": ""}),
}
# per source file: names that mean something else there
VALIDATORS_BY_FILE = {
    "sktime/forecasting/model_selection/_split.py": {
        "check_time_index": v_index_of("VTimeIndex", "y")},
}
# private validation helpers: found by role (roles_c20: call graph from the public entry point),
# whatever they are called in the tree at hand.  (label, receiver prefix, file or None = any, event)
ROLE_VALIDATORS = [
    ("_check_forecasters", "self.", None, v_noargs("VForecasters")),
    ("_check_steps", "self.", None, v_noargs("VSteps")),
    ("_infer_scitype", "", "sktime/forecasting/compose/_reduce.py",
     v_name("VInferScitype", "estimator")),
    ("eval._check_strategy", "", "sktime/forecasting/model_evaluation/_functions.py",
     v_name("VEvalStrategy", "strategy")),
    ("reduce._check_strategy", "", "sktime/forecasting/compose/_reduce.py",
     v_name("VReduceStrategy", "strategy")),
    ("_check_scitype", "", "sktime/forecasting/compose/_reduce.py", v_name("VScitype", "scitype")),
]
# validators that return their (accepted) argument unchanged - proved for the regenerated code:
# bridge_check_window_length / bridge_check_step_length give `Ok v` for the argument `v`
IDENTITY_VALIDATORS = ("check_window_length", "check_step_length")
CHECKLIKE = re.compile(r"(^|\.)(_?check_\w*|_set_fh|_set_y_X|_update_y_X|_update_X|check_is_fitted"
                       r"|_infer_scitype|_set_cutoff)$")

# helper calls inlined at the call site: callee -> (source file, path, expected argument text)
HELPERS = {
    "super(ThetaForecaster, self).fit": (
        "sktime/forecasting/base/adapters/_statsmodels.py", "_StatsModelsAdapter.fit",
        ["(y, fh=fh)"], {"x_given": False}),
}

# source shapes the tables above rely on (checked verbatim, fail-closed)
def check_pins(ctx):
    """`self.fh` must be the property that raises when no horizon is known (the VFhKnown event)."""
    fn = find(ctx.mod("sktime/forecasting/base/_sktime.py"), "_SktimeForecaster.fh")
    if [ast.unparse(d) for d in fn.decorator_list] != ["property"]:
        raise Unsupported("_SktimeForecaster.fh is not a property")
    body = [s for s in fn.body if not _is_doc(s)]
    ok = len(body) == 2 and isinstance(body[0], ast.If) and not body[0].orelse \
        and ast.unparse(body[0].test) in ("self._fh is None", "not self._fh is not None") \
        and len(body[0].body) == 1 and isinstance(body[0].body[0], ast.Raise) \
        and isinstance(body[1], ast.Return) and ast.unparse(body[1].value) == "self._fh"
    if not ok:
        raise Unsupported("_SktimeForecaster.fh does not raise exactly when no horizon is known")


class Ctx:
    def __init__(self, repo, src, x_given=True):
        self.repo = repo
        self.src = src
        self.x_given = x_given
        self.mods = {}
        self.roles = None

    def mod(self, src):
        if src not in self.mods:
            with open(os.path.join(self.repo, src)) as f:
                self.mods[src] = ast.parse(f.read())
        return self.mods[src]

    def validators(self):
        v = dict(VALIDATORS)
        v.update(VALIDATORS_BY_FILE.get(self.src, {}))
        if self.roles is None:
            from .roles_c20 import Roles
            self.roles = Roles(self.repo, self.mods)
        for label, prefix, src, h in ROLE_VALIDATORS:
            if (src is None or src == self.src) and label in self.roles.name:
                # (an unresolved role: its former call sites are plain statements, which the
                # walker lists or refuses like any other code)
                v[prefix + self.roles.name[label]] = h
        return v


def _calls(node):
    return [n for n in ast.walk(node) if isinstance(n, ast.Call)]


def _is_doc(s):
    return isinstance(s, ast.Expr) and isinstance(s.value, ast.Constant) and isinstance(s.value.value, str)


def _obs_mutation(node, skip=()):
    """Does the statement (deeply) assign an observable attribute / call _set_cutoff?"""
    for n in ast.walk(node):
        if n in skip:
            continue
        tg = []
        if isinstance(n, ast.Assign):
            tg = n.targets
        elif isinstance(n, (ast.AugAssign, ast.AnnAssign)):
            tg = [n.target]
        for t in tg:
            for x in (t.elts if isinstance(t, ast.Tuple) else [t]):
                u = ast.unparse(x)
                if u in MUT_ATTRS or u == "self._is_fitted":
                    return True
        if isinstance(n, ast.Call) and ast.unparse(n.func) == "self._set_cutoff":
            return True
    return False


class Chain:
    def __init__(self, ctx, cfg):
        self.ctx = ctx
        self.cfg = cfg
        self.events = []          # (path tuple, act)

    def emit(self, path, act):
        if act == "AWork":
            return          # work is checked to be free of validation / raises / mutations, not listed
        self.events.append((tuple(path), act))

    def clean(self, node, what, skip=()):
        """Work: no raise, no validator-like call (except the handled ones), no observable mutation."""
        for n in ast.walk(node):
            if isinstance(n, ast.Raise):
                raise Unsupported("%s: raise inside %s" % (self.cfg["path"], what))
        vals = self.ctx.validators()
        inside = set()
        for h in skip:
            for x in ast.walk(h):
                inside.add(x)
        for c in _calls(node):
            if c in inside:
                continue
            u = ast.unparse(c.func)
            if u in vals and vals[u] is None:
                continue
            if u in vals or u in HELPERS:
                raise Unsupported("%s: validator call %s inside %s" % (self.cfg["path"], u, what))
            if CHECKLIKE.search(u):
                st, _ = Chain(self.ctx, dict(self.cfg)).follow(c, [])
                if st != "empty":
                    raise Unsupported("%s: validator call %s inside %s" % (self.cfg["path"], u, what))
        if _obs_mutation(node, inside):
            raise Unsupported("%s: state mutation inside %s" % (self.cfg["path"], what))

    def fh_access(self, node, path, skip=()):
        """`self.fh` raises when no horizon is known: a check of its own."""
        inside = set()
        for h in skip:
            for x in ast.walk(h):
                inside.add(x)
        for n in ast.walk(node):
            if n in inside:
                continue
            if isinstance(n, ast.Attribute) and ast.unparse(n) == "self.fh" \
                    and isinstance(n.ctx, ast.Load) and self.cfg.get("fh_property", True):
                self.emit(path, "(AChk VFhKnown)")
                return

    # ---- helpers: resolved through the call graph, never by a fixed name -----------------------
    def _class_def(self, src, name, depth=0):
        """(source file, ClassDef) of a class visible under `name` in the file `src`."""
        mod = self.ctx.mod(src)
        for n in mod.body:
            if isinstance(n, ast.ClassDef) and n.name == name:
                return src, n
        if depth >= 4:
            return None
        for n in mod.body:
            if isinstance(n, ast.ImportFrom) and n.module and n.level == 0:
                for a in n.names:
                    if (a.asname or a.name) == name:
                        base = n.module.replace(".", "/")
                        for rel in (base + ".py", base + "/__init__.py"):
                            if os.path.exists(os.path.join(self.ctx.repo, rel)):
                                r = self._class_def(rel, a.name, depth + 1)
                                if r is not None:
                                    return r
        return None

    def _method_def(self, src, cls, name):
        """(file, FunctionDef, takes_self) of `cls.name`, searching the bases (also in other files)."""
        todo, seen = [(src, cls)], set()
        while todo:
            f, c = todo.pop(0)
            if (f, c) in seen:
                continue
            seen.add((f, c))
            r = self._class_def(f, c)
            if r is None:
                continue
            f2, cd = r
            for n in cd.body:
                if isinstance(n, ast.FunctionDef) and n.name == name:
                    static = any(ast.unparse(d) == "staticmethod" for d in n.decorator_list)
                    return f2, n, not static
            todo += [(f2, ast.unparse(b)) for b in cd.bases]
        return None

    def resolve_helper(self, f):
        """The definition a call refers to: a function of the same file, or a method of the class
        of the entry point (or of one of its bases, wherever they are defined)."""
        if isinstance(f, ast.Name):
            for n in self.ctx.mod(self.ctx.src).body:
                if isinstance(n, ast.FunctionDef) and n.name == f.id:
                    return self.ctx.src, n, False
            return None
        if isinstance(f, ast.Attribute) and isinstance(f.value, ast.Name) and f.value.id == "self":
            cls = self.cfg.get("cls") or (self.cfg["path"].split(".")[0] if "." in self.cfg["path"]
                                          else None)
            if cls is not None:
                return self._method_def(self.cfg.get("cls_src", self.ctx.src), cls, f.attr)
        return None

    def follow(self, call, path):
        """Walk the body of a private helper in place of the call.  Returns ("events", path after
        the call - narrowed by the helper's raise guards), ("empty", path) if the helper contains
        nothing the chain lists, or ("fail", path) if it is not a followable helper."""
        nm = call.func.id if isinstance(call.func, ast.Name) else getattr(call.func, "attr", "")
        if not nm.startswith("_") or nm.startswith("__"):
            return "fail", path  # public API is an entry point of its own (and may be overridden)
        r = self.resolve_helper(call.func)
        stack = tuple(self.cfg.get("_stack", ()))
        if r is None or len(stack) >= 5:
            return "fail", path
        src, fn, takes_self = r
        body = [x for x in fn.body if not _is_doc(x)]
        if (len(body) == 1 and isinstance(body[0], ast.Raise)) or fn.name in stack:
            return "fail", path                                  # abstract method / recursion
        a = fn.args
        if a.vararg or a.kwarg or a.kwonlyargs or a.posonlyargs \
                or any(isinstance(x, ast.Starred) for x in call.args):
            return "fail", path
        names = [x.arg for x in a.args][1 if takes_self else 0:]
        dflt = dict(zip(names[len(names) - len(a.defaults):], a.defaults))
        if len(call.args) > len(names):
            return "fail", path
        given = dict(zip(names, call.args))
        for kw in call.keywords:
            if kw.arg is None or kw.arg not in names or kw.arg in given:
                return "fail", path
            given[kw.arg] = kw.value
        sub_map = {}
        for n in names:
            if n in given:
                arg = self.subst_temps(given[n])
                if any(isinstance(x, ast.Call) and not re.match(
                        r"^(np\.(max|min|abs)|len|abs|min|max|isinstance|type)$", ast.unparse(x.func))
                       for x in ast.walk(arg)):
                    # an argument that is computed by a call is evaluated once, at the call site
                    # (its events are listed there): inside the helper the parameter is just a value
                    continue
                sub_map[n] = arg
            elif n in dflt:
                sub_map[n] = dflt[n]
            else:
                return "fail", path
        # a parameter stands for its argument until the helper assigns to it
        live = dict(sub_map)

        class Sub(ast.NodeTransformer):
            def visit_Name(self, node):
                if isinstance(node.ctx, ast.Load) and node.id in live:
                    return copy.deepcopy(live[node.id])
                return node
        body2 = []
        for st in body:
            st2 = ast.fix_missing_locations(Sub().visit(copy.deepcopy(st)))
            body2.append(st2)
            for x in ast.walk(st):
                if isinstance(x, ast.Name) and isinstance(x.ctx, ast.Store):
                    live.pop(x.id, None)
        cls = self.cfg.get("cls") or (self.cfg["path"].split(".")[0] if "." in self.cfg["path"]
                                      else None)
        ctx2 = Ctx(self.ctx.repo, src, self.ctx.x_given)
        ctx2.mods = self.ctx.mods
        ctx2.roles = self.ctx.roles
        sub = Chain(ctx2, dict(self.cfg, blocks=(), _stack=stack + (fn.name,), cls=cls,
                               cls_src=self.cfg.get("cls_src", self.ctx.src)))
        try:
            sub.walk(body2, list(path))
        except Unsupported:
            return "fail", path               # outside the walker's subset: opaque work, as before
        if not sub.events:
            return "empty", path
        for p, act in sub.events:
            self.emit(p, act)
        return "events", list(sub.raise_path)

    def validator_call(self, call, path):
        """Emit the event(s) of a validator / helper call. Returns the path under which the caller
        continues, or None if the call is neither."""
        u = ast.unparse(call.func)
        vals = self.ctx.validators()
        if u in HELPERS:
            src, hpath, shapes, opts = HELPERS[u]
            args = ast.unparse(call)[len(u):]
            if args not in shapes:
                raise Unsupported("%s: helper call %s" % (self.cfg["path"], ast.unparse(call)))
            ctx2 = Ctx(self.ctx.repo, src, opts.get("x_given", self.ctx.x_given))
            ctx2.mods = self.ctx.mods
            ctx2.roles = self.ctx.roles
            sub = Chain(ctx2, dict(path=hpath, fh_property=self.cfg.get("fh_property", True)))
            sub.walk(find(self.ctx.mod(src), hpath).body, list(path))
            for p, a in sub.events:
                self.emit(p, a)
            return list(sub.raise_path)
        if u in vals:
            if vals[u] is None:
                return None
            call2 = self.subst_temps(call)        # `cv_fh = cv.fh; check_fh(cv_fh)`
            call2 = self.canonical(call2)         # keyword / positional argument forms
            for a in list(call2.args) + [k.value for k in call2.keywords]:
                self.clean(a, "the arguments of " + u)
            self.emit(path, "(AChk %s)" % vals[u](call2, self.ctx))
            return path
        if u == "self._set_cutoff" and not self._followable(call):
            self.emit(path, "(AMut A_cutoff)")
            return path
        st, p2 = self.follow(call, path)
        if st == "events":
            return p2
        if CHECKLIKE.search(u) and st == "fail":
            raise Unsupported("%s: unknown validator %s" % (self.cfg["path"], u))
        return None

    def canonical(self, call):
        """The call with its arguments in the canonical form (roles_c20.canonical_call), if the
        callee's definition can be found; otherwise unchanged (the handlers then fail closed on
        anything but the plain form)."""
        from .roles_c20 import Tree, canonical_call
        f = call.func
        d = None
        if isinstance(f, ast.Name):
            r = Tree(self.ctx.repo, self.ctx.mods).function_def(self.ctx.src, f.id)
            if r is not None:
                d = (r[1], False)
        elif isinstance(f, ast.Attribute) and isinstance(f.value, ast.Name) and f.value.id == "self":
            r = self.resolve_helper(f)
            if r is not None:
                d = (r[1], r[2])
        if d is None or d[0].decorator_list and not all(
                ast.unparse(x) == "staticmethod" for x in d[0].decorator_list):
            return call
        c = canonical_call(call, d[0], d[1])
        return call if c is None else c

    def _followable(self, call):
        return self.resolve_helper(call.func) is not None

    def calls_in(self, node, path, handled, guarded=False):
        """Validator / helper calls inside an expression, in evaluation order (arguments before the
        call). A validator call that is only conditionally evaluated fails closed."""
        for child in ast.iter_child_nodes(node):
            g = guarded or isinstance(node, (ast.IfExp, ast.BoolOp, ast.Lambda, ast.GeneratorExp,
                                             ast.ListComp, ast.SetComp, ast.DictComp))
            path = self.calls_in(child, path, handled, g)
        if isinstance(node, ast.Call):
            u = ast.unparse(node.func)
            vals = self.ctx.validators()
            interesting = (u in HELPERS or (u in vals and vals[u] is not None)
                           or CHECKLIKE.search(u) is not None
                           or (u.split(".")[-1].startswith("_") and self._followable(node)))
            if interesting:
                before = len(self.events)
                if guarded:
                    # only a problem if the call really carries events
                    probe = Chain(self.ctx, dict(self.cfg))
                    probe.temps = getattr(self, "temps", {})
                    if probe.validator_call(node, list(path)) is not None and probe.events:
                        raise Unsupported("%s: conditionally evaluated validator call %s"
                                          % (self.cfg["path"], u))
                    return path
                p2 = self.validator_call(node, path)
                if p2 is not None or len(self.events) > before:
                    handled.add(node)
                    if p2 is not None:
                        path = self.narrow(path, p2)
        return path

    def expr_events(self, expr, path, what):
        """All events of evaluating an expression; what is left must be clean work."""
        handled = set()
        path = self.calls_in(expr, path, handled)
        self.clean(expr, what, skip=handled)
        self.fh_access(expr, path, skip=handled)
        return path

    def mutation_targets(self, tg):
        out = []
        for x in (tg.elts if isinstance(tg, ast.Tuple) else [tg]):
            u = ast.unparse(x)
            if u in MUT_ATTRS:
                out.append("(AMut %s)" % MUT_ATTRS[u])
            elif u == "self._is_fitted":
                out.append(None)      # needs the constant
            else:
                out.append("AWork")
        return out

    def guard(self, test):
        """The guard a test stands for, up to: `not`, the direction a comparison is written in,
        and temporaries (`m = np.max(cutoffs)` ... `if m >= n:`) replaced by their definitions."""
        table = _canon_guards()
        u = canon(test)
        if u in table:
            return table[u]
        if isinstance(test, ast.UnaryOp) and isinstance(test.op, ast.Not):
            g = self.guard(test.operand)
            return None if g is None else (g[0], not g[1])
        u2 = canon(self.subst_temps(test))
        if u2 in table:
            return table[u2]
        if isinstance(test, ast.Call) and not test.keywords \
                and len(self.cfg.get("_stack", ())) < 5:
            # a private predicate: `def _too_long(a, b, n): return a + b > n`
            r = self.resolve_helper(test.func)
            if r is not None:
                _, fn, takes_self = r
                body = [x for x in fn.body if not _is_doc(x)]
                names = [x.arg for x in fn.args.args][1 if takes_self else 0:]
                if len(body) == 1 and isinstance(body[0], ast.Return) and body[0].value is not None \
                        and len(names) == len(test.args) and not fn.args.vararg and not fn.args.kwarg:
                    m = {n: self.subst_temps(a) for n, a in zip(names, test.args)}

                    class Sub(ast.NodeTransformer):
                        def visit_Name(self, n):
                            if isinstance(n.ctx, ast.Load) and n.id in m:
                                return copy.deepcopy(m[n.id])
                            return n
                    inner = ast.fix_missing_locations(Sub().visit(copy.deepcopy(body[0].value)))
                    saved = getattr(self, "temps", {})
                    self.temps = {}
                    try:
                        return self.guard(inner)
                    finally:
                        self.temps = saved
        return None

    def subst_temps(self, node):
        temps = getattr(self, "temps", {})
        if not temps:
            return node

        class Sub(ast.NodeTransformer):
            def visit_Name(self, n):
                if isinstance(n.ctx, ast.Load) and n.id in temps:
                    return self.visit(copy.deepcopy(temps[n.id]))
                return n
        return ast.fix_missing_locations(Sub().visit(copy.deepcopy(node)))

    def note_temps(self, stmts):
        """Single-assignment temporaries with a side-effect-free right-hand side."""
        counts = {}
        for st in stmts:
            for x in ast.walk(st):
                if isinstance(x, ast.Name) and isinstance(x.ctx, ast.Store):
                    counts[x.id] = counts.get(x.id, 0) + 1
        pure_calls = re.compile(r"^(np\.(max|min|abs)|len|abs|min|max|isinstance|type)$")

        def pure(e):
            for x in ast.walk(e):
                if isinstance(x, ast.Call) and not pure_calls.match(ast.unparse(x.func)):
                    return False
                if isinstance(x, (ast.Lambda, ast.Yield, ast.Await, ast.NamedExpr)):
                    return False
                if isinstance(x, ast.Name) and counts.get(x.id, 0) > 1:
                    return False
            return True
        self.temps = dict(getattr(self, "temps", {}))
        for st in stmts:
            if isinstance(st, ast.Assign) and len(st.targets) == 1 \
                    and isinstance(st.targets[0], ast.Name) and counts.get(st.targets[0].id) == 1:
                v = st.value
                if isinstance(v, ast.Call) and ast.unparse(v.func) in IDENTITY_VALIDATORS \
                        and v.args and not any(isinstance(a, ast.Starred) for a in v.args):
                    v = v.args[0]          # the checked value is the argument (the call is an event)
                if pure(v) and not any(isinstance(x, ast.Name) and x.id == st.targets[0].id
                                       for x in ast.walk(v)):
                    self.temps[st.targets[0].id] = v

    def walk(self, stmts, path):
        """Returns "raise" / "return" if every path through the block ends that way (so nothing
        after it runs on this path), else None.  `self.raise_path` = the path under which a CALLER
        continues after the block (narrowed by the guards that end in a raise only)."""
        stmts = [s for s in stmts if not _is_doc(s)]
        self.raise_path = list(path)
        self.note_temps(stmts)
        blocks = self.cfg.get("blocks", ())
        i = 0
        while i < len(stmts):
            s = stmts[i]
            # configured blocks that are regenerated as functions of their own
            hit = False
            for term, sel in blocks:
                chosen = sel(stmts)
                if chosen and s is chosen[0]:
                    idx = [stmts.index(c) for c in chosen]
                    if idx != list(range(i, i + len(chosen))):
                        raise Unsupported("%s: block %s is not contiguous" % (self.cfg["path"], term))
                    self.emit(path, "(AChk %s)" % term)
                    i += len(chosen)
                    hit = True
                    break
            if hit:
                continue
            i += 1
            if isinstance(s, ast.Return):
                if s.value is not None:
                    self.ret_value(s.value, path)
                return "return"
            if isinstance(s, ast.Raise):
                self.emit(path, "(AChk VRaise)")
                return "raise"
            if isinstance(s, (ast.Continue, ast.Break)):
                return "return"                  # ends this pass through the loop body
            if isinstance(s, ast.Expr) and isinstance(s.value, ast.Yield) and s.value.value is not None:
                path = self.expr_events(s.value.value, path, "a yielded expression")
                continue
            if isinstance(s, ast.Expr) and isinstance(s.value, ast.Call):
                if ast.unparse(s.value.func) in ("warn", "warnings.warn"):
                    continue
                path = self.expr_events(s.value, path, "a work statement")
                continue
            if isinstance(s, ast.Assign) and len(s.targets) == 1:
                tg, v = s.targets[0], s.value
                muts = self.mutation_targets(tg)
                if isinstance(v, ast.IfExp) and not any(m != "AWork" for m in muts) \
                        and self.guard(v.test) is not None:
                    g = self.guard(v.test)
                    for val, pol in ((v.body, g[1]), (v.orelse, not g[1])):
                        p2 = path + [(g[0], pol)]
                        self.expr_events(val, p2, "a work expression")
                    continue
                path = self.expr_events(v, path, "a work expression")
                for m, x in zip(muts, tg.elts if isinstance(tg, ast.Tuple) else [tg]):
                    if m is None:
                        if not (isinstance(v, ast.Constant) and isinstance(v.value, bool)):
                            raise Unsupported("%s: self._is_fitted = %s" % (self.cfg["path"],
                                                                          ast.unparse(v)))
                        self.emit(path, "(AMut (A_fitted %s))" % _cb(v.value))
                    else:
                        self.emit(path, m)
                continue
            if isinstance(s, ast.If) and self.guard(s.test) is None and not s.orelse \
                    and isinstance(s.test, ast.BoolOp):
                # merged conditions: `if a and b: B` = `if a: if b: B`;
                # `if a or b: raise` = `if a: raise` followed by `if b: raise`
                vs = s.test.values
                if isinstance(s.test.op, ast.And):
                    inner = ast.If(test=vs[1] if len(vs) == 2 else ast.BoolOp(op=ast.And(), values=vs[1:]),
                                   body=s.body, orelse=[])
                    stmts = stmts[:i] + [ast.If(test=vs[0], body=[inner], orelse=[])] + stmts[i:]
                    stmts.pop(i - 1)
                    i -= 1
                    continue
                if len(s.body) == 1 and isinstance(s.body[0], ast.Raise):
                    repl = [ast.If(test=v, body=s.body, orelse=[]) for v in vs]
                    stmts = stmts[:i - 1] + repl + stmts[i:]
                    i -= 1
                    continue
            if isinstance(s, ast.If):
                g = self.guard(s.test)
                if g is None:
                    # not a guard we know: only allowed around pure work
                    self.clean(s, "a conditional on `%s`" % ast.unparse(s.test)[:40])
                    self.fh_access(s, path)
                    self.emit(path, "AWork")
                    continue
                self.clean(s.test, "a test")
                self.fh_access(s.test, path)
                saved = self.raise_path
                r1 = self.walk(s.body, path + [(g[0], g[1])])
                r2 = self.walk(s.orelse, path + [(g[0], not g[1])]) if s.orelse else None
                self.raise_path = saved
                if r1 and r2:
                    return "raise" if r1 == r2 == "raise" else "return"
                if r1:
                    path = path + [(g[0], not g[1])]
                    if r1 == "raise":
                        self.raise_path = self.raise_path + [(g[0], not g[1])]
                elif r2:
                    path = path + [(g[0], g[1])]
                    if r2 == "raise":
                        self.raise_path = self.raise_path + [(g[0], g[1])]
                continue
            if isinstance(s, (ast.For, ast.While, ast.With, ast.FunctionDef, ast.Try, ast.AugAssign,
                              ast.Import, ast.ImportFrom, ast.Pass, ast.Expr, ast.Assign, ast.Assert)):
                if isinstance(s, ast.FunctionDef):
                    # a nested definition does not run here; its calls are made by later work
                    for c in _calls(s):
                        u = ast.unparse(c.func)
                        if u in self.ctx.validators() or u in HELPERS or CHECKLIKE.search(u):
                            raise Unsupported("%s: validator call %s in a nested function"
                                              % (self.cfg["path"], u))
                    self.emit(path, "AWork")
                    continue
                if isinstance(s, (ast.Import, ast.ImportFrom, ast.Pass)):
                    continue
                if isinstance(s, ast.Assert):
                    continue
                if isinstance(s, ast.For) and not s.orelse:
                    # the events of one pass through the body (private helpers followed), if the
                    # body is in the walker's subset; else it must be plain work
                    probe = Chain(self.ctx, dict(self.cfg))
                    probe.temps = dict(getattr(self, "temps", {}))
                    try:
                        p1 = probe.expr_events(s.iter, list(path), "the iterable of a loop")
                        probe.walk(s.body, list(p1))
                        ok = True
                    except Unsupported:
                        ok = False
                    if ok:
                        for p_, a_ in probe.events:
                            self.emit(p_, a_)
                        continue
                self.clean(s, "a work statement")
                self.fh_access(s, path)
                self.emit(path, "AWork")
                continue
            raise Unsupported("%s: statement %s" % (self.cfg["path"], ast.dump(s)[:80]))
        return None

    def narrow(self, path, p2):
        """The caller's path after an inlined helper: its raise guards also narrow what the
        caller's own raise guards have narrowed so far."""
        extra = [g for g in p2 if g not in path]
        self.raise_path = self.raise_path + [g for g in extra if g not in self.raise_path]
        return path + extra

    def ret_value(self, v, path):
        if isinstance(v, (ast.Name, ast.Constant)):
            return
        self.expr_events(v, path, "a returned expression")


# ---- entries --------------------------------------------------------------------------------------


def _naive_block(stmts):
    from .roles_c20 import is_flag_set, is_self_call
    a = [i for i, s in enumerate(stmts) if is_self_call(s, "_set_fh")]
    b = [i for i, s in enumerate(stmts) if is_flag_set(s, "_is_fitted")]
    if len(a) == 1 and len(b) == 1 and a[0] < b[0]:
        return stmts[a[0] + 1:b[0]]
    return None


def _aggfunc_block(stmts):
    from .roles_c20 import setting_check
    return setting_check(stmts, "aggfunc")


SK = "sktime/forecasting/base/_sktime.py"
SPLIT = "sktime/forecasting/model_selection/_split.py"
RED = "sktime/forecasting/compose/_reduce.py"
ENTRIES = [
    dict(src=SK, path="_SktimeForecaster._set_y_X", coq="set_y_X"),
    dict(src=SK, path="_SktimeForecaster._update_y_X", coq="update_y_X"),
    dict(src=SK, path="_SktimeForecaster.predict", coq="predict"),
    dict(src=SK, path="_SktimeForecaster.update", coq="update"),
    dict(src=SK, path="_SktimeForecaster.update_predict", coq="update_predict"),
    dict(src=SK, path="_SktimeForecaster.update_predict_single", coq="update_predict_single"),
    dict(src=SK, path="_BaseWindowForecaster.update_predict", coq="bw_update_predict"),
    dict(src="sktime/forecasting/naive.py", path="NaiveForecaster.fit", coq="naive_fit",
         blocks=[("VNaiveRules", _naive_block)]),
    dict(src="sktime/forecasting/trend.py", path="PolynomialTrendForecaster.fit", coq="poly_fit"),
    dict(src=RED, path="_Reducer.fit", coq="reducer_fit"),
    dict(src=RED, path="_DirectReducer._fit", coq="direct_fit"),
    dict(src=RED, path="_MultioutputReducer._fit", coq="multioutput_fit"),
    dict(src=RED, path="_sliding_window_transform", coq="sliding_window_transform"),
    dict(src=RED, path="make_reduction", coq="make_reduction"),
    dict(src="sktime/forecasting/compose/_ensemble.py", path="EnsembleForecaster.fit", coq="ens_fit"),
    dict(src="sktime/forecasting/compose/_ensemble.py", path="EnsembleForecaster.update",
         coq="ens_update"),
    dict(src="sktime/forecasting/compose/_ensemble.py", path="EnsembleForecaster._predict",
         coq="ens_predict", blocks=[("VAggfunc", _aggfunc_block)]),
    dict(src="sktime/forecasting/compose/_pipeline.py", path="TransformedTargetForecaster.fit",
         coq="ttf_fit"),
    dict(src="sktime/forecasting/compose/_pipeline.py", path="TransformedTargetForecaster.update",
         coq="ttf_update"),
    dict(src="sktime/forecasting/base/adapters/_statsmodels.py", path="_StatsModelsAdapter.fit",
         coq="sm_fit"),
    dict(src="sktime/forecasting/theta.py", path="ThetaForecaster.fit", coq="theta_fit"),
    dict(src="sktime/forecasting/model_selection/_tune.py", path="BaseGridSearch.fit",
         coq="gscv_fit"),
    dict(src="sktime/forecasting/model_evaluation/_functions.py", path="evaluate", coq="evaluate"),
    dict(src=SPLIT, path="BaseSplitter.split", coq="split", fh_property=False),
    dict(src=SPLIT, path="BaseWindowSplitter._split", coq="window_split", fh_property=False),
    dict(src=SPLIT, path="BaseWindowSplitter.get_cutoffs", coq="window_cutoffs", fh_property=False),
    dict(src=SPLIT, path="SingleWindowSplitter._split", coq="single_split", fh_property=False),
    dict(src=SPLIT, path="CutoffSplitter._split", coq="cutoff_split", fh_property=False),
    dict(src=SPLIT, path="temporal_train_test_split", coq="tts"),
]

HEADER = """(* GENERATED by /verif/translator/chains_c20.py -- do not edit, never committed.
   The validation structure of the entry points: ordered events with their path conditions. *)
From Coq Require Import String ZArith List Bool.
Require Import SkV.Lib.Base SkV.C20.Model SkV.C20.ModelV SkV.C20.Chain.
Import ListNotations.
Open Scope Z_scope.

"""


def _exclusive(p, q):
    """Two path conditions that cannot hold in the same run."""
    d = dict(p)
    return any(g in d and d[g] != b for g, b in q)


def canonical_order(events):
    """The order of two events only means something if both can happen in one run.  Events whose
    path conditions exclude each other (the two branches of an if / else, a guard clause and the
    code after it, a conditional expression) are listed in ONE order whatever the source order is:
    among the events all of whose co-occurring predecessors are already listed, the one with the
    smallest key (path with `guard holds` before `guard fails`, then the action) comes next."""
    def key(ev):
        p, a = ev
        return ([(g, 0 if b else 1) for g, b in p], a)
    todo = list(events)
    out = []
    while todo:
        avail = [i for i, e in enumerate(todo)
                 if all(_exclusive(todo[j][0], e[0]) for j in range(i))]
        i = min(avail, key=lambda k: key(todo[k]))
        out.append(todo.pop(i))
    return out


def render(events):
    out = []
    for p, a in events:
        out.append("ev [%s] %s" % ("; ".join("(%s, %s)" % (g, _cb(b)) for g, b in p), a))
    return "[ " + ";\n    ".join(out) + " ]"


def extract(repo, cfg, mods=None, roles=None):
    ctx = Ctx(repo, cfg["src"])
    if mods is not None:
        ctx.mods = mods
    ctx.roles = roles
    ch = Chain(ctx, cfg)
    fn = find(ctx.mod(cfg["src"]), cfg["path"])
    if not isinstance(fn, ast.FunctionDef):
        raise Unsupported(cfg["path"] + " is not a function")
    ch.walk(fn.body, [])
    return canonical_order(ch.events)


def translate(repo):
    mods = {}
    ctx = Ctx(repo, SK)
    ctx.mods = mods
    check_pins(ctx)
    from .roles_c20 import Roles
    roles = Roles(repo, mods)
    out = [HEADER]
    for cfg in ENTRIES:
        ev = extract(repo, cfg, mods, roles)
        out.append("(* %s : %s *)" % (cfg["src"], cfg["path"]))
        out.append("Definition gen_chain_%s : list gev :=\n  %s.\n" % (cfg["coq"], render(ev)))
    out.append("Definition gen_chain_of (e : entry) : list gev :=\n  match e with\n%s\n  end.\n" % "\n".join(
        "  | E_%s => gen_chain_%s" % (c["coq"], c["coq"]) for c in ENTRIES))
    return {"C20/GenC.v": "\n".join(out)}


if __name__ == "__main__":
    import sys
    print(translate(sys.argv[1] if len(sys.argv) > 1 else "/repo")["C20/GenC.v"])
