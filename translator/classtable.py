"""C04: fail-closed fact extractor (Python ast) building the estimator class table of /repo/sktime.

For every class of every non-test module that (transitively, through imports resolved across the
package) reaches an estimator root, it records

* the ``__init__`` signature and, per parameter, how the constructor treats it:
  ``SV`` stored verbatim (``self.p = p`` is the only store and ``p`` is never rebound),
  ``SC f`` stored through a one-argument call ``self.p = f(p)`` (f = resolved function, with a hash
  of its source when it is an sktime function: acceptable only if f is on the reviewed list of
  validators that return their argument unchanged or raise, coq/C04/Known.v),
  ``SM txt`` stored modified, ``SF parent q`` forwarded to the ``__init__`` of a parent class of the
  table as its parameter ``q``, ``SX q`` forwarded to a scikit-learn parent as keyword ``q``,
  ``SN`` not stored at all;  ``*args`` / ``**kwargs`` are listed as parameters ``*`` / ``**``;
* for each public apply-type method (predict, predict_proba, transform, inverse_transform, update,
  update_predict, update_predict_single, score) that the class has (own or inherited, C3 MRO over the
  table), whether every completing path of the body reaches the fitted-state guard before fitted
  state is touched: ``GG`` guard reached first (directly or via a guarded method of ``self``),
  ``GA`` abstract (body only raises), ``GX`` inherited from scikit-learn, ``GR`` some path completes
  without ever reaching the guard, ``GU attr`` fitted state (``attr``) touched before the guard.

* for ``fit`` (own or inherited): ``FF owner returns flag early`` - what the completing paths of the body
  return (``self`` iff every ``return`` returns ``self``, possibly through a delegated fit-like method
  of ``self`` / ``super()``), whether ``self._is_fitted = True`` has been executed on every completing
  path (``set`` / ``unset`` / ``some``; through calls on ``self`` / ``super()`` too) and whether such
  an assignment is followed by anything but ``return`` (``early``); ``FA`` abstract, ``FX`` scikit-learn's;
* for ``set_params`` written in the package (own or inherited; the composites): ``PV owner attr`` -
  every completing path reaches the name validation, i.e. a call ``super().set_params(**kw)`` that
  resolves to scikit-learn's, or a call on ``self`` / ``super()`` of a method of the table that itself
  validates on every completing path (``_set_params``), with the caller's ``**`` mapping (never rebound)
  passed on as ``**``; ``attr`` = the constant first argument of the ``_set_params`` delegation;
  ``PR owner what`` - some path returns (or falls off the end) before validation; ``PA`` abstract;
  classes that inherit scikit-learn's ``set_params`` are ``PX``;
* the three base facts of ``sktime/base/_base.py``: the flag value ``BaseEstimator.__init__`` stores,
  that the ``is_fitted`` property returns that flag, and the condition under which
  ``check_is_fitted`` raises (translated to a Gallina boolean function) together with the resolved
  name of the exception class.

Anything it does not understand raises ``Unsupported`` (the harness reports a broken tie).
The table is printed as Gallina (`C04/Gen.v`); the decision "is this row acceptable" is taken in Coq.
"""
import ast
import os

APPLY_METHODS = ["predict", "predict_proba", "transform", "inverse_transform", "update",
                 "update_predict", "update_predict_single", "score"]

# external (non-sktime) bases: estimator roots / known non-estimator bases.  Anything else: fail.
EXT_EST_ROOTS = {
    "BaseEstimator", "ForestClassifier", "ForestRegressor", "KNeighborsClassifier",
    "ClassifierMixin", "RegressorMixin", "ColumnTransformer", "DecisionTreeClassifier",
    "BaseEnsemble", "BaseForest", "Pipeline", "FeatureUnion",
}
EXT_NON_EST = {
    "object", "ABC", "Exception", "ValueError", "AttributeError", "RuntimeWarning", "Enum",
    "TransformerMixin", "MetaEstimatorMixin", "UserWarning", "Warning", "TypeError",
    "NamedTuple", "dict", "list", "Layer", "Callback",
}
# apply-type methods that the scikit-learn roots define themselves (their guard is sklearn's own
# check_is_fitted -> sklearn NotFittedError; reported as GX = outside the sktime source)
EXT_METHODS = {
    "ForestClassifier": {"predict", "predict_proba", "score"},
    "ForestRegressor": {"predict", "score"},
    "BaseForest": set(), "BaseEnsemble": set(), "BaseEstimator": set(),
    "KNeighborsClassifier": {"predict", "predict_proba", "score"},
    "DecisionTreeClassifier": {"predict", "predict_proba", "score"},
    "ClassifierMixin": {"score"}, "RegressorMixin": {"score"},
    "ColumnTransformer": {"transform"}, "FeatureUnion": {"transform"},
    "Pipeline": {"predict", "predict_proba", "transform", "inverse_transform", "score"},
}
# does the scikit-learn root define __init__ (so that a super().__init__ call can reach it)?
EXT_HAS_INIT = {"ForestClassifier", "ForestRegressor", "BaseForest", "BaseEnsemble",
                "KNeighborsClassifier", "DecisionTreeClassifier", "ColumnTransformer",
                "FeatureUnion", "Pipeline"}
# positional parameter names of scikit-learn constructors reached positionally from sktime (the
# scikit-learn release sktime 0.6.0 pins; scikit-learn stores them verbatim under these names)
EXT_POSITIONAL = {"BaseForest": ["base_estimator", "n_estimators"],
                  "BaseEnsemble": ["base_estimator", "n_estimators"],
                  "FeatureUnion": ["transformer_list"], "ColumnTransformer": ["transformers"],
                  "Pipeline": ["steps"]}
BUILTINS = {"object", "Exception", "ValueError", "AttributeError", "RuntimeWarning", "UserWarning",
            "Warning", "TypeError", "dict", "list"}

GUARD_NAMES = {"check_is_fitted"}
# reads of these attributes of self are not fitted state
NEUTRAL_ATTRS = {"__class__", "_tags", "_required_parameters", "_all_tags", "get_params",
                 "set_params", "is_fitted", "_is_fitted", "check_is_fitted", "_estimator_type",
                 "_more_tags", "_get_tags"}


class Unsupported(Exception):
    pass


class Mod:
    def __init__(self, name, path, tree, is_pkg):
        self.name, self.path, self.tree, self.is_pkg = name, path, tree, is_pkg
        self.classes = {}
        self.imports = {}      # local name -> ("sym", module, orig) | ("mod", module)


def _modname(rel):
    parts = rel[:-3].split(os.sep)
    if parts[-1] == "__init__":
        return ".".join(parts[:-1]), True
    return ".".join(parts), False


def _toplevel(body):
    """Statements of a module incl. those nested in if/try at module level."""
    for s in body:
        yield s
        if isinstance(s, ast.If):
            yield from _toplevel(s.body)
            yield from _toplevel(s.orelse)
        elif isinstance(s, ast.Try):
            yield from _toplevel(s.body)
            for h in s.handlers:
                yield from _toplevel(h.body)
            yield from _toplevel(s.orelse)
            yield from _toplevel(s.finalbody)


def load_modules(repo):
    mods = {}
    root = os.path.join(repo, "sktime")
    if not os.path.isdir(root):
        raise Unsupported("no sktime package under " + repo)
    for d, dirs, files in os.walk(root):
        dirs[:] = sorted(x for x in dirs if x != "tests" and x != "__pycache__")
        for f in sorted(files):
            if not f.endswith(".py"):
                continue
            p = os.path.join(d, f)
            rel = os.path.relpath(p, repo)
            with open(p, encoding="utf-8") as fh:
                src = fh.read()
            try:
                tree = ast.parse(src)
            except SyntaxError as e:
                raise Unsupported("cannot parse %s: %s" % (rel, e))
            name, is_pkg = _modname(rel)
            m = Mod(name, rel, tree, is_pkg)
            for s in _toplevel(tree.body):
                if isinstance(s, ast.ClassDef):
                    m.classes[s.name] = s
                elif isinstance(s, ast.ImportFrom):
                    if s.level:
                        base = name.split(".") if is_pkg else name.split(".")[:-1]
                        base = base[:len(base) - (s.level - 1)]
                        src_mod = ".".join(base + ([s.module] if s.module else []))
                    else:
                        src_mod = s.module
                    for a in s.names:
                        if a.name == "*":
                            m.imports.setdefault("*", []).append(src_mod)
                        else:
                            m.imports[a.asname or a.name] = ("sym", src_mod, a.name)
                elif isinstance(s, ast.Import):
                    for a in s.names:
                        if a.asname:
                            m.imports[a.asname] = ("mod", a.name)
                        else:
                            m.imports[a.name.split(".")[0]] = ("mod", a.name.split(".")[0])
            mods[name] = m
    return mods


class Table:
    def __init__(self, repo):
        self.repo = repo
        self.mods = load_modules(repo)
        self.rows = {}        # key (module, name) -> info dict
        self._mro = {}
        self._build()

    # ---------------------------------------------------------------- name resolution
    def _export(self, modname, sym, seen=()):
        """Resolve symbol `sym` of sktime module `modname` to ('cls', module, name) | ('ext', m, n)
        | ('mod', name) | None."""
        if (modname, sym) in seen:
            return None
        seen = seen + ((modname, sym),)
        m = self.mods.get(modname)
        if m is None:
            if modname.startswith("sktime"):
                return None        # test module or missing
            return ("ext", modname, sym)
        if sym in m.classes:
            return ("cls", modname, sym)
        imp = m.imports.get(sym)
        if imp:
            if imp[0] == "mod":
                return ("mod", imp[1])
            _, src, orig = imp
            if src.startswith("sktime"):
                if src + "." + orig in self.mods:
                    return ("mod", src + "." + orig)
                return self._export(src, orig, seen)
            return ("ext", src, orig)
        if modname + "." + sym in self.mods:
            return ("mod", modname + "." + sym)
        for star in m.imports.get("*", []):
            if star.startswith("sktime"):
                r = self._export(star, sym, seen)
                if r:
                    return r
        return None

    def resolve_base(self, m, expr):
        if isinstance(expr, ast.Name):
            if expr.id in m.classes:
                return ("cls", m.name, expr.id)
            r = self._export(m.name, expr.id)
            if r and r[0] in ("cls", "ext"):
                return r
            if expr.id in BUILTINS:
                return ("ext", "builtins", expr.id)
            raise Unsupported("%s: cannot resolve base class %s" % (m.path, expr.id))
        if isinstance(expr, ast.Attribute):
            parts = []
            e = expr
            while isinstance(e, ast.Attribute):
                parts.append(e.attr)
                e = e.value
            if not isinstance(e, ast.Name):
                raise Unsupported("%s: base class expression %s" % (m.path, ast.unparse(expr)))
            parts.append(e.id)
            parts.reverse()
            head = self._export(m.name, parts[0])
            if head is None:
                raise Unsupported("%s: cannot resolve %s" % (m.path, ast.unparse(expr)))
            if head[0] == "mod":
                modname = head[1]
                if not modname.startswith("sktime"):
                    return ("ext", ".".join([modname] + parts[1:-1]), parts[-1])
                for p in parts[1:-1]:
                    modname = modname + "." + p
                r = self._export(modname, parts[-1])
                if r and r[0] in ("cls", "ext"):
                    return r
            elif head[0] == "ext":
                return ("ext", head[1], parts[-1])
            raise Unsupported("%s: cannot resolve %s" % (m.path, ast.unparse(expr)))
        raise Unsupported("%s: base class expression %s" % (m.path, ast.unparse(expr)))

    # ---------------------------------------------------------------- table
    def _build(self):
        allc = {}
        for m in self.mods.values():
            for cname, node in m.classes.items():
                bases = [self.resolve_base(m, b) for b in node.bases]
                for b in bases:
                    if b[0] == "ext" and b[2] not in EXT_EST_ROOTS and b[2] not in EXT_NON_EST:
                        raise Unsupported("%s: class %s has unknown external base %s.%s; add it to "
                                          "EXT_EST_ROOTS or EXT_NON_EST" % (m.path, cname, b[1], b[2]))
                allc[(m.name, cname)] = {"module": m.name, "name": cname, "node": node,
                                         "bases": bases, "path": m.path}
        self.allc = allc
        for root in EXT_EST_ROOTS:
            if root not in EXT_METHODS:
                raise Unsupported("no method table for external root " + root)
        est = set()
        changed = True
        while changed:
            changed = False
            for k, c in allc.items():
                if k in est:
                    continue
                for b in c["bases"]:
                    if (b[0] == "ext" and b[2] in EXT_EST_ROOTS) or (b[0] == "cls" and b[1:] in est):
                        est.add(k)
                        changed = True
                        break
        self.est = est
        # unique display keys
        byname = {}
        for k in allc:
            byname.setdefault(k[1], []).append(k)
        self.key = {}
        for name, ks in byname.items():
            for k in ks:
                self.key[k] = name if len(ks) == 1 else "%s@%s" % (name, k[0])
        for k in sorted(est):
            self.rows[k] = self._row(k)

    def mro(self, k):
        """C3 linearisation over table classes; external bases appear as ('ext', m, n)."""
        if k in self._mro:
            return self._mro[k]
        c = self.allc[k]
        seqs = []
        for b in c["bases"]:
            if b[0] == "cls":
                seqs.append(list(self.mro(b[1:])))
            else:
                seqs.append([b])
        seqs.append([(b[1:] if b[0] == "cls" else b) for b in c["bases"]])
        out = [k]
        seqs = [list(s) for s in seqs if s]
        while seqs:
            for s in seqs:
                cand = s[0]
                if not any(cand in t[1:] for t in seqs):
                    break
            else:
                raise Unsupported("inconsistent MRO for %s" % (k,))
            out.append(cand)
            seqs = [[x for x in s if x != cand] for s in seqs]
            seqs = [s for s in seqs if s]
        self._mro[k] = out
        return out

    @staticmethod
    def _is_ext(x):
        return len(x) == 3 and x[0] == "ext"

    def find_method(self, k, name, after=None):
        """First class in the MRO of k (after class `after`, if given) that defines `name`.
        Returns (owner key, FunctionDef) | ('ext', base) | None."""
        chain = self.mro(k)
        if after is not None:
            chain = chain[chain.index(after) + 1:]
        for c in chain:
            if self._is_ext(c):
                if c[2] in EXT_NON_EST:
                    continue
                if name == "__init__":
                    if c[2] in EXT_HAS_INIT:
                        return ("ext", c)
                    continue
                if name in EXT_METHODS[c[2]]:
                    return ("ext", c)
                continue
            for s in self.allc[c]["node"].body:
                if isinstance(s, (ast.FunctionDef, ast.AsyncFunctionDef)) and s.name == name:
                    return (c, s)
        return None

    def all_params(self, k):
        """Constructor parameter names along the MRO (used to tell parameters from state)."""
        out = set()
        for c in self.mro(k):
            if self._is_ext(c):
                continue
            for s in self.allc[c]["node"].body:
                if isinstance(s, ast.FunctionDef) and s.name == "__init__":
                    a = s.args
                    out.update(x.arg for x in a.args[1:] + a.kwonlyargs)
        return out

    # ---------------------------------------------------------------- constructor facts
    def _init_facts(self, k):
        c = self.allc[k]
        init = None
        for s in c["node"].body:
            if isinstance(s, ast.FunctionDef) and s.name == "__init__":
                init = s
        if init is None:
            return None
        a = init.args
        if a.posonlyargs:
            raise Unsupported("%s.%s.__init__: positional-only parameters" % k)
        if not a.args or a.args[0].arg != "self":
            raise Unsupported("%s.%s.__init__: first parameter is not self" % k)
        params = [x.arg for x in a.args[1:]] + [x.arg for x in a.kwonlyargs]
        stores = {}       # attr -> list of value exprs
        rebound = {}      # param -> first source position where the local name is rebound
        forwards = {}     # param -> (target, q)
        n_super = 0
        super_calls = []
        for n in ast.walk(init):
            if isinstance(n, (ast.FunctionDef, ast.Lambda)) and n is not init:
                continue
            targets = []
            if isinstance(n, ast.Assign):
                targets = [(t, n.value) for t in n.targets]
            elif isinstance(n, (ast.AugAssign, ast.AnnAssign)):
                targets = [(n.target, n.value)]
            elif isinstance(n, (ast.For, ast.comprehension)):
                targets = [(n.target, None)]
            elif isinstance(n, ast.NamedExpr):
                targets = [(n.target, n.value)]
            elif isinstance(n, ast.withitem) and n.optional_vars is not None:
                targets = [(n.optional_vars, None)]
            for t, v in targets:
                for el in ([t] if not isinstance(t, (ast.Tuple, ast.List)) else ast.walk(t)):
                    if isinstance(el, ast.Name) and el.id in params:
                        pos = (el.lineno, el.col_offset)
                        rebound[el.id] = min(rebound.get(el.id, pos), pos)
                    if (isinstance(el, ast.Attribute) and isinstance(el.value, ast.Name)
                            and el.value.id == "self"):
                        if isinstance(t, (ast.Tuple, ast.List)) or isinstance(n, ast.AugAssign):
                            stores.setdefault(el.attr, []).append(None)
                        else:
                            stores.setdefault(el.attr, []).append(v)
            if isinstance(n, ast.Call):
                f = n.func
                fname = ast.unparse(f)
                if fname in ("setattr", "self.__setattr__", "self.__dict__.update", "vars"):
                    raise Unsupported("%s.%s.__init__: dynamic attribute store %s" % (k + (fname,)))
                if isinstance(f, ast.Attribute) and f.attr == "__init__":
                    n_super += 1
                    target, args = self._super_target(k, f, n)
                    fwd_here = set(a.id for a in args if isinstance(a, ast.Name)) | set(
                        kw.value.id for kw in n.keywords if isinstance(kw.value, ast.Name))
                    super_calls.append((target, (n.lineno, n.col_offset), fwd_here))
                    for i, arg in enumerate(args):
                        if isinstance(arg, ast.Starred):
                            raise Unsupported("%s.%s.__init__: *args in parent call" % k)
                        if isinstance(arg, ast.Name) and arg.id in params:
                            q = self._positional_name(target, i)
                            forwards.setdefault(arg.id, []).append((target, q, (arg.lineno, arg.col_offset)))
                    for kw in n.keywords:
                        if kw.arg is None:
                            if isinstance(kw.value, ast.Name) and kw.value.id == (a.kwarg.arg if a.kwarg else None):
                                continue      # **kwargs passed on: covered by the `**` parameter
                            raise Unsupported("%s.%s.__init__: **mapping in parent call" % k)
                        if isinstance(kw.value, ast.Name) and kw.value.id in params:
                            forwards.setdefault(kw.value.id, []).append(
                                (target, kw.arg, (kw.value.lineno, kw.value.col_offset)))
        out = []
        for p in params:
            st = stores.get(p)
            if st is not None:
                isreb = (len(st) == 1 and st[0] is not None and p in rebound
                         and rebound[p] < (st[0].lineno, st[0].col_offset))
                over = None
                if len(st) == 1 and st[0] is not None:
                    for target, pos, fwd_here in super_calls:
                        if target[0] == "cls" and (st[0].lineno, st[0].col_offset) < pos \
                                and p not in fwd_here and p in self._attrs_stored_by_init(target[1:]):
                            over = self.key[target[1:]]
                if over is not None:
                    out.append((p, ("SM", "overwritten by %s.__init__" % over)))
                elif len(st) == 1 and isinstance(st[0], ast.Name) and st[0].id == p and not isreb:
                    out.append((p, ("SV",)))
                elif len(st) == 1 and not isreb and self._validator_call(k, st[0], p) is not None:
                    out.append((p, ("SC", self._validator_call(k, st[0], p))))
                else:
                    txt = " | ".join("?" if v is None else ast.unparse(v) for v in st)
                    if isreb:
                        txt = "(rebound) " + txt
                    out.append((p, ("SM", txt[:70])))
            elif p in forwards:
                fw = forwards[p]
                isreb = p in rebound and rebound[p] < fw[0][2]
                if len(fw) != 1 or isreb:
                    out.append((p, ("SM", "forwarded %d times%s" % (len(fw), " (rebound)" if isreb else ""))))
                else:
                    target, q = fw[0][:2]
                    if target[0] == "cls":
                        out.append((p, ("SF", self.key[target[1:]], q)))
                    else:
                        out.append((p, ("SX", q)))
            else:
                out.append((p, ("SN",)))
        if a.vararg:
            out.append(("*", ("SN",)))
        if a.kwarg:
            out.append(("**", ("SN",)))
        return out

    def _validator_call(self, k, v, p):
        """`f(p)` with f a plain name imported into the module and p the only argument: the identity
        of f ("module.name#hash-of-its-ast" for an sktime function, "ext:module.name" otherwise),
        else None."""
        if not (isinstance(v, ast.Call) and isinstance(v.func, ast.Name) and not v.keywords
                and len(v.args) == 1 and isinstance(v.args[0], ast.Name) and v.args[0].id == p):
            return None
        modname, name, seen = k[0], v.func.id, set()
        while True:
            if (modname, name) in seen:
                return None
            seen.add((modname, name))
            m = self.mods.get(modname)
            if m is None:
                return None if modname.startswith("sktime") else "ext:%s.%s" % (modname, name)
            fns = [x for x in _toplevel(m.tree.body) if isinstance(x, ast.FunctionDef) and x.name == name]
            if len(fns) == 1:
                import hashlib
                return "%s.%s#%s" % (modname, name,
                                     hashlib.sha1(ast.dump(fns[0]).encode()).hexdigest()[:10])
            if fns:
                return None
            imp = m.imports.get(name)
            if not imp or imp[0] != "sym":
                return None
            modname, name = imp[1], imp[2]

    def _attrs_stored_by_init(self, k, seen=()):
        """Attribute names assigned on self by the __init__ of class k and, through its parent
        calls, by the constructors above it."""
        if k in seen:
            return set()
        out = set()
        for s in self.allc[k]["node"].body:
            if isinstance(s, ast.FunctionDef) and s.name == "__init__":
                for n in ast.walk(s):
                    if isinstance(n, ast.Attribute) and isinstance(n.ctx, ast.Store) and \
                            isinstance(n.value, ast.Name) and n.value.id == "self":
                        out.add(n.attr)
                    if isinstance(n, ast.Call) and isinstance(n.func, ast.Attribute) and n.func.attr == "__init__":
                        target, _ = self._super_target(k, n.func, n)
                        if target[0] == "cls":
                            out |= self._attrs_stored_by_init(target[1:], seen + (k,))
                return out
        r = self.find_method(k, "__init__", after=k)
        if r is not None and r[0] != "ext":
            return self._attrs_stored_by_init(r[0], seen + (k,))
        return out

    def _super_target(self, k, f, call):
        """Class whose __init__ a `X.__init__(...)` call inside class k reaches, and the call's
        positional arguments (without self)."""
        v = f.value
        if isinstance(v, ast.Call) and isinstance(v.func, ast.Name) and v.func.id == "super":
            if v.args:
                if not (isinstance(v.args[0], ast.Name) and v.args[0].id == k[1]):
                    # super(Other, self): start after Other
                    m = self.mods[k[0]]
                    r = self.resolve_base(m, v.args[0])
                    if r[0] != "cls":
                        raise Unsupported("%s.%s: super(%s, self)" % (k + (ast.unparse(v.args[0]),)))
                    start = r[1:]
                else:
                    start = k
            else:
                start = k
            r = self.find_method(k, "__init__", after=start)
            args = list(call.args)
        else:
            m = self.mods[k[0]]
            r0 = self.resolve_base(m, v)
            if r0[0] == "cls":
                own = [x for x in self.allc[r0[1:]]["node"].body
                       if isinstance(x, ast.FunctionDef) and x.name == "__init__"]
                r = (r0[1:], own[0]) if own else self.find_method(r0[1:], "__init__", after=r0[1:])
            else:
                r = ("ext", r0) if r0[2] in EXT_HAS_INIT else None
            args = list(call.args)[1:]     # explicit self
        if r is None:
            return ("none",), args
        if r[0] == "ext":
            return ("ext",) + tuple(r[1][1:]), args
        return ("cls",) + r[0], args

    def _positional_name(self, target, i):
        if target[0] == "ext":
            names = EXT_POSITIONAL.get(target[2], [])
            return names[i] if i < len(names) else ""
        if target[0] != "cls":
            return ""
        for s in self.allc[target[1:]]["node"].body:
            if isinstance(s, ast.FunctionDef) and s.name == "__init__":
                names = [x.arg for x in s.args.args[1:]]
                return names[i] if i < len(names) else ""
        return ""

    # ---------------------------------------------------------------- guard facts
    def guard_status(self, k, mname, stack=()):
        """('GG',via) | ('GA',) | ('GX',) | ('GR',) | ('GU', attr)  for method mname of class k."""
        r = self.find_method(k, mname)
        if r is None:
            return None
        return self._status_of(k, r, mname, stack)

    def _status_of(self, k, r, mname, stack):
        if r[0] == "ext":
            return ("GX", r[1][2])
        owner, fn = r
        if (owner, mname) in stack:
            return ("GR", self.key[owner])      # recursion without a guard on the way
        body = list(fn.body)
        if body and isinstance(body[0], ast.Expr) and isinstance(body[0].value, ast.Constant) \
                and isinstance(body[0].value.value, str):
            body = body[1:]
        if all(isinstance(s, (ast.Raise, ast.Pass)) for s in body):
            return ("GA", self.key[owner])
        an = _GuardAnalysis(self, k, owner, mname, stack + ((owner, mname),), self.all_params(k))
        guarded = an.block(body, False)
        if an.touch is not None:
            return ("GU", self.key[owner], an.touch)
        if an.returns_unguarded or guarded is False:
            return ("GR", self.key[owner])
        return ("GG", self.key[owner])

    # ---------------------------------------------------------------- fit facts
    def fit_status(self, k):
        """None (no fit in the table's code) | ('FA', owner) | ('FX', base) |
        ('FF', owner, returns, flag, early)."""
        r = self.find_method(k, "fit")
        if r is None:
            return None
        return self._fit_status_of(k, r, ())

    def _fit_status_of(self, k, r, stack):
        if r[0] == "ext":
            return ("FX", r[1][2])
        owner, fn = r
        if (owner, fn.name) in stack:
            return None
        body = list(fn.body)
        if body and isinstance(body[0], ast.Expr) and isinstance(body[0].value, ast.Constant) \
                and isinstance(body[0].value.value, str):
            body = body[1:]
        if all(isinstance(s, (ast.Raise, ast.Pass)) for s in body):
            return ("FA", self.key[owner])
        an = _FitAnalysis(self, k, owner, stack + ((owner, fn.name),))
        g = an.block(body, False)
        if g != BOTTOM:
            an.rets.append(("none", g))
        kinds = sorted(set(x[0] for x in an.rets))
        flags = set(x[1] for x in an.rets)
        ret = "self" if kinds == ["self"] else " | ".join(kinds)
        flag = "set" if flags == {True} else ("unset" if flags == {False} else "some")
        return ("FF", self.key[owner], ret, flag, an.early)

    # ---------------------------------------------------------------- set_params facts
    def setparams_status(self, k):
        """('PX',) scikit-learn's | ('PA', owner) | ('PV', owner, attr) | ('PR', owner, what)."""
        r = self.find_method(k, "set_params")
        if r is None or r[0] == "ext":
            return ("PX",)
        return self._validates(k, r, ())

    def _validates(self, k, r, stack):
        owner, fn = r
        if (owner, fn.name) in stack:
            return ("PR", self.key[owner], "recursion before validation")
        body = list(fn.body)
        if body and isinstance(body[0], ast.Expr) and isinstance(body[0].value, ast.Constant) \
                and isinstance(body[0].value.value, str):
            body = body[1:]
        if all(isinstance(s, (ast.Raise, ast.Pass)) for s in body):
            return ("PA", self.key[owner])
        if fn.args.kwarg is None:
            return ("PR", self.key[owner], "%s has no ** parameter" % fn.name)
        an = _ValidateAnalysis(self, k, owner, fn, stack + ((owner, fn.name),))
        g = an.block(body, False)
        if g is False and an.bad is None:
            an.bad = "falls off the end of %s before the names are validated" % fn.name
        if an.bad is not None:
            return ("PR", self.key[owner], an.bad)
        return ("PV", self.key[owner], an.attr or "")

    # ---------------------------------------------------------------- base facts
    def base_facts(self):
        """Facts of sktime.base._base.BaseEstimator that the fitted-state model rests on."""
        k = ("sktime.base._base", "BaseEstimator")
        if k not in self.allc:
            raise Unsupported("sktime.base._base.BaseEstimator not found")
        node = self.allc[k]["node"]
        fns = {s.name: s for s in node.body if isinstance(s, ast.FunctionDef)}
        for need in ("__init__", "is_fitted", "check_is_fitted"):
            if need not in fns:
                raise Unsupported("BaseEstimator.%s not found" % need)

        def body_of(fn):
            b = list(fn.body)
            if b and isinstance(b[0], ast.Expr) and isinstance(b[0].value, ast.Constant) \
                    and isinstance(b[0].value.value, str):
                b = b[1:]
            return b
        # __init__: exactly the assignments to self; the flag must be a boolean constant
        init_flag = None
        for s_ in body_of(fns["__init__"]):
            if (isinstance(s_, ast.Assign) and len(s_.targets) == 1 and isinstance(s_.targets[0], ast.Attribute)
                    and isinstance(s_.targets[0].value, ast.Name) and s_.targets[0].value.id == "self"):
                if s_.targets[0].attr == "_is_fitted":
                    if not (isinstance(s_.value, ast.Constant) and isinstance(s_.value.value, bool)):
                        raise Unsupported("BaseEstimator.__init__: _is_fitted = %s" % ast.unparse(s_.value))
                    init_flag = s_.value.value
            else:
                raise Unsupported("BaseEstimator.__init__: statement %s" % type(s_).__name__)
        # is_fitted: a property whose body is `return self._is_fitted`
        b = body_of(fns["is_fitted"])
        reads = (_is_property(fns["is_fitted"]) and len(b) == 1 and isinstance(b[0], ast.Return)
                 and ast.unparse(b[0].value) == "self._is_fitted")
        # check_is_fitted: `if <cond>: raise <Exc>(...)` and nothing else
        b = body_of(fns["check_is_fitted"])
        if not (len(b) == 1 and isinstance(b[0], ast.If) and not b[0].orelse and len(b[0].body) == 1
                and isinstance(b[0].body[0], ast.Raise) and isinstance(b[0].body[0].exc, ast.Call)
                and isinstance(b[0].body[0].exc.func, ast.Name)):
            raise Unsupported("BaseEstimator.check_is_fitted: not of the shape `if <cond>: raise E(...)`")

        def cond(e):
            if isinstance(e, ast.UnaryOp) and isinstance(e.op, ast.Not):
                return "(negb %s)" % cond(e.operand)
            if isinstance(e, ast.BoolOp):
                op = "andb" if isinstance(e.op, ast.And) else "orb"
                out = cond(e.values[0])
                for v in e.values[1:]:
                    out = "(%s %s %s)" % (op, out, cond(v))
                return out
            if isinstance(e, ast.Constant) and isinstance(e.value, bool):
                return "true" if e.value else "false"
            if ast.unparse(e) in ("self.is_fitted", "self._is_fitted"):
                if ast.unparse(e) == "self.is_fitted" and not reads:
                    raise Unsupported("check_is_fitted reads a property is_fitted that is not the flag")
                return "is_fitted"
            raise Unsupported("BaseEstimator.check_is_fitted: condition %s" % ast.unparse(e))
        exc_name = b[0].body[0].exc.func.id
        r = self._export(k[0], exc_name)
        if r is None or r[0] != "cls":
            raise Unsupported("check_is_fitted raises %s, which is not a class of the package" % exc_name)
        return {"init_flag": init_flag, "reads": reads, "guard": cond(b[0].test),
                "raises": "%s.%s" % (r[1], r[2])}

    def ctor_params(self, k):
        """Parameter names of the effective __init__ (first one along the MRO)."""
        r = self.find_method(k, "__init__")
        if r is None or r[0] == "ext":
            return set()
        a = r[1].args
        return set(x.arg for x in a.args[1:] + a.kwonlyargs)

    def _mutation_facts(self, k):
        """(entry, owner, param): public method `entry` (fit or an apply-type method) of class k
        reaches, through calls on self, a function of class `owner` that assigns to self.<param>,
        a constructor parameter of k."""
        params = self.ctor_params(k)
        out = []
        if not params:
            return out
        for entry in ["fit"] + APPLY_METHODS:
            r = self.find_method(k, entry)
            if r is None or r[0] == "ext":
                continue
            seen, todo = set(), [r]
            while todo:
                owner, fn = todo.pop()
                if (owner, fn.name) in seen:
                    continue
                seen.add((owner, fn.name))
                for n in ast.walk(fn):
                    tg = []
                    if isinstance(n, ast.Assign):
                        tg = n.targets
                    elif isinstance(n, (ast.AugAssign, ast.AnnAssign)):
                        tg = [n.target]
                    elif isinstance(n, (ast.For, ast.comprehension)):
                        tg = [n.target]
                    elif isinstance(n, ast.Call):
                        f = n.func
                        if isinstance(f, ast.Name) and f.id == "setattr" and n.args and \
                                isinstance(n.args[0], ast.Name) and n.args[0].id == "self":
                            if len(n.args) > 1 and isinstance(n.args[1], ast.Constant):
                                if n.args[1].value in params:
                                    out.append((entry, self.key[owner], n.args[1].value))
                            else:
                                raise Unsupported("%s.%s.%s: setattr(self, <dynamic>)" % (owner + (fn.name,)))
                        if isinstance(f, ast.Attribute) and isinstance(f.value, ast.Name) and f.value.id == "self":
                            r2 = self.find_method(k, f.attr)
                            if r2 is not None and r2[0] != "ext":
                                todo.append(r2)
                        elif (isinstance(f, ast.Attribute) and isinstance(f.value, ast.Call)
                              and isinstance(f.value.func, ast.Name) and f.value.func.id == "super"):
                            r2 = self.find_method(k, f.attr, after=owner)
                            if r2 is not None and r2[0] != "ext":
                                todo.append(r2)
                    for t in tg:
                        for el in ast.walk(t):
                            if (isinstance(el, ast.Attribute) and isinstance(el.value, ast.Name)
                                    and el.value.id == "self" and el.attr in params
                                    and isinstance(el.ctx, ast.Store)):
                                out.append((entry, self.key[owner], el.attr))
        res = []
        for x in out:
            if x not in res:
                res.append(x)
        return res

    def _row(self, k):
        c = self.allc[k]
        bases = []
        for b in c["bases"]:
            bases.append(self.key[b[1:]] if b[0] == "cls" else "~" + b[2])
        methods = []
        for mname in APPLY_METHODS:
            st = self.guard_status(k, mname)
            if st is not None:
                methods.append((mname, st))
        mutates = self._mutation_facts(k)
        return {"key": self.key[k], "module": k[0], "name": k[1], "bases": bases,
                "init": self._init_facts(k), "methods": methods, "path": c["path"],
                "mutates": mutates, "fit": self.fit_status(k), "setparams": self.setparams_status(k),
                "abstract": k[1].startswith("_") or k[1].startswith("Base")}


BOTTOM = "bottom"     # path does not complete (raise / return already accounted for)


class _GuardAnalysis:
    """Path-sensitive walk of a method body.  State: False (guard not reached yet), True (guard
    reached), BOTTOM (path ended).  Records the first touch of non-parameter state of `self` while
    the state is False, and whether some path returns / falls off the end while False."""

    def __init__(self, table, k, owner, mname, stack, params):
        self.t, self.k, self.owner, self.mname, self.stack, self.params = table, k, owner, mname, stack, params
        self.touch = None
        self.returns_unguarded = False

    @staticmethod
    def join(a, b):
        if a == BOTTOM:
            return b
        if b == BOTTOM:
            return a
        return a and b

    def block(self, stmts, g):
        for s in stmts:
            if g == BOTTOM:
                break
            g = self.stmt(s, g)
        return g

    def stmt(self, s, g):
        if isinstance(s, (ast.FunctionDef, ast.AsyncFunctionDef, ast.ClassDef, ast.Import,
                          ast.ImportFrom, ast.Pass, ast.Global, ast.Nonlocal)):
            return g
        if isinstance(s, ast.Return):
            if s.value is not None:
                g = self.expr(s.value, g)
            if g is False:
                self.returns_unguarded = True
            return BOTTOM
        if isinstance(s, ast.Raise):
            if s.exc is not None:
                g = self.expr(s.exc, g)
            return BOTTOM
        if isinstance(s, ast.If):
            g = self.expr(s.test, g)
            return self.join(self.block(s.body, g), self.block(s.orelse, g))
        if isinstance(s, (ast.For, ast.AsyncFor)):
            g = self.expr(s.iter, g)
            self.store_target(s.target, g)
            gb = self.block(s.body, g)
            ge = self.block(s.orelse, g)
            return self.join(g if gb == BOTTOM else self.join(g, gb), ge) if s.orelse else (
                g if gb == BOTTOM else self.join(g, gb))
        if isinstance(s, ast.While):
            g = self.expr(s.test, g)
            gb = self.block(s.body, g)
            return g if gb == BOTTOM else self.join(g, gb)
        if isinstance(s, (ast.With, ast.AsyncWith)):
            for it in s.items:
                g = self.expr(it.context_expr, g)
                if it.optional_vars is not None:
                    self.store_target(it.optional_vars, g)
            return self.block(s.body, g)
        if isinstance(s, ast.Try):
            gb = self.block(s.body, g)
            outs = [self.block(s.orelse, gb) if gb != BOTTOM else BOTTOM]
            for h in s.handlers:
                outs.append(self.block(h.body, g))
            r = BOTTOM
            for o in outs:
                r = self.join(r, o)
            if s.finalbody:
                r2 = self.block(s.finalbody, g if r == BOTTOM else r)
                return BOTTOM if r == BOTTOM else r2
            return r
        if isinstance(s, ast.Assign):
            g = self.expr(s.value, g)
            for t in s.targets:
                self.store_target(t, g)
            return g
        if isinstance(s, ast.AugAssign):
            g = self.expr(s.value, g)
            g = self.expr(s.target, g)
            self.store_target(s.target, g)
            return g
        if isinstance(s, ast.AnnAssign):
            if s.value is not None:
                g = self.expr(s.value, g)
                self.store_target(s.target, g)
            return g
        if isinstance(s, (ast.Expr,)):
            return self.expr(s.value, g)
        if isinstance(s, ast.Assert):
            return self.expr(s.test, g)
        if isinstance(s, ast.Delete):
            for t in s.targets:
                self.store_target(t, g)
            return g
        if isinstance(s, (ast.Break, ast.Continue)):
            return g
        raise Unsupported("%s.%s.%s: statement %s" % (self.owner + (self.mname, type(s).__name__)))

    def store_target(self, t, g):
        for el in ast.walk(t):
            if (isinstance(el, ast.Attribute) and isinstance(el.value, ast.Name)
                    and el.value.id == "self" and g is False and self.touch is None):
                self.touch = "write " + el.attr

    def note_read(self, attr, g):
        if g is False and self.touch is None and attr not in self.params and attr not in NEUTRAL_ATTRS:
            self.touch = attr

    def expr(self, e, g):
        """Evaluate sub-expressions in Python's order; returns the new state."""
        if e is None or g == BOTTOM:
            return g
        if isinstance(e, ast.Call):
            f = e.func
            # argument evaluation first (receiver, then args)
            if isinstance(f, ast.Attribute):
                recv_self = isinstance(f.value, ast.Name) and f.value.id == "self"
                recv_super = (isinstance(f.value, ast.Call) and isinstance(f.value.func, ast.Name)
                              and f.value.func.id == "super")
                if not recv_self and not recv_super:
                    g = self.expr(f.value, g)
            else:
                recv_self = recv_super = False
                if not isinstance(f, ast.Name):
                    g = self.expr(f, g)
            for a in e.args:
                g = self.expr(a.value if isinstance(a, ast.Starred) else a, g)
            for kw in e.keywords:
                g = self.expr(kw.value, g)
            if g == BOTTOM:
                return g
            # the call itself
            if isinstance(f, ast.Name) and f.id in GUARD_NAMES:
                if e.args and isinstance(e.args[0], ast.Name) and e.args[0].id == "self":
                    return True
                return g
            if recv_self and f.attr in GUARD_NAMES:
                return True
            if recv_self or recv_super:
                if recv_self:
                    r = self.t.find_method(self.k, f.attr)
                else:
                    r = self.t.find_method(self.k, f.attr, after=self.owner)
                if r is None:
                    # not a method of the table: attribute holding a callable (state or parameter)
                    if recv_self:
                        self.note_read(f.attr, g)
                    return g
                if g is True:
                    return g
                st = self.t._status_of(self.k, r, f.attr, self.stack)
                if st[0] == "GG":
                    return True
                if st[0] == "GU":
                    if self.touch is None:
                        self.touch = "%s via %s" % (st[2], f.attr)
                    return g
                if st[0] == "GA":
                    return BOTTOM          # abstract callee raises NotImplementedError
                # GX / GR: the callee neither guards nor touches sktime state: state unchanged
                return g
            return g
        if isinstance(e, ast.Attribute):
            if isinstance(e.value, ast.Name) and e.value.id == "self":
                if isinstance(e.ctx, ast.Load):
                    # a property of the class? analyse it as a method call
                    r = self.t.find_method(self.k, e.attr)
                    if r is not None and r[0] != "ext" and _is_property(r[1]):
                        if g is False:
                            st = self.t._status_of(self.k, r, e.attr, self.stack)
                            if st[0] == "GG":
                                return True
                            if st[0] == "GU" and self.touch is None:
                                self.touch = "%s via property %s" % (st[2], e.attr)
                        return g
                    if r is None:
                        self.note_read(e.attr, g)
                return g
            return self.expr(e.value, g)
        if isinstance(e, ast.BoolOp):
            g0 = self.expr(e.values[0], g)
            out = g0
            cur = g0
            for v in e.values[1:]:
                cur = self.expr(v, cur)
                out = self.join(out, cur)
            return out
        if isinstance(e, ast.IfExp):
            g = self.expr(e.test, g)
            return self.join(self.expr(e.body, g), self.expr(e.orelse, g))
        if isinstance(e, (ast.Lambda,)):
            return g
        if isinstance(e, (ast.ListComp, ast.SetComp, ast.GeneratorExp, ast.DictComp)):
            for gen in e.generators:
                g = self.expr(gen.iter, g)
                for c in gen.ifs:
                    g = self.expr(c, g)
            if isinstance(e, ast.DictComp):
                g = self.expr(e.key, g)
                g = self.expr(e.value, g)
            else:
                g = self.expr(e.elt, g)
            return g
        for ch in ast.iter_child_nodes(e):
            if isinstance(ch, ast.expr):
                g = self.expr(ch, g)
            elif isinstance(ch, (ast.keyword,)):
                g = self.expr(ch.value, g)
            elif isinstance(ch, ast.FormattedValue):
                g = self.expr(ch.value, g)
        return g


class _ValidateAnalysis:
    """Path-sensitive walk of a set_params-like body.  Path state: have the names been validated
    (False / True)?  Validation = a call, with the function's own ** mapping passed on as **, of
    `super().<same name or set_params>` resolving to scikit-learn, or of a method of the table (on
    self / super()) that validates on every completing path.  Rebinding the ** mapping makes the
    later calls worthless.  `bad` = the first way a path completes unvalidated."""

    def __init__(self, table, k, owner, fn, stack):
        self.t, self.k, self.owner, self.fn, self.stack = table, k, owner, fn, stack
        self.kw = fn.args.kwarg.arg
        self.rebound = False
        self.bad = None
        self.attr = None

    @staticmethod
    def join(a, b):
        if a == BOTTOM:
            return b
        if b == BOTTOM:
            return a
        return a and b

    def block(self, stmts, g):
        for s in stmts:
            if g == BOTTOM:
                break
            g = self.stmt(s, g)
        return g

    def validating_call(self, n):
        f = n.func
        if not isinstance(f, ast.Attribute):
            return False
        recv_self = isinstance(f.value, ast.Name) and f.value.id == "self"
        recv_super = (isinstance(f.value, ast.Call) and isinstance(f.value.func, ast.Name)
                      and f.value.func.id == "super")
        if not (recv_self or recv_super):
            return False
        passes = any(kw.arg is None and isinstance(kw.value, ast.Name) and kw.value.id == self.kw
                     for kw in n.keywords)
        if not passes or self.rebound:
            return False
        r = self.t.find_method(self.k, f.attr, after=self.owner if recv_super else None)
        if r is None or r[0] == "ext":
            # not written in the package: scikit-learn's BaseEstimator.set_params validates every name
            return f.attr == "set_params"
        st = self.t._validates(self.k, r, self.stack)
        if st[0] == "PV":
            if n.args and isinstance(n.args[0], ast.Constant) and isinstance(n.args[0].value, str) \
                    and self.attr is None:
                self.attr = n.args[0].value
            return True
        return False

    def expr(self, e, g):
        if e is None or g is True:
            return g
        for n in ast.walk(e):
            if isinstance(n, ast.Call) and self.validating_call(n):
                return True
        return g

    def stmt(self, s, g):
        if isinstance(s, (ast.FunctionDef, ast.AsyncFunctionDef, ast.ClassDef, ast.Import,
                          ast.ImportFrom, ast.Pass, ast.Global, ast.Nonlocal, ast.Break, ast.Continue)):
            return g
        if isinstance(s, ast.Return):
            g = self.expr(s.value, g)
            if g is False and self.bad is None:
                self.bad = "line %d: `%s` before the names are validated" % (
                    s.lineno - self.fn.lineno + 1, ast.unparse(s)[:50])
            return BOTTOM
        if isinstance(s, ast.Raise):
            return BOTTOM
        if isinstance(s, ast.If):
            g = self.expr(s.test, g)
            return self.join(self.block(s.body, g), self.block(s.orelse, g))
        if isinstance(s, (ast.For, ast.AsyncFor)):
            g = self.expr(s.iter, g)
            self.note_target(s.target)
            gb = self.block(s.body, g)
            ge = self.block(s.orelse, g) if s.orelse else g
            return self.join(g if gb == BOTTOM else self.join(g, gb), ge)
        if isinstance(s, ast.While):
            g = self.expr(s.test, g)
            gb = self.block(s.body, g)
            return g if gb == BOTTOM else self.join(g, gb)
        if isinstance(s, (ast.With, ast.AsyncWith)):
            for it in s.items:
                g = self.expr(it.context_expr, g)
                if it.optional_vars is not None:
                    self.note_target(it.optional_vars)
            return self.block(s.body, g)
        if isinstance(s, ast.Try):
            gb = self.block(s.body, g)
            outs = [self.block(s.orelse, gb) if gb != BOTTOM else BOTTOM]
            for h in s.handlers:
                outs.append(self.block(h.body, g))      # the validating call may be what raised
            r = BOTTOM
            for o in outs:
                r = self.join(r, o)
            if s.finalbody:
                r2 = self.block(s.finalbody, g if r == BOTTOM else r)
                return BOTTOM if r == BOTTOM else r2
            return r
        if isinstance(s, ast.Assign):
            g = self.expr(s.value, g)
            for t in s.targets:
                self.note_target(t)
            return g
        if isinstance(s, (ast.AugAssign, ast.AnnAssign)):
            g = self.expr(s.value, g)
            self.note_target(s.target)
            return g
        if isinstance(s, ast.Delete):
            for t in s.targets:
                self.note_target(t)
            return g
        if isinstance(s, (ast.Expr, ast.Assert)):
            return self.expr(s.value if isinstance(s, ast.Expr) else s.test, g)
        raise Unsupported("%s.%s.%s: statement %s" % (self.owner + (self.fn.name, type(s).__name__)))

    def note_target(self, t):
        for el in ast.walk(t):
            if isinstance(el, ast.Name) and el.id == self.kw:
                self.rebound = True


class _FitAnalysis:
    """Path-sensitive walk of a fit-like body.  Path state: has `self._is_fitted = True` been
    executed (True / False / "some").  Collects per completing path what is returned and the state."""

    def __init__(self, table, k, owner, stack):
        self.t, self.k, self.owner, self.stack = table, k, owner, stack
        self.rets = []
        self.early = False

    @staticmethod
    def join(a, b):
        if a == BOTTOM:
            return b
        if b == BOTTOM:
            return a
        return a if a == b else "some"

    @staticmethod
    def flag_assign(s):
        if isinstance(s, ast.Assign) and len(s.targets) == 1:
            t = s.targets[0]
            if (isinstance(t, ast.Attribute) and isinstance(t.value, ast.Name) and t.value.id == "self"
                    and t.attr == "_is_fitted"):
                if isinstance(s.value, ast.Constant) and isinstance(s.value.value, bool):
                    return s.value.value
                return "some"
        return None

    def block(self, stmts, g):
        for i, s in enumerate(stmts):
            if g == BOTTOM:
                break
            if self.flag_assign(s) is True and not all(isinstance(x, ast.Return) for x in stmts[i + 1:]):
                self.early = True
            g = self.stmt(s, g)
        return g

    def _callee(self, f):
        """(owner, fn) of a call `self.m(...)` / `super().m(...)` on a method of the table, 'ext', or None."""
        if not isinstance(f, ast.Attribute):
            return None
        recv_self = isinstance(f.value, ast.Name) and f.value.id == "self"
        recv_super = (isinstance(f.value, ast.Call) and isinstance(f.value.func, ast.Name)
                      and f.value.func.id == "super")
        if not (recv_self or recv_super):
            return None
        return self.t.find_method(self.k, f.attr, after=self.owner if recv_super else None)

    def effect(self, e, g):
        """Flag state after evaluating e: calls on self / super() may set the flag."""
        if e is None:
            return g
        for n in ast.walk(e):
            if isinstance(n, ast.Call):
                r = self._callee(n.func)
                if r is not None and r[0] != "ext":
                    st = self.t._fit_status_of(self.k, r, self.stack)
                    if st is not None and st[0] == "FF":
                        if st[3] == "set":
                            g = True
                        elif st[3] == "some" and g is not True:
                            g = "some"
        return g

    def stmt(self, s, g):
        fa = self.flag_assign(s)
        if fa is not None:
            return fa
        if isinstance(s, ast.Return):
            if s.value is None:
                self.rets.append(("none", g))
                return BOTTOM
            g = self.effect(s.value, g)
            v = s.value
            if isinstance(v, ast.Name) and v.id == "self":
                self.rets.append(("self", g))
                return BOTTOM
            if isinstance(v, ast.Call):
                r = self._callee(v.func)
                if r is not None and r[0] != "ext":
                    st = self.t._fit_status_of(self.k, r, self.stack)
                    if st is not None and st[0] == "FF":
                        self.rets.append((st[2], g))
                        return BOTTOM
                elif r is not None and v.func.attr == "fit":
                    self.rets.append(("self", g))      # scikit-learn's fit returns self
                    return BOTTOM
            self.rets.append((ast.unparse(v)[:40], g))
            return BOTTOM
        if isinstance(s, ast.Raise):
            return BOTTOM
        if isinstance(s, ast.If):
            g = self.effect(s.test, g)
            return self.join(self.block(s.body, g), self.block(s.orelse, g))
        if isinstance(s, (ast.For, ast.AsyncFor)):
            g = self.effect(s.iter, g)
            gb = self.block(s.body, g)
            ge = self.block(s.orelse, g) if s.orelse else g
            return self.join(g if gb == BOTTOM else self.join(g, gb), ge)
        if isinstance(s, ast.While):
            g = self.effect(s.test, g)
            gb = self.block(s.body, g)
            return g if gb == BOTTOM else self.join(g, gb)
        if isinstance(s, (ast.With, ast.AsyncWith)):
            for it in s.items:
                g = self.effect(it.context_expr, g)
            return self.block(s.body, g)
        if isinstance(s, ast.Try):
            gb = self.block(s.body, g)
            outs = [self.block(s.orelse, gb) if gb != BOTTOM else BOTTOM]
            for h in s.handlers:
                outs.append(self.block(h.body, g))
            r = BOTTOM
            for o in outs:
                r = self.join(r, o)
            if s.finalbody:
                r2 = self.block(s.finalbody, g if r == BOTTOM else r)
                return BOTTOM if r == BOTTOM else r2
            return r
        if isinstance(s, (ast.FunctionDef, ast.AsyncFunctionDef, ast.ClassDef)):
            return g
        for ch in ast.iter_child_nodes(s):
            if isinstance(ch, ast.expr):
                g = self.effect(ch, g)
        return g


def _is_property(fn):
    for d in fn.decorator_list:
        if isinstance(d, ast.Name) and d.id == "property":
            return True
    return False


# ------------------------------------------------------------------------------------------------
# Gallina printer

def cstr(s):
    return '"' + s.replace('"', "'").replace("\n", " ") + '"'


def _store(st):
    if st[0] == "SM":
        return "(SM %s)" % cstr(st[1])
    if st[0] == "SC":
        return "(SC %s)" % cstr(st[1])
    if st[0] == "SF":
        return "(SF %s %s)" % (cstr(st[1]), cstr(st[2]))
    if st[0] == "SX":
        return "(SX %s)" % cstr(st[1])
    return st[0]


def _fit(f):
    if f is None:
        return "FNone"
    if f[0] in ("FA", "FX"):
        return "(%s %s)" % (f[0], cstr(f[1]))
    return "(FF %s %s %s %s)" % (cstr(f[1]), cstr(f[2][:80]), cstr(f[3]), "true" if f[4] else "false")


def _setp(p):
    if p[0] == "PX":
        return "PX"
    if p[0] == "PA":
        return "(PA %s)" % cstr(p[1])
    return "(%s %s %s)" % (p[0], cstr(p[1]), cstr(p[2][:90]))


def _guard(g):
    if g[0] == "GU":
        return "(GU %s %s)" % (cstr(g[1]), cstr(g[2][:60]))
    return "(%s %s)" % (g[0], cstr(g[1]))


HEADER = """(* GENERATED by /verif/translator/classtable.py from %s -- do not edit, never committed.
   One row per estimator class of sktime (non-test modules): constructor facts and guard facts. *)
From Coq Require Import List String Bool.
Require Import SkV.C04.Table.
Import ListNotations.
Open Scope string_scope.

Definition class_table : list class_row := [
"""


def to_coq(table):
    rows = []
    for k in sorted(table.rows, key=lambda k: table.rows[k]["key"]):
        r = table.rows[k]
        init = "None" if r["init"] is None else "(Some [%s])" % "; ".join(
            "(%s, %s)" % (cstr(p), _store(st)) for p, st in r["init"])
        meths = "[%s]" % "; ".join("(%s, %s)" % (cstr(m), _guard(g)) for m, g in r["methods"])
        muts = "[%s]" % "; ".join("(%s, %s, %s)" % (cstr(m), cstr(o), cstr(q)) for m, o, q in r["mutates"])
        rows.append(" Row %s %s [%s]\n  %s\n  %s\n  %s\n  %s" % (
            cstr(r["key"]), cstr(r["module"]), "; ".join(cstr(b) for b in r["bases"]), init, meths,
            muts, _fit(r["fit"]) + " " + _setp(r["setparams"])))
    bf = table.base_facts()
    base = (
        "\n(* sktime/base/_base.py BaseEstimator: flag stored by __init__, is_fitted returns the flag,\n"
        "   condition under which check_is_fitted raises, and the exception class it raises *)\n"
        "Definition base_init_flag : option bool := %s.\n"
        "Definition base_is_fitted_reads_flag : bool := %s.\n"
        "Definition base_guard_raises (is_fitted : bool) : bool := %s.\n"
        "Definition base_guard_exception : string := %s.\n" % (
            "None" if bf["init_flag"] is None else "(Some %s)" % ("true" if bf["init_flag"] else "false"),
            "true" if bf["reads"] else "false", bf["guard"], cstr(bf["raises"])))
    return HEADER % "sktime" + ";\n".join(rows) + "\n].\n" + base


_CACHE = {}


def extract(repo):
    st = os.stat(os.path.join(repo, "sktime"))
    if repo not in _CACHE:
        _CACHE[repo] = Table(repo)
    return _CACHE[repo]


def translate(repo):
    return {"C04/Gen.v": to_coq(extract(repo))}


def deviations(table, validators=()):
    """Python mirror of the Coq predicates of coq/C04/Table.v with an empty exception list (used to
    generate the `*_static` cases; the verdict that counts is the Coq theorem over the same table).

    Returns (ctor, guard, mut): mut = list of {cls, method, param} (a method other than __init__
    assigns to a constructor parameter); ctor = list of dicts {cls, param, how, via} with (cls, param) the ROOT
    class/parameter where the deviation is written (`via` = classes that inherit it by forwarding);
    guard = list of dicts {cls, owner, method, status, what}."""
    bykey = {r["key"]: r for r in table.rows.values()}

    def root(cls, p, st, fuel=12):
        """None if ok, else (root class, root param, how)."""
        if st[0] == "SV":
            return None
        if st[0] == "SC":
            return None if st[1] in validators else (
                cls, p, "stored through a call that is not a reviewed identity-or-raise validator: " + st[1])
        if st[0] == "SX":
            return None if st[1] == p else (cls, p, "forwarded to scikit-learn as %r" % st[1])
        if st[0] == "SF":
            if st[2] != p:
                return (cls, p, "forwarded to %s as %r" % (st[1], st[2]))
            parent = bykey.get(st[1])
            if fuel == 0 or parent is None or parent["init"] is None:
                return (cls, p, "forwarded to %s which has no such parameter" % st[1])
            for q, s2 in parent["init"]:
                if q == p:
                    return root(st[1], q, s2, fuel - 1)
            return (cls, p, "forwarded to %s which has no such parameter" % st[1])
        if st[0] == "SM":
            return (cls, p, "stored modified: " + st[1])
        return (cls, p, {"*": "*args constructor", "**": "**kwargs constructor"}.get(
            p, "not stored under its own name"))

    ctor = {}
    for r in bykey.values():
        for p, st in (r["init"] or []):
            d = root(r["key"], p, st)
            if d is not None:
                e = ctor.setdefault((d[0], d[1]), {"cls": d[0], "param": d[1], "how": d[2],
                                                   "module": bykey[d[0]]["module"], "via": []})
                if r["key"] != d[0]:
                    e["via"].append(r["key"])
    guard = []
    for r in bykey.values():
        for m, g in r["methods"]:
            if g[0] in ("GR", "GU"):
                guard.append({"cls": r["key"], "module": r["module"], "owner": g[1], "method": m,
                              "status": g[0], "what": g[2] if g[0] == "GU" else
                              "a path completes without reaching the guard"})
    mut = [{"cls": r["key"], "module": r["module"], "method": m, "owner": o, "param": q}
           for r in bykey.values() for m, o, q in r["mutates"]]
    return (sorted(ctor.values(), key=lambda d: (d["cls"], d["param"])),
            sorted(guard, key=lambda d: (d["cls"], d["method"])),
            sorted(mut, key=lambda d: (d["cls"], d["method"], d["param"])))


def setparams_deviations(table):
    """Rows whose set_params (written in the package) can complete without validating the names."""
    return sorted(
        [{"cls": r["key"], "module": r["module"], "owner": r["setparams"][1], "what": r["setparams"][2][:90]}
         for r in table.rows.values() if r["setparams"][0] == "PR"], key=lambda d: d["cls"])


def fit_deviations(table):
    """Python mirror of Table.v fit_ok with an empty exception list: rows whose fit (own or inherited)
    does not return self on every completing path with the fitted flag set last."""
    return sorted(
        [{"cls": r["key"], "module": r["module"], "owner": r["fit"][1], "returns": r["fit"][2][:80],
          "flag": r["fit"][3], "early": r["fit"][4]}
         for r in table.rows.values()
         if r["fit"] is not None and r["fit"][0] == "FF"
         and not (r["fit"][2] == "self" and r["fit"][3] == "set" and not r["fit"][4])],
        key=lambda d: d["cls"])


if __name__ == "__main__":
    import sys
    repo = sys.argv[1] if len(sys.argv) > 1 else "/repo"
    t = extract(repo)
    ctor, guard, mut = deviations(t)
    print("classes", len(t.allc), "estimators", len(t.rows))
    for d in ctor:
        print("CTOR ", d["cls"], d["param"], "|", d["how"], "| via", ",".join(d["via"]))
    for d in guard:
        print("GUARD", d["cls"], d["owner"], d["method"], d["status"], d["what"])
    for d in mut:
        print("MUT  ", d["cls"], d["method"], d["owner"], d["param"])
    for d in fit_deviations(t):
        print("FIT  ", d["cls"], d["owner"], d["returns"], d["flag"], d["early"])
    for d in setparams_deviations(t):
        print("SETP ", d["cls"], d["owner"], d["what"])
    print("BASE ", t.base_facts())
