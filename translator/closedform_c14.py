"""C14 site extractor: regenerates the index arithmetic and the PAA loop body of the closed-form
panel transformers as Gallina definitions (build/coq/C14/Gen.v).  The committed coq/C14/Bridge.v
proves, for all arguments, that the hand model of coq/C14/Model.v is built from exactly these
expressions, so that an off-by-one edit of the source breaks a proof obligation.

Regenerated (expressions):
  padder.py        np.full length, copy upper bound, rejection test
  truncation.py    rejection test, np.arange bounds of both branches
  interpolate.py   the two np.linspace grids (knots / query points)
  segment.py       IntervalSegmenter rejection test, [start, end) of a chunk (fit) composed with
                   the slice bounds of transform; SlidingWindowSegmenter pad amount, padded
                   length, window shape and strides
  _paa.py          parameter tests, frame length, the WHOLE body of the running-sum loop (as a
                   state transformer obtained by symbolic execution), the lost-last-frame test
  _extract.py      allocation width, loop nesting (column position of feature f / interval v),
                   slice bounds
  impute.py        data flow of the drift branch (what the trend is fitted on, what is filled),
                   the pandas call of every closed-form method (pinned)

Fail-closed: every function is walked statement by statement; an unknown, missing, extra or
reordered statement raises Unsupported (a broken tie for the harness).  Only what is listed above is
regenerated; numpy / pandas / scipy primitives (np.full, slicing, np.pad(mode="edge"), as_strided,
np.array_split, np.linspace, interp1d, fillna, interpolate) are modelled by hand in Model.v and
tied by the correspondence run.
"""
import ast
import os


class Unsupported(Exception):
    pass


def _u(node):
    return ast.unparse(node)


def _need(cond, what, node=None):
    if not cond:
        raise Unsupported("%s%s" % (what, (": " + _u(node)) if node is not None else ""))


def _find(mod, path):
    node = mod
    for p in path.split("."):
        for n in node.body:
            if isinstance(n, (ast.FunctionDef, ast.ClassDef)) and n.name == p:
                node = n
                break
        else:
            raise Unsupported("missing " + path)
    return node


def _body(fn):
    b = list(fn.body)
    if b and isinstance(b[0], ast.Expr) and isinstance(getattr(b[0], "value", None), ast.Constant) \
            and isinstance(b[0].value.value, str):
        b = b[1:]
    return b


def _assign(st, target):
    _need(isinstance(st, ast.Assign) and len(st.targets) == 1 and _u(st.targets[0]) == target,
          "expected assignment to " + target, st)
    return st.value


def _same(st, text, what):
    _need(" ".join(_u(st).split()) == " ".join(text.split()), what + ": expected `%s`" % text, st)


def _raises(st, exc="ValueError"):
    """`if test: raise exc(...)` -> test"""
    _need(isinstance(st, ast.If) and not st.orelse and len(st.body) == 1
          and isinstance(st.body[0], ast.Raise) and st.body[0].exc is not None
          and _u(st.body[0].exc).startswith(exc + "("), "expected `if ...: raise %s(...)`" % exc, st)
    return st.test


def _load(repo, rel):
    with open(os.path.join(repo, rel)) as f:
        return ast.parse(f.read())


# ------------------------------------------------------------------------------------------------
# integer expressions -> Z


def _zexpr(e, env):
    if isinstance(e, ast.Constant) and isinstance(e.value, int) and not isinstance(e.value, bool):
        return "(%d)" % e.value
    if isinstance(e, (ast.Name, ast.Attribute, ast.Call, ast.Subscript)):
        u = _u(e)
        if u in env:
            return env[u]
    if isinstance(e, ast.Call) and _u(e.func) == "math.floor" and len(e.args) == 1 \
            and not e.keywords and isinstance(e.args[0], ast.BinOp) and isinstance(e.args[0].op, ast.Div):
        # floor of the true quotient of two non-negative ints = Z.div (the Bridge states w >= 0)
        return "(%s / %s)" % (_zexpr(e.args[0].left, env), _zexpr(e.args[0].right, env))
    if isinstance(e, ast.UnaryOp) and isinstance(e.op, ast.USub):
        return "(- %s)" % _zexpr(e.operand, env)
    if isinstance(e, ast.BinOp) and type(e.op) in (ast.Add, ast.Sub, ast.Mult, ast.FloorDiv):
        op = {ast.Add: "+", ast.Sub: "-", ast.Mult: "*", ast.FloorDiv: "/"}[type(e.op)]
        return "(%s %s %s)" % (_zexpr(e.left, env), op, _zexpr(e.right, env))
    raise Unsupported("integer expression %s" % _u(e))


_ZCMP = {ast.Gt: ">?", ast.GtE: ">=?", ast.Lt: "<?", ast.LtE: "<=?", ast.Eq: "=?"}


def _zcmp(e, env):
    if isinstance(e, ast.UnaryOp) and isinstance(e.op, ast.Not):
        return "(negb %s)" % _zcmp(e.operand, env)
    if isinstance(e, ast.Compare) and len(e.ops) == 1 and type(e.ops[0]) in _ZCMP:
        return "(%s %s %s)" % (_zexpr(e.left, env), _ZCMP[type(e.ops[0])],
                               _zexpr(e.comparators[0], env))
    raise Unsupported("comparison %s" % _u(e))


class Defs:
    def __init__(self):
        self.z = []     # (name, params, type, body) in Z scope
        self.q = []     # raw text in Q scope

    def addz(self, name, params, ty, body):
        self.z.append((name, params, ty, body))


# ------------------------------------------------------------------------------------------------
# padder.py


def _padder(repo, d):
    mod = _load(repo, "sktime/transformations/panel/padder.py")
    fit = _body(_find(mod, "PaddingTransformer.fit"))
    _need(len(fit) == 4, "PaddingTransformer.fit has %d statements, expected 4" % len(fit))
    _same(fit[0], "X = check_X(X, coerce_to_pandas=True)", "fit stmt 1")
    _same(fit[1], """if self.pad_length is None:
    n_instances, _ = X.shape
    arr = [X.iloc[i, :].values for i in range(n_instances)]
    self.pad_length_ = _get_max_length(arr)
else:
    self.pad_length_ = self.pad_length""", "fit stmt 2 (requested or longest length)")
    _same(fit[2], "self._is_fitted = True", "fit stmt 3")
    _same(fit[3], "return self", "fit stmt 4")
    gm = _body(_find(mod, "_get_max_length"))
    _need(len(gm) == 2, "_get_max_length has %d statements" % len(gm))
    _same(gm[0], "def get_length(input):\n    return max(map(lambda series: len(series), input))",
          "_get_max_length.get_length")
    _same(gm[1], "return max(map(get_length, X))", "_get_max_length return")
    cp = _body(_find(mod, "PaddingTransformer._create_pad"))
    _need(len(cp) == 3, "_create_pad has %d statements, expected 3" % len(cp))
    v = _assign(cp[0], "out")
    _need(isinstance(v, ast.Call) and _u(v.func) == "np.full" and len(v.args) == 3 and not v.keywords
          and _u(v.args[1]) == "self.fill_value", "out = np.full(len, self.fill_value, dtype)", cp[0])
    d.addz("gen_pad_alloc", "L", "Z", _zexpr(v.args[0], {"self.pad_length_": "L"}))
    st = cp[1]
    _need(isinstance(st, ast.Assign) and len(st.targets) == 1
          and isinstance(st.targets[0], ast.Subscript) and _u(st.targets[0].value) == "out"
          and isinstance(st.targets[0].slice, ast.Slice) and st.targets[0].slice.lower is None
          and st.targets[0].slice.step is None and st.targets[0].slice.upper is not None,
          "out[:hi] = <series>", st)
    _need(_u(st.value) == "np.asarray(series)", "the whole series is copied", st)
    d.addz("gen_pad_copy_hi", "len", "Z", _zexpr(st.targets[0].slice.upper, {"len(series)": "len"}))
    _same(cp[2], "return out", "_create_pad return")
    tr = _body(_find(mod, "PaddingTransformer.transform"))
    _need(len(tr) == 8, "PaddingTransformer.transform has %d statements, expected 8" % len(tr))
    _same(tr[0], "self.check_is_fitted()", "transform stmt 1")
    _same(tr[1], "X = check_X(X, coerce_to_pandas=True)", "transform stmt 2")
    _same(tr[2], "n_instances, n_dims = X.shape", "transform stmt 3")
    _same(tr[3], "arr = [X.iloc[i, :].values for i in range(n_instances)]", "transform stmt 4")
    _same(tr[4], "max_length = _get_max_length(arr)", "transform stmt 5")
    d.addz("gen_pad_reject", "mx L", "bool",
           _zcmp(_raises(tr[5]), {"max_length": "mx", "self.pad_length_": "L"}))
    _same(tr[6], "pad = [pd.Series([self._create_pad(series) for series in out]) for out in arr]",
          "transform stmt 7 (every cell of every row, in order)")
    _same(tr[7], "return pd.DataFrame(pad)", "transform stmt 8")


# ------------------------------------------------------------------------------------------------
# truncation.py


def _truncation(repo, d):
    mod = _load(repo, "sktime/transformations/panel/truncation.py")
    fit = _body(_find(mod, "TruncationTransformer.fit"))
    _need(len(fit) == 4, "TruncationTransformer.fit has %d statements, expected 4" % len(fit))
    _same(fit[0], "X = check_X(X, coerce_to_pandas=True)", "fit stmt 1")
    _same(fit[1], """if self.lower is None:
    n_instances, _ = X.shape
    arr = [X.iloc[i, :].values for i in range(n_instances)]
    self.lower_ = self.get_min_length(arr)
else:
    self.lower_ = self.lower""", "fit stmt 2 (requested or shortest length)")
    gm = _body(_find(mod, "TruncationTransformer.get_min_length"))
    _need(len(gm) == 2, "get_min_length has %d statements" % len(gm))
    _same(gm[0], "def get_length(input):\n    return min(map(lambda series: len(series), input))",
          "get_min_length.get_length")
    _same(gm[1], "return min(map(get_length, X))", "get_min_length return")
    tr = _body(_find(mod, "TruncationTransformer.transform"))
    _need(len(tr) == 9, "TruncationTransformer.transform has %d statements, expected 9" % len(tr))
    _same(tr[0], "self.check_is_fitted()", "transform stmt 1")
    _same(tr[1], "X = check_X(X, coerce_to_pandas=True)", "transform stmt 2")
    _same(tr[2], "n_instances, _ = X.shape", "transform stmt 3")
    _same(tr[3], "arr = [X.iloc[i, :].values for i in range(n_instances)]", "transform stmt 4")
    _same(tr[4], "min_length = self.get_min_length(arr)", "transform stmt 5")
    env = {"min_length": "mn", "self.lower_": "lo", "self.upper": "u"}
    d.addz("gen_trunc_reject", "mn lo", "bool", _zcmp(_raises(tr[5]), env))
    st = tr[6]
    _need(isinstance(st, ast.If) and _u(st.test) == "self.upper is None" and len(st.body) == 1
          and len(st.orelse) == 1, "if self.upper is None: ... else: ...", st)
    a = _assign(st.body[0], "idxs")
    _need(isinstance(a, ast.Call) and _u(a.func) == "np.arange" and len(a.args) == 1
          and not a.keywords, "idxs = np.arange(stop)", st.body[0])
    d.addz("gen_trunc_none_stop", "lo", "Z", _zexpr(a.args[0], env))
    b = _assign(st.orelse[0], "idxs")
    _need(isinstance(b, ast.Call) and _u(b.func) == "np.arange" and len(b.args) == 2
          and not b.keywords, "idxs = np.arange(start, stop)", st.orelse[0])
    d.addz("gen_trunc_start", "lo u", "Z", _zexpr(b.args[0], env))
    d.addz("gen_trunc_stop", "lo u", "Z", _zexpr(b.args[1], env))
    _same(tr[7], "truncate = [pd.Series([pd.Series(series).iloc[idxs] for series in out]) "
                 "for out in arr]", "transform stmt 8 (positional selection of every cell)")
    _same(tr[8], "return pd.DataFrame(truncate)", "transform stmt 9")


# ------------------------------------------------------------------------------------------------
# interpolate.py


def _linspace(e, env, what):
    _need(isinstance(e, ast.Call) and _u(e.func) == "np.linspace" and len(e.args) == 3
          and not e.keywords, what + ": np.linspace(lo, hi, num)", e)
    return [_zexpr(a, env) for a in e.args]


def _interpolate(repo, d):
    mod = _load(repo, "sktime/transformations/panel/interpolate.py")
    rc = _body(_find(mod, "TSInterpolator._resize_cell"))
    _need(len(rc) == 2, "_resize_cell has %d statements, expected 2" % len(rc))
    f = _assign(rc[0], "f")
    _need(isinstance(f, ast.Call) and _u(f.func) == "interpolate.interp1d" and len(f.args) == 2
          and not f.keywords and _u(f.args[1]) == "np.asarray(cell)"
          and isinstance(f.args[0], ast.Call) and _u(f.args[0].func) == "list"
          and len(f.args[0].args) == 1,
          "f = interpolate.interp1d(list(np.linspace(..)), np.asarray(cell))  [linear by default]",
          rc[0])
    env = {"len(cell)": "n", "self.length": "m"}
    lo, hi, num = _linspace(f.args[0].args[0], env, "knots")
    d.addz("gen_interp_knot_lo", "n m", "Z", lo)
    d.addz("gen_interp_knot_hi", "n m", "Z", hi)
    d.addz("gen_interp_knot_num", "n m", "Z", num)
    r = rc[1]
    _need(isinstance(r, ast.Return) and isinstance(r.value, ast.Call) and _u(r.value.func) == "f"
          and len(r.value.args) == 1 and not r.value.keywords, "return f(np.linspace(..))", r)
    lo, hi, num = _linspace(r.value.args[0], env, "query points")
    d.addz("gen_interp_query_lo", "n m", "Z", lo)
    d.addz("gen_interp_query_hi", "n m", "Z", hi)
    d.addz("gen_interp_query_num", "n m", "Z", num)
    col = _body(_find(mod, "TSInterpolator._resize_col"))
    _need(len(col) == 1, "_resize_col has %d statements" % len(col))
    _same(col[0], "return coll.apply(self._resize_cell)", "_resize_col")
    tr = _body(_find(mod, "TSInterpolator.transform"))
    _need(len(tr) == 3, "TSInterpolator.transform has %d statements" % len(tr))
    _same(tr[0], "self.check_is_fitted()", "transform stmt 1")
    _same(tr[1], "X = check_X(X, coerce_to_pandas=True)", "transform stmt 2")
    _same(tr[2], "return X.apply(self._resize_col)", "transform stmt 3")


# ------------------------------------------------------------------------------------------------
# segment.py


def _interval_segmenter(mod, d):
    fit = _body(_find(mod, "IntervalSegmenter.fit"))
    _need(len(fit) == 7, "IntervalSegmenter.fit has %d statements, expected 7" % len(fit))
    _same(fit[0], "X = check_X(X, enforce_univariate=True, coerce_to_numpy=True)", "fit stmt 1")
    _same(fit[1], "n_instances, n_columns, n_timepoints = X.shape", "fit stmt 2")
    _same(fit[2], "self.input_shape_ = (n_instances, n_columns, n_timepoints)", "fit stmt 3")
    _same(fit[3], "self._time_index = np.arange(n_timepoints)", "fit stmt 4")
    st = fit[4]
    _need(isinstance(st, ast.If) and _u(st.test) == "isinstance(self.intervals, np.ndarray)"
          and len(st.body) == 1 and _u(st.body[0]) == "self.intervals_ = list(self.intervals)"
          and len(st.orelse) == 1 and isinstance(st.orelse[0], ast.If),
          "fit stmt 5: ndarray branch keeps the rows [start, end)", st)
    br = st.orelse[0]
    _need(_u(br.test) == "isinstance(self.intervals, (int, np.integer))" and len(br.body) == 2
          and len(br.orelse) == 1 and isinstance(br.orelse[0], ast.Raise), "fit stmt 5: int branch", br)
    d.addz("gen_iseg_reject", "k n", "bool",
           _zcmp(_raises(br.body[0]), {"self.intervals": "k", "n_timepoints": "n"}))
    v = _assign(br.body[1], "self.intervals_")
    split = "np.array_split(self._time_index, self.intervals)"
    cenv = {"chunk[0]": "first", "chunk[-1]": "last"}
    if _u(v) == split:
        # the stored interval IS the chunk of consecutive indices
        stored = {"interval[0]": "first", "interval[-1]": "last"}
    else:
        _need(isinstance(v, ast.ListComp) and len(v.generators) == 1
              and _u(v.generators[0].target) == "chunk" and _u(v.generators[0].iter) == split
              and not v.generators[0].ifs and isinstance(v.elt, ast.Call)
              and _u(v.elt.func) == "np.array" and len(v.elt.args) == 1 and not v.elt.keywords
              and isinstance(v.elt.args[0], ast.List) and len(v.elt.args[0].elts) == 2,
              "self.intervals_ = [np.array([start, end]) for chunk in np.array_split(..)]", br.body[1])
        e0, e1 = v.elt.args[0].elts
        stored = {"interval[0]": _zexpr(e0, cenv), "interval[-1]": _zexpr(e1, cenv)}
    _same(fit[5], "self._is_fitted = True", "fit stmt 6")
    _same(fit[6], "return self", "fit stmt 7")
    tr = _body(_find(mod, "IntervalSegmenter.transform"))
    _need(len(tr) == 10, "IntervalSegmenter.transform has %d statements, expected 10" % len(tr))
    _same(tr[0], "self.check_is_fitted()", "transform stmt 1")
    _same(tr[1], "X = check_X(X, enforce_univariate=True, coerce_to_numpy=True)", "transform stmt 2")
    _same(tr[2], "X = X.squeeze(1)", "transform stmt 3")
    _same(tr[3], "intervals = []", "transform stmt 4")
    _same(tr[4], "column_names = _get_column_names(X)[0]", "transform stmt 5")
    _same(tr[5], "new_column_names = []", "transform stmt 6")
    lp = tr[6]
    _need(isinstance(lp, ast.For) and _u(lp.target) == "interval" and _u(lp.iter) == "self.intervals_"
          and not lp.orelse and len(lp.body) == 4, "for interval in self.intervals_ (4 statements)", lp)
    se = _assign(lp.body[0], "(start, end)")
    _need(isinstance(se, ast.Tuple) and len(se.elts) == 2, "start, end = a, b", lp.body[0])
    sl = _assign(lp.body[1], "interval")
    _need(isinstance(sl, ast.Subscript) and _u(sl.value) == "X" and isinstance(sl.slice, ast.Tuple)
          and len(sl.slice.elts) == 2 and _u(sl.slice.elts[0]) == ":"
          and isinstance(sl.slice.elts[1], ast.Slice) and sl.slice.elts[1].step is None
          and _u(sl.slice.elts[1].lower) == "start" and _u(sl.slice.elts[1].upper) == "end",
          "interval = X[:, start:end]", lp.body[1])
    d.addz("gen_iseg_start", "first last", "Z", _zexpr(se.elts[0], stored))
    d.addz("gen_iseg_end", "first last", "Z", _zexpr(se.elts[1], stored))
    _same(lp.body[2], "intervals.append(interval)", "loop stmt 3")
    _same(lp.body[3], "new_column_names.append(f'{column_names}_{start}_{end}')", "loop stmt 4")
    _same(tr[7], "Xt = pd.DataFrame(_concat_nested_arrays(intervals))", "transform stmt 8")
    _same(tr[8], "Xt.columns = new_column_names", "transform stmt 9")
    _same(tr[9], "return Xt", "transform stmt 10")


def _sliding(mod, d):
    tr = _body(_find(mod, "SlidingWindowSegmenter.transform"))
    _need(len(tr) == 14, "SlidingWindowSegmenter.transform has %d statements, expected 14" % len(tr))
    _same(tr[0], "self.check_is_fitted()", "stmt 1")
    _same(tr[1], "X = check_X(X, enforce_univariate=True, coerce_to_numpy=True)", "stmt 2")
    _same(tr[2], "X = X.squeeze(1)", "stmt 3")
    _same(tr[3], "n_timepoints = X.shape[1]", "stmt 4")
    _same(tr[4], "n_instances = X.shape[0]", "stmt 5")
    _same(tr[5], "self._check_parameters(n_timepoints)", "stmt 6")
    env = {"self.window_length": "w", "n_timepoints": "n", "pad_amnt": "pad"}
    d.addz("gen_slide_pad", "w", "Z", _zexpr(_assign(tr[6], "pad_amnt"), env))
    z = _assign(tr[7], "padded_data")
    _need(isinstance(z, ast.Call) and _u(z.func) == "np.zeros" and len(z.args) == 1
          and isinstance(z.args[0], ast.Tuple) and len(z.args[0].elts) == 2
          and _u(z.args[0].elts[0]) == "n_instances", "padded_data = np.zeros((n_instances, len))", tr[7])
    d.addz("gen_slide_padded_len", "n pad", "Z", _zexpr(z.args[0].elts[1], env))
    _same(tr[8], "for i in range(n_instances):\n    padded_data[i] = np.pad(X[i], pad_amnt, mode='edge')",
          "stmt 9 (edge padding of every instance)")
    _same(tr[9], "subsequences = np.zeros((n_instances, n_timepoints, self.window_length))", "stmt 10")
    _same(tr[10], "for i in range(n_instances):\n    subsequences[i] = "
                  "self._extract_subsequences(padded_data[i], n_timepoints)", "stmt 11")
    _same(tr[11], "df = pd.DataFrame()", "stmt 12")
    _same(tr[12], """for i in range(len(subsequences)):
    inst = subsequences[i]
    data = []
    for j in range(len(inst)):
        data.append(pd.Series(inst[j]))
    df[i] = data""", "stmt 13 (one cell per window, in order)")
    _same(tr[13], "return df.transpose()", "stmt 14")
    ex = _body(_find(mod, "SlidingWindowSegmenter._extract_subsequences"))
    _need(len(ex) == 3, "_extract_subsequences has %d statements, expected 3" % len(ex))
    sh = _assign(ex[0], "shape")
    _need(isinstance(sh, ast.Tuple) and len(sh.elts) == 2, "shape = (rows, cols)", ex[0])
    d.addz("gen_slide_rows", "n w", "Z", _zexpr(sh.elts[0], env))
    d.addz("gen_slide_cols", "n w", "Z", _zexpr(sh.elts[1], env))
    stv = _assign(ex[1], "strides")
    _need(isinstance(stv, ast.Tuple) and len(stv.elts) == 2, "strides = (s0, s1)", ex[1])
    unit = {"instance.itemsize": "(1)"}          # strides in units of one item
    d.addz("gen_slide_stride0", "n w", "Z", _zexpr(stv.elts[0], unit))
    d.addz("gen_slide_stride1", "n w", "Z", _zexpr(stv.elts[1], unit))
    _same(ex[2], "return np.lib.stride_tricks.as_strided(instance, shape=shape, strides=strides)",
          "_extract_subsequences return")
    cp = _body(_find(mod, "SlidingWindowSegmenter._check_parameters"))
    _need(len(cp) == 1 and isinstance(cp[0], ast.If)
          and _u(cp[0].test) == "isinstance(self.window_length, int)" and len(cp[0].body) == 1
          and len(cp[0].orelse) == 1 and isinstance(cp[0].orelse[0], ast.Raise),
          "_check_parameters shape", cp[0] if cp else None)
    d.addz("gen_slide_reject", "w", "bool", _zcmp(_raises(cp[0].body[0]), env))


def _segment(repo, d):
    mod = _load(repo, "sktime/transformations/panel/segment.py")
    _interval_segmenter(mod, d)
    _sliding(mod, d)


# ------------------------------------------------------------------------------------------------
# _paa.py : symbolic execution of the running-sum loop body


class _Sym:
    """straight-line code + if/else over the state variables -> a chain of Gallina lets"""
    TYPES = {"frames": "list", "current_frame": "nat", "current_frame_size": "Q", "frame_sum": "Q",
             "remaining": "Q"}

    def __init__(self, env):
        self.env = dict(env)        # python name -> gallina name
        self.lets = []
        self.count = {}

    def fresh(self, v):
        self.count[v] = self.count.get(v, 0) + 1
        return "%s_%d" % (v, self.count[v])

    def expr(self, e, ty, env):
        if isinstance(e, ast.Constant) and isinstance(e.value, int) and not isinstance(e.value, bool):
            return "%d%%nat" % e.value if ty == "nat" else "(%d)" % e.value
        u = _u(e)
        if isinstance(e, (ast.Name, ast.Subscript, ast.Attribute)) and u in env:
            return env[u]
        if isinstance(e, ast.BinOp) and type(e.op) in (ast.Add, ast.Sub, ast.Mult, ast.Div):
            _need(ty == "Q" or type(e.op) in (ast.Add,), "arithmetic on a counter other than +", e)
            op = {ast.Add: "+", ast.Sub: "-", ast.Mult: "*", ast.Div: "/"}[type(e.op)]
            s = "(%s %s %s)" % (self.expr(e.left, ty, env), op, self.expr(e.right, ty, env))
            return s + "%nat" if ty == "nat" else s
        raise Unsupported("expression %s" % u)

    def test(self, e, env):
        _need(isinstance(e, ast.Compare) and len(e.ops) == 1, "comparison", e)
        a, b = self.expr(e.left, "Q", env), self.expr(e.comparators[0], "Q", env)
        if isinstance(e.ops[0], ast.Gt):
            return "(qltb %s %s)" % (b, a)
        if isinstance(e.ops[0], ast.Lt):
            return "(qltb %s %s)" % (a, b)
        if isinstance(e.ops[0], ast.Eq):
            return "(Qeq_bool %s %s)" % (a, b)
        raise Unsupported("comparison %s" % _u(e))

    def bind(self, v, rhs, env):
        name = self.fresh(v)
        self.lets.append((name, rhs))
        env[v] = name

    def run(self, stmts, env):
        for st in stmts:
            if isinstance(st, ast.Assign) and len(st.targets) == 1 and isinstance(st.targets[0], ast.Name):
                v = st.targets[0].id
                _need(v in self.TYPES, "assignment to an unknown variable", st)
                self.bind(v, self.expr(st.value, self.TYPES[v], env), env)
            elif isinstance(st, ast.AugAssign) and isinstance(st.op, ast.Add) \
                    and isinstance(st.target, ast.Name) and st.target.id in self.TYPES \
                    and st.target.id in env:
                v = st.target.id
                ty = self.TYPES[v]
                s = "(%s + %s)" % (env[v], self.expr(st.value, ty, env))
                self.bind(v, s + "%nat" if ty == "nat" else s, env)
            elif isinstance(st, ast.Expr) and isinstance(st.value, ast.Call) \
                    and _u(st.value.func) == "frames.append" and len(st.value.args) == 1 \
                    and not st.value.keywords:
                self.bind("frames", "(%s ++ [%s])" % (env["frames"],
                                                      self.expr(st.value.args[0], "Q", env)), env)
            elif isinstance(st, ast.If):
                c = self.fresh("c")
                self.lets.append((c, self.test(st.test, env)))
                e1, e2 = dict(env), dict(env)
                self.run(st.body, e1)
                self.run(st.orelse, e2)
                for v in sorted(set(e1) | set(e2)):
                    _need(v in e1 and v in e2, "variable %s defined in one branch only" % v, st)
                    if e1[v] != e2[v]:
                        self.bind(v, "(if %s then %s else %s)" % (c, e1[v], e2[v]), env)
            else:
                raise Unsupported("statement in the PAA loop body: %s" % _u(st))


def _paa(repo, d):
    mod = _load(repo, "sktime/transformations/panel/dictionary_based/_paa.py")
    tr = _body(_find(mod, "PAA.transform"))
    _need(len(tr) == 10, "PAA.transform has %d statements, expected 10" % len(tr))
    _same(tr[0], "self.check_is_fitted()", "transform stmt 1")
    _same(tr[1], "X = check_X(X, enforce_univariate=False, coerce_to_pandas=True)", "transform stmt 2")
    _same(tr[2], "num_atts = len(X.iloc[0, 0])", "transform stmt 3 (length of the first cell)")
    _same(tr[3], "col_names = X.columns", "transform stmt 4")
    _same(tr[4], "self._check_parameters(num_atts)", "transform stmt 5")
    _same(tr[5], "dataFrames = []", "transform stmt 6")
    _same(tr[6], "for x in col_names:\n    dataFrames.append(self._perform_paa_along_dim(pd.DataFrame(X[x])))",
          "transform stmt 7 (every column on its own)")
    _same(tr[7], "result = pd.concat(dataFrames, axis=1, sort=False)", "transform stmt 8")
    _same(tr[8], "result.columns = col_names", "transform stmt 9")
    _same(tr[9], "return result", "transform stmt 10")
    cp = _body(_find(mod, "PAA._check_parameters"))
    _need(len(cp) == 1 and isinstance(cp[0], ast.If)
          and _u(cp[0].test) == "isinstance(self.num_intervals, int)" and len(cp[0].body) == 2
          and len(cp[0].orelse) == 1 and isinstance(cp[0].orelse[0], ast.Raise),
          "PAA._check_parameters shape", cp[0] if cp else None)
    env = {"self.num_intervals": "m", "num_atts": "na"}
    d.addz("gen_paa_reject_low", "m na", "bool", _zcmp(_raises(cp[0].body[0]), env))
    d.addz("gen_paa_reject_high", "m na", "bool", _zcmp(_raises(cp[0].body[1]), env))

    fn = _body(_find(mod, "PAA._perform_paa_along_dim"))
    _need(len(fn) == 8, "_perform_paa_along_dim has %d statements, expected 8" % len(fn))
    _same(fn[0], "X = from_nested_to_2d_array(X, return_numpy=True)", "stmt 1")
    _same(fn[1], "num_atts = X.shape[1]", "stmt 2")
    _same(fn[2], "num_insts = X.shape[0]", "stmt 3")
    _same(fn[3], "dims = pd.DataFrame()", "stmt 4")
    _same(fn[4], "data = []", "stmt 5")
    lp = fn[5]
    _need(isinstance(lp, ast.For) and _u(lp.target) == "i" and _u(lp.iter) == "range(num_insts)"
          and not lp.orelse and len(lp.body) == 9, "for i in range(num_insts) (9 statements)", lp)
    _same(fn[6], "dims[0] = data", "stmt 7")
    _same(fn[7], "return dims", "stmt 8")
    b = lp.body
    _same(b[0], "series = X[i, :]", "instance loop stmt 1")
    _same(b[1], "frames = []", "instance loop stmt 2 (initial state)")
    _same(b[2], "current_frame = 0", "instance loop stmt 3 (initial state)")
    _same(b[3], "current_frame_size = 0", "instance loop stmt 4 (initial state)")
    fl = _assign(b[4], "frame_length")
    _need(isinstance(fl, ast.BinOp) and isinstance(fl.op, ast.Div) and _u(fl.left) == "num_atts"
          and _u(fl.right) == "self.num_intervals", "frame_length = num_atts / self.num_intervals", b[4])
    d.q.append("Definition gen_paa_len (na m : Q) : Q := (na / m).\n")
    _same(b[5], "frame_sum = 0", "instance loop stmt 6 (initial state)")
    inner = b[6]
    _need(isinstance(inner, ast.For) and _u(inner.target) == "n" and _u(inner.iter) == "range(num_atts)"
          and not inner.orelse, "for n in range(num_atts)", inner)
    state = {"frames": "frames_0", "current_frame": "current_frame_0",
             "current_frame_size": "current_frame_size_0", "frame_sum": "frame_sum_0",
             "frame_length": "L", "series[n]": "x"}
    sym = _Sym(state)
    env = dict(state)
    sym.run(inner.body, env)
    for v in env:
        _need(v in state or v == "remaining", "unexpected variable %s in the loop body" % v)
    lets = "".join("  let %s := %s in\n" % (n, e) for n, e in sym.lets)
    d.q.append(
        "Definition gen_paa_step (L : Q) (st : paa_st) (x : Q) : paa_st :=\n"
        "  let frames_0 := fr st in\n  let current_frame_0 := cur st in\n"
        "  let current_frame_size_0 := sz st in\n  let frame_sum_0 := sm st in\n" + lets +
        "  {| fr := %s; cur := %s; sz := %s; sm := %s |}.\n" % (
            env["frames"], env["current_frame"], env["current_frame_size"], env["frame_sum"]))
    last = b[7]
    _need(isinstance(last, ast.If) and not last.orelse and len(last.body) == 1
          and isinstance(last.test, ast.Compare) and len(last.test.ops) == 1
          and isinstance(last.test.ops[0], ast.Eq), "if current_frame == ...: frames.append(...)", last)
    d.addz("gen_paa_last", "cur m", "bool",
           _zcmp(last.test, {"current_frame": "cur", "self.num_intervals": "m"}))
    ap = last.body[0]
    _need(isinstance(ap, ast.Expr) and isinstance(ap.value, ast.Call)
          and _u(ap.value.func) == "frames.append" and len(ap.value.args) == 1,
          "frames.append(...)", ap)
    tail = _Sym({}).expr(ap.value.args[0], "Q", {"frame_sum": "s", "frame_length": "L"})
    d.q.append("Definition gen_paa_tail (s L : Q) : Q := %s.\n" % tail)
    _same(b[8], "data.append(pd.Series(frames))", "instance loop stmt 9")


# ------------------------------------------------------------------------------------------------
# summarize/_extract.py : RandomIntervalFeatureExtractor.transform


def _rife(repo, d):
    mod = _load(repo, "sktime/transformations/panel/summarize/_extract.py")
    tr = _body(_find(mod, "RandomIntervalFeatureExtractor.transform"))
    _need(len(tr) == 15, "RandomIntervalFeatureExtractor.transform has %d statements, expected 15"
          % len(tr))
    _same(tr[0], "self.check_is_fitted()", "stmt 1")
    _same(tr[1], "features = _check_features(self.features)", "stmt 2")
    _same(tr[2], "X = check_X(X, enforce_univariate=True, coerce_to_numpy=True)", "stmt 3")
    _raises(tr[3])
    _same(tr[4], "n_instances, n_columns, _ = X.shape", "stmt 5")
    _same(tr[5], "n_features = len(features)", "stmt 6")
    _same(tr[6], "intervals = self.intervals_", "stmt 7")
    _same(tr[7], "n_intervals = len(intervals)", "stmt 8")
    z = _assign(tr[8], "Xt")
    _need(isinstance(z, ast.Call) and _u(z.func) == "np.zeros" and len(z.args) == 1
          and isinstance(z.args[0], ast.Tuple) and len(z.args[0].elts) == 2
          and _u(z.args[0].elts[0]) == "n_instances", "Xt = np.zeros((n_instances, width))", tr[8])
    d.addz("gen_rife_width", "nf ni", "Z",
           _zexpr(z.args[0].elts[1], {"n_features": "nf", "n_intervals": "ni"}))
    _same(tr[9], "columns = []", "stmt 10")
    _same(tr[10], "i = 0", "stmt 11 (column counter starts at 0)")
    outer = tr[11]
    _need(isinstance(outer, ast.For) and not outer.orelse and len(outer.body) == 1
          and isinstance(outer.body[0], ast.For) and not outer.body[0].orelse,
          "two nested loops", outer)
    inner = outer.body[0]
    loops = {"func in features": "F", "(start, end) in intervals": "V"}
    ko = "%s in %s" % (_u(outer.target), _u(outer.iter))
    ki = "%s in %s" % (_u(inner.target), _u(inner.iter))
    _need(ko in loops and ki in loops and loops[ko] != loops[ki],
          "loops over `func in features` and `start, end in intervals`", outer)
    ib = inner.body
    _need(len(ib) == 4, "inner loop has %d statements, expected 4" % len(ib))
    sl = _assign(ib[0], "interval")
    _need(isinstance(sl, ast.Subscript) and _u(sl.value) == "X" and isinstance(sl.slice, ast.Tuple)
          and len(sl.slice.elts) == 3 and _u(sl.slice.elts[0]) == ":" and _u(sl.slice.elts[1]) == ":"
          and isinstance(sl.slice.elts[2], ast.Slice) and sl.slice.elts[2].step is None
          and sl.slice.elts[2].lower is not None and sl.slice.elts[2].upper is not None,
          "interval = X[:, :, lo:hi]", ib[0])
    env = {"start": "a", "end": "b"}
    d.addz("gen_rife_lo", "a b", "Z", _zexpr(sl.slice.elts[2].lower, env))
    d.addz("gen_rife_hi", "a b", "Z", _zexpr(sl.slice.elts[2].upper, env))
    t = ib[1]
    _need(isinstance(t, ast.Try) and len(t.body) == 1
          and _u(t.body[0]) == "Xt[:, i] = func(interval, axis=-1).squeeze()",
          "Xt[:, i] = func(interval, axis=-1).squeeze()", t)
    _need("Xt[:, i] = np.apply_along_axis(func, axis=2, arr=interval).squeeze()" in _u(t),
          "row-wise fallback writes the same column", t)
    _same(ib[2], "i += 1", "the column counter advances once per (feature, interval)")
    _same(ib[3], "columns.append(f'{start}_{end}_{func.__name__}')", "inner stmt 4")
    # the counter advances once per inner iteration: position = outer * n_inner + inner
    if loops[ko] == "F":
        pos = "((f * ni) + v)"
    else:
        pos = "((v * nf) + f)"
    d.addz("gen_rife_pos", "nf ni f v", "Z", pos)
    _same(tr[12], "Xt = pd.DataFrame(Xt)", "stmt 13")
    _same(tr[13], "Xt.columns = columns", "stmt 14")
    _same(tr[14], "return Xt", "stmt 15")


# ------------------------------------------------------------------------------------------------
# series/impute.py : data flow of the drift branch, pandas call of each closed-form method


def _impute(repo, d):
    mod = _load(repo, "sktime/transformations/series/impute.py")
    tr = _body(_find(mod, "Imputer.transform"))
    chain = [s for s in tr if isinstance(s, ast.If) and _u(s.test) == "self.method == 'random'"]
    _need(len(chain) == 1, "the method dispatch `if self.method == 'random': ... elif ...`")
    idx = tr.index(chain[0])
    _need(idx + 3 == len(tr), "dispatch is followed by the final fill and the return")
    _same(tr[idx + 1], "Z = Z.fillna(method='ffill').fillna(method='backfill')",
          "final fill of first / last elements")
    _same(tr[idx + 2], "return Z", "return")
    branches = {}
    node = chain[0]
    while True:
        branches[_u(node.test)] = node.body
        if len(node.orelse) == 1 and isinstance(node.orelse[0], ast.If):
            node = node.orelse[0]
        else:
            _need(len(node.orelse) == 1 and isinstance(node.orelse[0], ast.Raise),
                  "dispatch ends with raise ValueError")
            break
    pins = {
        "self.method == 'constant'": "Z = Z.fillna(value=self.value)",
        "self.method in ['backfill', 'bfill', 'pad', 'ffill']": "Z = Z.fillna(method=self.method)",
        "self.method == 'mean'": "Z = Z.fillna(value=Z.mean())",
        "self.method == 'median'": "Z = Z.fillna(value=Z.median())",
        "self.method in ['nearest', 'linear']": "Z = Z.interpolate(method=self.method)",
    }
    for test, text in pins.items():
        _need(test in branches and len(branches[test]) == 1, "branch `%s`" % test)
        _same(branches[test][0], text, "branch `%s`" % test)
    key = "self.method in ['drift', 'forecaster']"
    _need(key in branches, "drift / forecaster branch")
    b = branches[key]
    _need(len(b) == 4, "drift branch has %d statements, expected 4" % len(b))
    sel = b[0]
    _need(isinstance(sel, ast.If) and _u(sel.test) == "self.method == 'forecaster'"
          and len(sel.orelse) == 1
          and _u(sel.orelse[0]) == "forecaster = PolynomialTrendForecaster(degree=1)",
          "drift uses PolynomialTrendForecaster(degree=1)", sel)
    _same(b[1], "fh_ins = -np.arange(len(Z))", "in-sample horizon over every position")
    fill = "Z.fillna(method='ffill').fillna(method='backfill')"
    st = b[2]
    _need(isinstance(st, ast.Assign) and len(st.targets) == 1 and _u(st.value) == fill
          and _u(st.targets[0]) in ("Z", "Z_aux"), "heuristic ffill / backfill before fitting", st)
    filled = _u(st.targets[0])                # the name that holds the filled data
    uni = b[3]
    _need(isinstance(uni, ast.If) and _u(uni.test) == "isinstance(Z, pd.DataFrame)"
          and len(uni.orelse) == 3, "frame / series split", uni)
    fit, pred, fillst = uni.orelse
    _need(isinstance(fit, ast.Expr) and isinstance(fit.value, ast.Call)
          and _u(fit.value.func) == "forecaster.fit" and not fit.value.args
          and len(fit.value.keywords) == 1 and fit.value.keywords[0].arg == "y",
          "forecaster.fit(y=...)", fit)
    fit_on = _u(fit.value.keywords[0].value)
    _same(pred, "Z_pred = forecaster.predict(fh=fh_ins)", "in-sample prediction")
    _need(isinstance(fillst, ast.Assign) and _u(fillst.targets[0]) == "Z"
          and isinstance(fillst.value, ast.Call) and _u(fillst.value.func).endswith(".fillna")
          and _u(fillst.value.keywords[0].value) == "Z_pred", "Z = <series>.fillna(value=Z_pred)", fillst)
    fill_into = _u(fillst.value.func)[:-len(".fillna")]
    # after `Z = Z.fillna(..)` the name Z itself is the filled copy; after `Z_aux = ..` Z is the input

    def src(name):
        _need(name in ("Z", "Z_aux"), "unknown data name %s in the drift branch" % name)
        if name == filled:
            return "ZFilledCopy"
        return "ZOriginal"
    d.q.append("Inductive zsrc := ZOriginal | ZFilledCopy.\n"
               "Definition gen_drift_fit_on : zsrc := %s.\n"
               "Definition gen_drift_fill_into : zsrc := %s.\n" % (src(fit_on), src(fill_into)))
    # the frame branch does the same per column
    fr = uni.body
    loop = [s for s in fr if isinstance(s, ast.For)]
    _need(len(loop) == 1 and _u(loop[0].target) == "col" and len(loop[0].body) == 3,
          "frame branch loops over the columns")
    _same(loop[0].body[0], "forecaster.fit(y=%s[col])" % fit_on, "frame branch fits on the same data")
    _same(loop[0].body[1], "Z_pred = forecaster.predict(fh=fh_ins)", "frame branch prediction")
    _same(loop[0].body[2], "Z[col] = %s[col].fillna(value=Z_pred)" % fill_into,
          "frame branch fills the same data")


HEADER = """(* GENERATED by translator/closedform_c14.py from the sktime sources -- do not edit.
   Index arithmetic, the PAA loop body and the drift data flow of the closed-form transformers. *)
From Coq Require Import QArith ZArith List Bool.
Require Import SkV.C14.Model.
Import ListNotations.

Open Scope Z_scope.
"""


def translate(repo):
    d = Defs()
    _padder(repo, d)
    _truncation(repo, d)
    _interpolate(repo, d)
    _segment(repo, d)
    _paa(repo, d)
    _rife(repo, d)
    _impute(repo, d)
    out = [HEADER]
    for name, params, ty, body in d.z:
        out.append("Definition %s (%s : Z) : %s := %s.\n" % (name, params, ty, body))
    out.append("\nClose Scope Z_scope.\nOpen Scope Q_scope.\n")
    out += d.q
    return {"C14/Gen.v": "".join(out)}


if __name__ == "__main__":
    import sys
    print(translate(sys.argv[1] if len(sys.argv) > 1 else "/repo")["C14/Gen.v"])
