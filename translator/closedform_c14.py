"""C14 site extractor: regenerates the index arithmetic and the PAA loop body of the closed-form
panel transformers as Gallina definitions (build/coq/C14/Gen.v).  The committed coq/C14/Bridge.v
proves, for all arguments, that the hand model of coq/C14/Model.v is built from exactly these
expressions, so that an off-by-one edit of the source breaks a proof obligation.

How (round 2: by DATA FLOW, not by statement position / text): every anchored method is executed
symbolically (translator/symeval_c14.py) and summarised by its returned term, the attributes it
stores, its raise sites and the opaque calls it makes, with locals substituted away and private
helpers inlined.  The summary is matched against the summary of a REFERENCE implementation (a few
lines of Python below, run through the same evaluator) in which the regenerated expressions are
HOLES (`_H_name`); the sub-terms bound to the holes are translated to Z / Q expressions.  So the
tie survives any rewrite the evaluator normalises away (renamed locals, temporaries, extracted
helpers, guard clauses, loops vs comprehensions vs generators vs map(lambda), tuple unpacking,
statement reordering without data dependence, ...) and fails closed (Unsupported) on everything
else; a change of a regenerated expression changes Gen.v and must be re-proved by Bridge.v.

Regenerated:
  padder.py        np.full length, copy upper bound, rejection test
  truncation.py    rejection test, np.arange bounds of both branches
  interpolate.py   the two np.linspace grids (knots / query points)
  segment.py       IntervalSegmenter rejection test, [start, end) of a chunk (fit) composed with
                   the slice bounds of transform; SlidingWindowSegmenter pad amount, padded
                   length, window shape and strides, parameter test
  _paa.py          parameter tests, frame length, the WHOLE running-sum loop as a state
                   transformer (state variables identified by their ROLE in the result: returned
                   list, counter of the lost-frame test, numerator of the tail, the other one),
                   the lost-last-frame test and tail
  _extract.py      allocation width, loop nesting (column position of feature f / interval v),
                   slice bounds
  compose.py       the per-instance input of both row transformers (X[i].T, a fresh object per
                   instance), the clone / output index, the factory dispatch (pinned)
  impute.py        data flow of the drift branch (what the trend is fitted on, what is filled);
                   all other branches must equal the reference (pandas call per method)
numpy / pandas / scipy primitives stay hand-modelled in Model.v (tied by the correspondence run).
"""
import ast
import os

from translator.symeval_c14 import (C, NONE, Ev, Match, Unsupported, canon, has, is_term, show,
                                    subst, walk)


def _need(cond, what, t=None):
    if not cond:
        raise Unsupported("%s%s" % (what, (": " + show(t)[:400]) if t is not None else ""))


def _load(repo, rel):
    with open(os.path.join(repo, rel)) as f:
        return ast.parse(f.read())


def E(ev, src, **env):
    """term of a Python expression in an environment of terms"""
    return ev.expr(ast.parse(src, mode="eval").body, dict(env))


SELF = ("s", "self")


def attr(name):
    return ("a", SELF, name)


# ------------------------------------------------------------------------------------------------
# terms -> Gallina


def zexpr(t, env):
    ct = canon(t)
    if ct in env:
        return env[ct]
    if t[0] == "c" and isinstance(t[1], int) and not isinstance(t[1], bool):
        return "(%d)" % t[1]
    if t[0] == "call" and t[1] == ("a", ("s", "math"), "floor") and len(t[2]) == 1 and not t[3] \
            and t[2][0][0] == "b" and t[2][0][1] == "Div":
        # floor of the true quotient of non-negative ints = Z.div (Bridge states the range)
        return "(%s / %s)" % (zexpr(t[2][0][2], env), zexpr(t[2][0][3], env))
    if t[0] == "u" and t[1] == "USub":
        return "(- %s)" % zexpr(t[2], env)
    if t[0] == "b" and t[1] in ("Add", "Sub", "Mult", "FloorDiv"):
        op = {"Add": "+", "Sub": "-", "Mult": "*", "FloorDiv": "/"}[t[1]]
        return "(%s %s %s)" % (zexpr(t[2], env), op, zexpr(t[3], env))
    raise Unsupported("integer expression " + show(t)[:300])


def zcmp(t, env):
    if t[0] == "not":
        return "(negb %s)" % zcmp(t[1], env)
    if t[0] == "cmp" and t[1] in ("Lt", "LtE", "Eq"):
        op = {"Lt": "<?", "LtE": "<=?", "Eq": "=?"}[t[1]]
        return "(%s %s %s)" % (zexpr(t[2], env), op, zexpr(t[3], env))
    raise Unsupported("comparison " + show(t)[:300])


def zenv(**kv):
    return {canon(t): n for n, t in kv.items()}


def qexpr(t, env):
    ct = canon(t)
    if ct in env:
        return env[ct]
    if t[0] == "c" and isinstance(t[1], int) and not isinstance(t[1], bool):
        return "(%d)" % t[1]
    if t[0] == "b" and t[1] in ("Add", "Sub", "Mult", "Div"):
        op = {"Add": "+", "Sub": "-", "Mult": "*", "Div": "/"}[t[1]]
        return "(%s %s %s)" % (qexpr(t[2], env), op, qexpr(t[3], env))
    if t[0] == "u" and t[1] == "USub":
        return "(- %s)" % qexpr(t[2], env)
    if t[0] == "if":
        return "(if %s then %s else %s)" % (qcond(t[1], env), qexpr(t[2], env), qexpr(t[3], env))
    raise Unsupported("rational expression " + show(t)[:300])


def qcond(t, env):
    if t[0] == "not":
        return "(negb %s)" % qcond(t[1], env)
    if t[0] == "cmp" and t[1] == "Lt":
        return "(qltb %s %s)" % (qexpr(t[2], env), qexpr(t[3], env))
    if t[0] == "cmp" and t[1] == "LtE":
        return "(Qle_bool %s %s)" % (qexpr(t[2], env), qexpr(t[3], env))
    if t[0] == "cmp" and t[1] == "Eq":
        return "(Qeq_bool %s %s)" % (qexpr(t[2], env), qexpr(t[3], env))
    raise Unsupported("rational comparison " + show(t)[:300])


def natexpr(t, env):
    ct = canon(t)
    if ct in env:
        return env[ct]
    if t[0] == "c" and isinstance(t[1], int) and not isinstance(t[1], bool) and t[1] >= 0:
        return "%d%%nat" % t[1]
    if t[0] == "b" and t[1] == "Add":
        return "(%s + %s)%%nat" % (natexpr(t[2], env), natexpr(t[3], env))
    if t[0] == "if":
        return "(if %s then %s else %s)" % (qcond(t[1], env["@q"]), natexpr(t[2], env),
                                            natexpr(t[3], env))
    raise Unsupported("counter expression " + show(t)[:300])


def qlistexpr(t, env):
    ct = canon(t)
    if ct in env:
        return env[ct]
    if t[0] == "app":
        return "(%s ++ [%s])" % (qlistexpr(t[1], env), qexpr(t[2], env["@q"]))
    if t[0] == "if":
        return "(if %s then %s else %s)" % (qcond(t[1], env["@q"]), qlistexpr(t[2], env),
                                            qlistexpr(t[3], env))
    raise Unsupported("list expression " + show(t)[:300])


class Defs:
    def __init__(self):
        self.z = []     # (name, params, type, body) in Z scope
        self.q = []     # raw text in Q scope

    def addz(self, name, params, ty, body):
        self.z.append((name, params, ty, body))


# ------------------------------------------------------------------------------------------------
# matching an anchored class against a reference class


def site(repo, rel, cls, ref_src, methods, opaque=()):
    """-> (Match, reference evaluator, actual evaluator)"""
    ref_ev = Ev(ast.parse(ref_src), "Ref" if cls is not None else None, opaque=opaque)
    act_ev = Ev(_load(repo, rel), cls, opaque=opaque)
    m = Match()
    for meth in methods:
        _need(meth in (act_ev.methods if cls is not None else act_ev.funcs),
              "%s.%s is missing" % (cls, meth))
        p = ref_ev.summary(meth)
        a = act_ev.summary(meth)
        m.summary(p, a, "%s.%s" % (cls, meth))
    return m, ref_ev, act_ev


def abv(m, ref_ev, name):
    """the actual bound variable matched with the reference binder called `name`"""
    pid = ref_ev.bvnames.get(name)
    _need(pid is not None and pid in m.bv, "binder %s of the reference was not matched" % name)
    return ("bv", m.bv[pid])


ROWS = "[X.iloc[i, :].values for i in range(X.shape[0])]"

# ------------------------------------------------------------------------------------------------
# padder.py

PAD_REF = '''
class Ref:
    def fit(self, X, y=None):
        X = check_X(X, coerce_to_pandas=True)
        if self.pad_length is None:
            self.pad_length_ = max(max(len(s) for s in row) for row in %(rows)s)
        else:
            self.pad_length_ = self.pad_length
        self._is_fitted = True
        return self

    def transform(self, X, y=None):
        self.check_is_fitted()
        X = check_X(X, coerce_to_pandas=True)
        rows = %(rows)s
        if _H_reject:
            raise ValueError("")
        return pd.DataFrame([pd.Series([self._create_pad(cell) for cell in row]) for row in rows])

    def _create_pad(self, series):
        out = np.full(_H_alloc, self.fill_value, np.float)
        out[:_H_hi] = np.asarray(series)
        return out
''' % {"rows": ROWS}


def _padder(repo, d):
    m, rev, aev = site(repo, "sktime/transformations/panel/padder.py", "PaddingTransformer",
                       PAD_REF, ["fit", "transform"])
    X = E(aev, "check_X(X, coerce_to_pandas=True)", X=("s", "X"))
    mx = E(aev, "max(max(len(s) for s in row) for row in %s)" % ROWS, X=X)
    cell = abv(m, rev, "cell")
    h = m.holes
    d.addz("gen_pad_alloc", "L", "Z", zexpr(h["alloc"], zenv(L=attr("pad_length_"))))
    d.addz("gen_pad_copy_hi", "len", "Z", zexpr(h["hi"], zenv(len=E(aev, "len(c)", c=cell))))
    d.addz("gen_pad_reject", "mx L", "bool", zcmp(h["reject"], zenv(mx=mx, L=attr("pad_length_"))))


# ------------------------------------------------------------------------------------------------
# truncation.py

TRUNC_REF = '''
class Ref:
    def fit(self, X, y=None):
        X = check_X(X, coerce_to_pandas=True)
        if self.lower is None:
            self.lower_ = min(min(len(s) for s in row) for row in %(rows)s)
        else:
            self.lower_ = self.lower
        self._is_fitted = True
        return self

    def transform(self, X, y=None):
        self.check_is_fitted()
        X = check_X(X, coerce_to_pandas=True)
        rows = %(rows)s
        if _H_reject:
            raise ValueError("")
        if self.upper is None:
            idxs = np.arange(_H_none_stop)
        else:
            idxs = np.arange(_H_start, _H_stop)
        return pd.DataFrame(
            [pd.Series([pd.Series(cell).iloc[idxs] for cell in row]) for row in rows])
''' % {"rows": ROWS}


def _truncation(repo, d):
    m, rev, aev = site(repo, "sktime/transformations/panel/truncation.py",
                       "TruncationTransformer", TRUNC_REF, ["fit", "transform"])
    X = E(aev, "check_X(X, coerce_to_pandas=True)", X=("s", "X"))
    mn = E(aev, "min(min(len(s) for s in row) for row in %s)" % ROWS, X=X)
    env = zenv(mn=mn, lo=attr("lower_"), u=attr("upper"))
    h = m.holes
    d.addz("gen_trunc_reject", "mn lo", "bool", zcmp(h["reject"], env))
    d.addz("gen_trunc_none_stop", "lo", "Z", zexpr(h["none_stop"], env))
    d.addz("gen_trunc_start", "lo u", "Z", zexpr(h["start"], env))
    d.addz("gen_trunc_stop", "lo u", "Z", zexpr(h["stop"], env))


# ------------------------------------------------------------------------------------------------
# interpolate.py

INTERP_REF = '''
class Ref:
    def _resize_cell(self, cell):
        f = interpolate.interp1d(list(np.linspace(_H_klo, _H_khi, _H_knum)), np.asarray(cell))
        return f(np.linspace(_H_qlo, _H_qhi, _H_qnum))

    def _resize_col(self, coll):
        return coll.apply(self._resize_cell)

    def transform(self, X, y=None):
        self.check_is_fitted()
        X = check_X(X, coerce_to_pandas=True)
        return X.apply(self._resize_col)
'''


def _interpolate(repo, d):
    m, rev, aev = site(repo, "sktime/transformations/panel/interpolate.py", "TSInterpolator",
                       INTERP_REF, ["transform"])
    cell = abv(m, rev, "cell")
    env = zenv(n=E(aev, "len(c)", c=cell), m=attr("length"))
    for nm in ("knot_lo", "knot_hi", "knot_num", "query_lo", "query_hi", "query_num"):
        hole = nm[0] + nm.split("_")[1]
        d.addz("gen_interp_" + nm, "n m", "Z", zexpr(m.holes[hole], env))


# ------------------------------------------------------------------------------------------------
# segment.py

ISEG_REF = '''
class Ref:
    def fit(self, X, y=None):
        X = check_X(X, enforce_univariate=True, coerce_to_numpy=True)
        self.input_shape_ = X.shape[0], X.shape[1], X.shape[2]
        self._time_index = np.arange(X.shape[2])
        if isinstance(self.intervals, np.ndarray):
            self.intervals_ = list(self.intervals)
        elif isinstance(self.intervals, (int, np.integer)):
            if _H_reject:
                raise ValueError("")
            self.intervals_ = _H_stored
        else:
            raise ValueError("")
        self._is_fitted = True
        return self

    def transform(self, X, y=None):
        self.check_is_fitted()
        X = check_X(X, enforce_univariate=True, coerce_to_numpy=True)
        X = X.squeeze(1)
        column_names = _get_column_names(X)[0]
        Xt = pd.DataFrame(_concat_nested_arrays(
            [X[:, _H_lo:_H_hi] for interval in self.intervals_]))
        Xt.columns = [f"{column_names}_{_H_nlo}_{_H_nhi}" for ival in self.intervals_]
        return Xt
'''


def _interval_segmenter(repo, d):
    m, rev, aev = site(repo, "sktime/transformations/panel/segment.py", "IntervalSegmenter",
                       ISEG_REF, ["fit", "transform"])
    h = m.holes
    X = E(aev, "check_X(X, enforce_univariate=True, coerce_to_numpy=True)", X=("s", "X"))
    n = E(aev, "X.shape[2]", X=X)
    d.addz("gen_iseg_reject", "k n", "bool", zcmp(h["reject"], zenv(k=attr("intervals"), n=n)))
    # the stored intervals as a function of a chunk of consecutive indices
    split = E(aev, "np.array_split(np.arange(n), self.intervals)", n=n)
    st = h["stored"]
    if canon(st) == canon(split):
        stored = None                                     # the stored interval IS the chunk
    else:
        _need(st[0] == "comp" and canon(st[3]) == canon(split) and not st[4]
              and st[2][0] == "call" and st[2][1] == ("a", ("s", "np"), "array")
              and len(st[2][2]) == 1 and not st[2][3] and st[2][2][0][0] == "l"
              and len(st[2][2][0][1]) == 2,
              "self.intervals_ = [np.array([start, end]) for chunk in np.array_split(..)]", st)
        chunk = ("bv", st[1])
        cenv = zenv(first=("i", chunk, C(0)), last=("i", chunk, C(-1)))
        stored = [zexpr(e, cenv) for e in st[2][2][0][1]]
    # the slice bounds of transform as a function of a stored interval
    iv, ivn = abv(m, rev, "interval"), abv(m, rev, "ival")
    for a, b in (("lo", "nlo"), ("hi", "nhi")):
        _need(canon(subst(h[b], {ivn: iv})) == canon(h[a]),
              "the column names use the slice bounds", h[b])
    if stored is None:
        senv = zenv(first=("i", iv, C(0)), last=("i", iv, C(-1)))
    else:
        senv = {canon(("i", iv, C(0))): stored[0], canon(("i", iv, C(-1))): stored[1],
                canon(("i", iv, C(1))): stored[1]}
    d.addz("gen_iseg_start", "first last", "Z", zexpr(h["lo"], senv))
    d.addz("gen_iseg_end", "first last", "Z", zexpr(h["hi"], senv))


SLIDE_REF = '''
class Ref:
    def transform(self, X, y=None):
        self.check_is_fitted()
        X = check_X(X, enforce_univariate=True, coerce_to_numpy=True)
        X = X.squeeze(1)
        n_timepoints = X.shape[1]
        n_instances = X.shape[0]
        self._check_parameters(n_timepoints)
        padded_data = np.zeros((n_instances, _H_padded_len))
        for i in range(n_instances):
            padded_data[i] = np.pad(X[i], _H_pad, mode="edge")
        subsequences = np.zeros((n_instances, n_timepoints, self.window_length))
        for i in range(n_instances):
            subsequences[i] = np.lib.stride_tricks.as_strided(
                _AS("inst", padded_data[i]), shape=(_H_rows, _H_cols), strides=(_H_s0, _H_s1))
        df = pd.DataFrame()
        for i in range(len(subsequences)):
            df[i] = [pd.Series(subsequences[i][j]) for j in range(len(subsequences[i]))]
        return df.transpose()

    def _check_parameters(self, n_timepoints):
        if isinstance(self.window_length, int):
            if _H_wreject:
                raise ValueError("")
        else:
            raise TypeError("")
'''


def _sliding(repo, d):
    m, rev, aev = site(repo, "sktime/transformations/panel/segment.py",
                       "SlidingWindowSegmenter", SLIDE_REF, ["transform"])
    h = m.holes
    X = E(aev, "check_X(X, enforce_univariate=True, coerce_to_numpy=True).squeeze(1)",
          X=("s", "X"))
    n = E(aev, "X.shape[1]", X=X)
    env = zenv(w=attr("window_length"), n=n)
    d.addz("gen_slide_pad", "w", "Z", zexpr(h["pad"], env))
    env2 = dict(env)
    env2[canon(h["pad"])] = "pad"
    d.addz("gen_slide_padded_len", "n pad", "Z", zexpr(h["padded_len"], env2))
    d.addz("gen_slide_rows", "n w", "Z", zexpr(h["rows"], env))
    d.addz("gen_slide_cols", "n w", "Z", zexpr(h["cols"], env))
    unit = {canon(("a", h["inst"], "itemsize")): "(1)"}       # strides in units of one item
    d.addz("gen_slide_stride0", "n w", "Z", zexpr(h["s0"], unit))
    d.addz("gen_slide_stride1", "n w", "Z", zexpr(h["s1"], unit))
    d.addz("gen_slide_reject", "w", "bool", zcmp(h["wreject"], env))


# ------------------------------------------------------------------------------------------------
# _paa.py

PAA_REF = '''
class Ref:
    def transform(self, X, y=None):
        self.check_is_fitted()
        X = check_X(X, enforce_univariate=False, coerce_to_pandas=True)
        num_atts = len(X.iloc[0, 0])
        self._check_parameters(num_atts)
        result = pd.concat([self._along(pd.DataFrame(X[col])) for col in X.columns],
                           axis=1, sort=False)
        result.columns = X.columns
        return result

    def _along(self, X):
        dims = pd.DataFrame()
        dims[0] = [pd.Series(_H_frames) for inst in _AS(
            "x2", from_nested_to_2d_array(X, return_numpy=True))]
        return dims

    def _check_parameters(self, num_atts):
        if isinstance(self.num_intervals, int):
            if _H_low:
                raise ValueError("")
            if _H_high:
                raise ValueError("")
        else:
            raise TypeError("")
'''


def _paa(repo, d):
    m, rev, aev = site(repo, "sktime/transformations/panel/dictionary_based/_paa.py", "PAA",
                       PAA_REF, ["transform"])
    h = m.holes
    X = E(aev, "check_X(X, enforce_univariate=False, coerce_to_pandas=True)", X=("s", "X"))
    env = zenv(m=attr("num_intervals"), na=E(aev, "len(X.iloc[0, 0])", X=X))
    d.addz("gen_paa_reject_low", "m na", "bool", zcmp(h["low"], env))
    d.addz("gen_paa_reject_high", "m na", "bool", zcmp(h["high"], env))

    x2, series = h["x2"], abv(m, rev, "inst")        # one series = one row of the 2-d array
    na = E(aev, "x2.shape[1]", x2=x2)
    fr = h["frames"]
    # result = frames + [tail] if counter == m - 1 else frames : identifies the roles
    _need(fr[0] == "if" and fr[1][0] == "cmp" and fr[1][1] == "Eq" and fr[2][0] == "app"
          and fr[2][1] == fr[3] and fr[3][0] == "fo",
          "per-series result: frames (+ the lost last frame)", fr)
    fold, kf = fr[3][1], fr[3][2]
    _need(fold[0] == "fold" and len(fold[3]) in (3, 4),
          "a loop over the frames, (a frame counter,) the frame size and the frame sum", fold)
    fid, bid = fold[5], fold[1]
    nstate = len(fold[3])
    # the lost-frame test compares the number of completed frames: a counter kept by the loop, or
    # the length of the list of frames (the model keeps a counter; Bridge.v proves that it IS the
    # length of the list)
    cnt = [x for x in (fr[1][2], fr[1][3]) if x[0] == "fo" and x[1] == fold]
    lenfr = E(aev, "len(f)", f=fr[3])
    if nstate == 4:
        _need(len(cnt) == 1, "the lost-frame test compares one loop counter", fr[1])
        kc, counter = cnt[0][2], cnt[0]
    else:
        _need(not cnt and lenfr in (fr[1][2], fr[1][3]),
              "the lost-frame test compares the number of frames", fr[1])
        kc, counter = None, lenfr
    tail = fr[2][2]
    nums = [x for x in walk(tail) if is_term(x) and x[0] == "fo" and x[1] == fold]
    _need(len(nums) == 1, "the tail uses one accumulated sum", tail)
    ks = nums[0][2]
    roles = {kf, ks} | ({kc} if kc is not None else set())
    _need(len(roles) == nstate - 1, "distinct roles", fr)
    kz = (set(range(nstate)) - roles).pop()
    init = fold[3]
    _need(init[kf] == ("l", ()) and init[ks] == C(0) and init[kz] == C(0)
          and (kc is None or init[kc] == C(0)),
          "initial state: no frames, zero counter / size / sum", init)
    # the loop visits every time point of the series: by value, or by index 0..num_atts-1
    if fold[2] == series:
        value = ("bv", bid)
    else:
        _need(canon(fold[2]) == canon(E(aev, "range(n)", n=na)),
              "the loop runs over every time point", fold[2])
        value = ("i", series, ("bv", bid))
    # frame length: the one sub-term of the tail that is not loop state
    fl = E(aev, "n / self.num_intervals", n=na)
    _need(has(tail, lambda x: is_term(x) and canon(x) == canon(fl)),
          "frame_length = num_atts / self.num_intervals", tail)
    d.q.append("Definition gen_paa_len (na m : Q) : Q := %s.\n"
               % qexpr(fl, zenv(na=na, m=attr("num_intervals"))))
    d.addz("gen_paa_last", "cur m", "bool",
           zcmp(fr[1], {canon(counter): "cur", canon(attr("num_intervals")): "m"}))
    d.q.append("Definition gen_paa_tail (s L : Q) : Q := %s.\n"
               % qexpr(tail, {canon(nums[0]): "s", canon(fl): "L"}))
    qenv = {canon(("st", fid, kz)): "(sz st)", canon(("st", fid, ks)): "(sm st)",
            canon(fl): "L", canon(value): "x"}
    lenv = {canon(("st", fid, kf)): "(fr st)", "@q": qenv}
    outs = fold[4]
    frames_out = qlistexpr(outs[kf], lenv)
    if kc is not None:
        cur_out = natexpr(outs[kc], {canon(("st", fid, kc)): "(cur st)", "@q": qenv})
    else:
        cur_out = "(length %s)" % frames_out         # the number of completed frames
    d.q.append("Definition gen_paa_step (L : Q) (st : paa_st) (x : Q) : paa_st :=\n"
               "  {| fr := %s;\n     cur := %s;\n     sz := %s;\n     sm := %s |}.\n"
               % (frames_out, cur_out, qexpr(outs[kz], qenv), qexpr(outs[ks], qenv)))


# ------------------------------------------------------------------------------------------------
# summarize/_extract.py : RandomIntervalFeatureExtractor.transform
# (nested loops with a running column counter and a try / except: handled on the AST, with the
#  evaluator used for every expression, so that names and temporaries do not matter)


def _rife(repo, d):
    mod = _load(repo, "sktime/transformations/panel/summarize/_extract.py")
    ev = Ev(mod, "RandomIntervalFeatureExtractor")
    fn = ev.methods.get("transform")
    _need(fn is not None, "RandomIntervalFeatureExtractor.transform is missing")
    body = [s for s in fn.body if not (isinstance(s, ast.Expr) and isinstance(s.value, ast.Constant))]
    loops = [k for k, s in enumerate(body) if isinstance(s, ast.For)]
    _need(len(loops) == 1, "one top-level loop nest")
    env = {"@eff": ("l", ()), "self": SELF, "X": ("s", "X"), "y": ("s", "y")}
    ev.raises, ev.path = [], []
    tree = ev.block(body[:loops[0]], env)
    _need(tree[0] == "node" or tree[0] == "fall", "prefix of the loop nest")
    # the prefix may contain the guard `if X.shape[1] != ...: raise`; take the falling leaf
    while tree[0] == "node":
        tree = tree[3] if tree[2][0] == "raise" else tree[2]
    _need(tree[0] == "fall", "prefix of the loop nest falls through")
    env = tree[1]
    _need(any(e == "ValueError" and any(
        has(a, lambda x: x == ("a", SELF, "input_shape_")) for a, _ in pth)
        for pth, e in ev.raises), "the shape guard before the loops")
    X = E(ev, "check_X(X, enforce_univariate=True, coerce_to_numpy=True)", X=("s", "X"))
    ivs = attr("intervals_")
    feats = None
    outer = body[loops[0]]
    _need(not outer.orelse, "for ... else")
    # the iteration plan: (iterated term, target) from the outside in, the statements executed per
    # (feature, interval) pair, and how the column counter is kept.  Accepted: two nested loops,
    # or ONE loop over itertools.product(outer, inner) (= the same nesting); the counter is a
    # variable advanced by hand or the index of enumerate(..).
    enum_counter = None
    it0, tg0 = ev.expr(outer.iter, env), outer.target
    if it0[0] == "call" and it0[1] == ("s", "enumerate") and len(it0[2]) == 1 and not it0[3]:
        _need(isinstance(tg0, ast.Tuple) and len(tg0.elts) == 2
              and isinstance(tg0.elts[0], ast.Name), "for i, .. in enumerate(..)")
        enum_counter, tg0, it0 = tg0.elts[0].id, tg0.elts[1], it0[2][0]
    if it0[0] == "call" and it0[1] in (("s", "product"), ("a", ("s", "itertools"), "product")) \
            and len(it0[2]) == 2 and not it0[3]:
        _need(isinstance(tg0, ast.Tuple) and len(tg0.elts) == 2, "for a, b in product(A, B)")
        plan = [(it0[2][0], tg0.elts[0]), (it0[2][1], tg0.elts[1])]
        pair_body = outer.body
    else:
        _need(enum_counter is None and len(outer.body) == 1 and isinstance(outer.body[0], ast.For)
              and not outer.body[0].orelse, "two nested loops")
        inner = outer.body[0]
        plan = [(it0, tg0), (ev.expr(inner.iter, env), inner.target)]
        pair_body = inner.body
    kinds = []
    lenv = dict(env)
    for it, target in plan:
        if canon(it) != canon(ivs) and isinstance(target, ast.Name) and feats is None:
            # the other loop: its variable is the feature function applied to the interval
            # (checked below: `func(interval, axis=-1)`), whatever validated list it runs over
            _need(has(it, lambda x: x == ("a", SELF, "features")),
                  "the feature loop runs over (the validated) self.features", it)
            feats = it
            kinds.append("F")
            lenv[target.id] = ("s", "@func")
        elif canon(it) == canon(ivs):
            _need(isinstance(target, ast.Tuple) and len(target.elts) == 2
                  and all(isinstance(e, ast.Name) for e in target.elts),
                  "for start, end in intervals")
            kinds.append("V")
            lenv[target.elts[0].id] = ("s", "@a")
            lenv[target.elts[1].id] = ("s", "@b")
        else:
            raise Unsupported("loop over " + show(it))
    _need(sorted(kinds) == ["F", "V"], "loops over the features and over the intervals")
    # the output array and its running column counter
    xt = [k for k, v in env.items() if is_term(v) and v[0] == "call"
          and v[1] == ("a", ("s", "np"), "zeros")]
    _need(len(xt) == 1, "one np.zeros output array")
    alloc = env[xt[0]]
    _need(len(alloc[2]) == 1 and alloc[2][0][0] == "t" and len(alloc[2][0][1]) == 2
          and canon(alloc[2][0][1][0]) == canon(E(ev, "X.shape[0]", X=X)),
          "np.zeros((n_instances, width))", alloc)
    d.addz("gen_rife_width", "nf ni", "Z",
           zexpr(alloc[2][0][1][1], zenv(nf=E(ev, "len(f)", f=feats), ni=E(ev, "len(v)", v=ivs))))
    # inner body: temporaries, one try writing column <counter>, counter += 1, a column name
    counter, lo_hi, wrote, named = None, None, 0, 0
    for st in pair_body:
        if isinstance(st, ast.Assign) and all(
                isinstance(n, (ast.Name, ast.Tuple, ast.Store)) for t in st.targets
                for n in ast.walk(t)):
            v = ev.expr(st.value, lenv)
            for tg in st.targets:
                ev.assign(tg, v, lenv)
        elif isinstance(st, ast.Try):
            _need(len(st.body) == 1 and not st.orelse and not st.finalbody, "try: one statement")
            writes = [n for n in ast.walk(st) if isinstance(n, ast.Assign)]
            _need(len(writes) == 2, "the optimised and the row-wise computation")
            cols = set()
            for w in writes:
                tg = w.targets[0]
                _need(isinstance(tg, ast.Subscript) and isinstance(tg.value, ast.Name)
                      and tg.value.id == xt[0] and isinstance(tg.slice, ast.Tuple)
                      and len(tg.slice.elts) == 2 and ast.unparse(tg.slice.elts[0]) == ":"
                      and isinstance(tg.slice.elts[1], ast.Name), "Xt[:, counter] = ...", w)
                cols.add(tg.slice.elts[1].id)
            _need(len(cols) == 1, "both computations write the same column")
            counter = cols.pop()
            v0 = ev.expr(writes[0].value, lenv)
            v1 = ev.expr(writes[1].value, lenv)
            _need(v0[0] == "call" and v0[1][0] == "a" and v0[1][2] == "squeeze"
                  and v0[1][1][0] == "call" and v0[1][1][1] == ("s", "@func")
                  and len(v0[1][1][2]) == 1, "func(interval, axis=-1).squeeze()", v0)
            interval = v0[1][1][2][0]
            _need(canon(v1) == canon(E(ev, "np.apply_along_axis(f, axis=2, arr=iv).squeeze()",
                                       f=("s", "@func"), iv=interval)),
                  "row-wise fallback computes the same feature of the same interval", v1)
            _need(interval[0] == "i" and canon(interval[1]) == canon(X) and interval[2][0] == "t"
                  and len(interval[2][1]) == 3
                  and interval[2][1][0] == ("sl", NONE, NONE, NONE)
                  and interval[2][1][1] == ("sl", NONE, NONE, NONE)
                  and interval[2][1][2][0] == "sl" and interval[2][1][2][3] == NONE,
                  "interval = X[:, :, lo:hi]", interval)
            lo_hi = interval[2][1][2][1:3]
            wrote += 1
        elif isinstance(st, ast.AugAssign):
            _need(isinstance(st.target, ast.Name) and isinstance(st.op, ast.Add)
                  and ev.expr(st.value, lenv) == C(1), "counter += 1", None)
            _need(counter is None or st.target.id == counter, "the column counter advances")
            counter = counter or st.target.id
            named += 1
        elif isinstance(st, ast.Expr) and isinstance(st.value, ast.Call) \
                and isinstance(st.value.func, ast.Attribute) and st.value.func.attr == "append":
            pass                                      # column label
        else:
            raise Unsupported("statement in the feature loop: " + ast.unparse(st).split("\n")[0])
    if enum_counter is not None:
        _need(wrote == 1 and named == 0 and counter == enum_counter,
              "one write per (feature, interval) at the index of enumerate(..)")
    else:
        _need(wrote == 1 and named == 1 and counter is not None and env.get(counter) == C(0),
              "one write per (feature, interval) at a counter that starts at 0 and advances by 1")
    env2 = zenv(a=("s", "@a"), b=("s", "@b"))
    d.addz("gen_rife_lo", "a b", "Z", zexpr(lo_hi[0], env2))
    d.addz("gen_rife_hi", "a b", "Z", zexpr(lo_hi[1], env2))
    # the counter advances once per inner iteration: position = outer * n_inner + inner
    d.addz("gen_rife_pos", "nf ni f v", "Z",
           "((f * ni) + v)" if kinds[0] == "F" else "((v * nf) + f)")


# ------------------------------------------------------------------------------------------------
# series/impute.py

IMPUTE_REF = '''
class Ref:
    def transform(self, Z, X=None):
        self.check_is_fitted()
        self._check_method()
        Z = check_series(Z)
        if self.missing_values:
            Z = Z.replace(to_replace=self.missing_values, value=np.nan)
        if self.method == "random":
            if isinstance(Z, pd.DataFrame):
                Z = Z.copy()
                for col in Z:
                    Z[col] = Z[col].apply(
                        lambda i: self._get_random(Z[col]) if np.isnan(i) else i)
            else:
                Z = Z.apply(lambda i: self._get_random(Z) if np.isnan(i) else i)
        elif self.method == "constant":
            Z = Z.fillna(value=self.value)
        elif self.method in ["backfill", "bfill", "pad", "ffill"]:
            Z = Z.fillna(method=self.method)
        elif self.method in ["drift", "forecaster"]:
            if self.method == "forecaster":
                forecaster = clone(self.forecaster)
            else:
                forecaster = PolynomialTrendForecaster(degree=1)
            fh_ins = -np.arange(len(Z))
            if isinstance(Z, pd.DataFrame):
                Z = Z.copy()
                for col in Z:
                    forecaster.fit(y=_H_fit_col)
                    Z[col] = _H_into_col.fillna(value=forecaster.predict(fh=fh_ins))
            else:
                forecaster.fit(y=_H_fit)
                Z = _H_into.fillna(value=forecaster.predict(fh=fh_ins))
        elif self.method == "mean":
            Z = Z.fillna(value=Z.mean())
        elif self.method == "median":
            Z = Z.fillna(value=Z.median())
        elif self.method in ["nearest", "linear"]:
            Z = Z.interpolate(method=self.method)
        else:
            raise ValueError("")
        return Z.fillna(method="ffill").fillna(method="backfill")

    def _check_method(self):
        if (self.value is not None and self.method != "constant"
                or self.method == "constant" and self.value is None):
            raise ValueError("")
        elif (self.forecaster is not None and self.method != "forecaster"
                or self.method == "forecaster" and self.forecaster is None):
            raise ValueError("")

    def _get_random(self, Z):
        rng = check_random_state(self.random_state)
        if (Z.dropna() % 1 == 0).all():
            return rng.randint(Z.min(), Z.max())
        else:
            return rng.uniform(Z.min(), Z.max())
'''


def _impute(repo, d):
    m, rev, aev = site(repo, "sktime/transformations/series/impute.py", "Imputer", IMPUTE_REF,
                       ["transform"])
    h = m.holes
    zin = E(aev, "z.replace(to_replace=self.missing_values, value=np.nan) "
                 "if self.missing_values else z", z=E(aev, "check_series(Z)", Z=("s", "Z")))
    filled = E(aev, "z.fillna(method='ffill').fillna(method='backfill')", z=zin)
    col = abv(m, rev, "col")

    def src(t, column):
        if column:
            _need(t[0] == "i" and t[2] == col, "a column of the frame", t)
            t = t[1]
        while t[0] == "call" and t[1][0] == "a" and t[1][2] == "copy" and not t[2] and not t[3]:
            t = t[1][1]
        if canon(t) == canon(zin):
            return "ZOriginal"
        if canon(t) == canon(filled):
            return "ZFilledCopy"
        raise Unsupported("drift branch works on unknown data: " + show(t)[:300])
    fit_on, fill_into = src(h["fit"], False), src(h["into"], False)
    _need(src(h["fit_col"], True) == fit_on and src(h["into_col"], True) == fill_into,
          "the frame branch treats every column like the series branch")
    d.q.append("Inductive zsrc := ZOriginal | ZFilledCopy.\n"
               "Definition gen_drift_fit_on : zsrc := %s.\n"
               "Definition gen_drift_fill_into : zsrc := %s.\n" % (fit_on, fill_into))


# ------------------------------------------------------------------------------------------------
# panel/compose.py : row transformers and their factory

ROW_PREPARE = '''
    def _prepare(self, X):
        self.check_is_fitted()
        assert hasattr(self, "_valid_transformer_type")
        if self.check_transformer and not isinstance(
                self.transformer, self._valid_transformer_type):
            raise TypeError("")
        X = check_X(X, coerce_to_numpy=True)
        self.transformer_ = [clone(self.transformer) for _ in range(X.shape[0])]
        return X
'''

ROW_S2S_REF = '''
class Ref:
    def transform(self, X, y=None):
        X = self._prepare(X)
        return pd.concat(
            [from_2d_array_to_nested(self.transformer_[inst].fit_transform(_H_input).T).T
             for inst in range(X.shape[0])], axis=0)
''' + ROW_PREPARE

ROW_S2P_REF = '''
class Ref:
    def transform(self, X, y=None):
        X = self._prepare(X)
        Xt = np.zeros(X.shape[:2])
        for inst in range(X.shape[0]):
            Xt[inst] = self.transformer_[inst].fit_transform(_H_input)
        return pd.DataFrame(Xt)
''' + ROW_PREPARE

ROW_FACTORY_REF = '''
def make_row_transformer(transformer, transformer_type=None, **kwargs):
    if transformer_type is not None:
        if transformer_type not in ("series-to-series", "series-to-primitives"):
            raise ValueError("")
    else:
        if isinstance(transformer, _SeriesToSeriesTransformer):
            transformer_type = "series-to-series"
        elif isinstance(transformer, _SeriesToPrimitivesTransformer):
            transformer_type = "series-to-primitives"
        else:
            raise TypeError("")
    if transformer_type == "series-to-series":
        return SeriesToSeriesRowTransformer(transformer, **kwargs)
    else:
        return SeriesToPrimitivesRowTransformer(transformer, **kwargs)
'''


def _rows(repo, d):
    """every instance's clone of the wrapped transformer is applied to a FRESH per-instance object
    that is a function of X and the instance index only (X[i].T); a buffer shared by the
    iterations (generator helpers, np.copyto into one work array, ..) is not in the subset of the
    evaluator and fails closed"""
    rel = "sktime/transformations/panel/compose.py"
    out = []
    for cls, ref in (("SeriesToSeriesRowTransformer", ROW_S2S_REF),
                     ("SeriesToPrimitivesRowTransformer", ROW_S2P_REF)):
        m, rev, aev = site(repo, rel, cls, ref, ["transform"])
        X = E(aev, "check_X(X, coerce_to_numpy=True)", X=("s", "X"))
        inst = abv(m, rev, "inst")
        h = m.holes["input"]
        if canon(h) == canon(E(aev, "X[i].T", X=X, i=inst)):
            out.append("RowInstanceT")
        elif canon(h) == canon(E(aev, "X[i]", X=X, i=inst)):
            out.append("RowInstance")
        else:
            raise Unsupported("row transformer input is not X[i].T: " + show(h)[:300])
    site(repo, rel, None, ROW_FACTORY_REF, ["make_row_transformer"])
    d.q.append("Inductive rowsrc := RowInstanceT | RowInstance.\n"
               "Definition gen_row_s2s_input : rowsrc := %s.\n"
               "Definition gen_row_s2p_input : rowsrc := %s.\n" % tuple(out))


HEADER = """(* GENERATED by translator/closedform_c14.py from the sktime sources -- do not edit.
   Index arithmetic, the PAA loop body and the drift data flow of the closed-form transformers. *)
From Coq Require Import QArith ZArith List Bool.
Require Import SkV.C14.Model.
Import ListNotations.

Open Scope Z_scope.
"""


def translate(repo):
    d = Defs()
    _padder(repo, d)
    _truncation(repo, d)
    _interpolate(repo, d)
    _interval_segmenter(repo, d)
    _sliding(repo, d)
    _paa(repo, d)
    _rife(repo, d)
    _impute(repo, d)
    _rows(repo, d)
    out = [HEADER]
    for name, params, ty, body in d.z:
        out.append("Definition %s (%s : Z) : %s := %s.\n" % (name, params, ty, body))
    out.append("\nClose Scope Z_scope.\nOpen Scope Q_scope.\n")
    out += d.q
    return {"C14/Gen.v": "".join(out)}


if __name__ == "__main__":
    import sys
    sys.path.insert(0, os.path.dirname(os.path.dirname(os.path.abspath(__file__))))
    print(translate(sys.argv[1] if len(sys.argv) > 1 else "/repo")["C14/Gen.v"])
