"""C17: regenerate the COMBINATION sites of the classifiers as Gallina (C17/Sites.v).

A fail-closed extractor BY SYMBOLIC EXECUTION (translator/symexec_c19.py) over the functions in
which the classifiers turn their fitted members' outputs into probabilities and labels:

  classification/interval_based/_tsf.py    TimeSeriesForestClassifier.predict_proba / predict, _predict_proba
  classification/interval_based/_rise.py   RandomIntervalSpectralForest.predict_proba / predict
  classification/interval_based/_stsf.py   SupervisedTimeSeriesForest.predict_proba / predict /
                                           _predict_proba_for_estimator (placement of a tree's columns)
  regression/interval_based/_tsf.py        TimeSeriesForestRegressor.predict, _predict
  classification/compose/_column_ensemble.py  predict_proba, _collect_probas, predict
  classification/dictionary_based/_boss.py    BOSSEnsemble.predict_proba, IndividualBOSS.predict_proba
  classification/dictionary_based/_cboss.py   ContractableBOSS.predict_proba (+ the member weight in fit)
  classification/base.py                      BaseClassifier.predict / score
  series_as_features/base/estimators/interval_based/_tsf.py   _transform, _get_intervals

The functions are executed on symbolic values (input X, self): validation that only raises
(check_is_fitted, check_X, squeeze, the series-length test) is followed on its non-raising path
wherever it sits - inline or in a helper of the class or of a base class in another file; local
names are an environment; `delayed(f)(args)` is f(args); helpers are inlined.  The VALUE a function
returns (the division after the sum, what is summed, which tree is paired with which intervals,
which label a column index decodes to, where a bootstrap tree's columns go, the vote increment and
the normaliser, the feature order, the interval arithmetic) is translated into Gallina definitions;
coq/C17/BridgeSites.v proves them equal to the model for all arguments, so an edit of one of them
breaks a proof obligation and not only sampled runs.  Pinned by statement text only: the facts of
the (long, loop-heavy) `fit` methods that the vote counters rely on (classes_, class_dictionary,
n_estimators, weight_sum, the member weight) - collected from ALL assignments to those attributes.
"""
import ast
import os
from fractions import Fraction

from . import symexec_c19
from .pyz import Unsupported  # noqa: F401
from .symexec_c19 import (C, Ctx, Exec, NONE, SLICE_ALL, _fail, _params, _u, collapse, fn_of, is_neutral,  # noqa: F401
                          kwget, leaves, show, straight)

P_TSF = "sktime/classification/interval_based/_tsf.py"
P_RISE = "sktime/classification/interval_based/_rise.py"
P_STSF = "sktime/classification/interval_based/_stsf.py"
P_REG = "sktime/regression/interval_based/_tsf.py"
P_COL = "sktime/classification/compose/_column_ensemble.py"
P_BOSS = "sktime/classification/dictionary_based/_boss.py"
P_CBOSS = "sktime/classification/dictionary_based/_cboss.py"
P_BASE = "sktime/classification/base.py"
P_FBASE = "sktime/series_as_features/base/estimators/interval_based/_tsf.py"

X = ("param", "X")
SELF = ("self",)


def sattr(name):
    return ("attr", SELF, name)


# ------------------------------------------------------------------------------------------------
# symbolic reading of validation / numpy plumbing

def _hook(t):
    if t[0] == "call":
        n = fn_of(t)
        if t[1][0] == "call" and t[1][1] == ("global", "delayed") and len(t[1][2]) == 1 and not t[1][3]:
            return _hook(("call", t[1][2][0], t[2], t[3]))      # delayed(f)(args) is f(args), run later
        if n == "check_X" and t[2] and t[2][0] == X:
            return X                                   # the validated panel: the same data
        if t[1] == ("attr", X, "squeeze") and list(t[2]) == [C(1)] and not t[3]:
            return X                                   # (n, 1, m) -> (n, m): the same series
        if n == "np.asarray" and len(t[2]) == 1 and not t[3]:
            return t[2][0]
        if n == "int" and len(t[2]) == 1 and not t[3]:
            return t[2][0]
    return t


VALIDATION_NEUTRAL = {"self.check_is_fitted", "check_X", "X.squeeze", "_partition_estimators", "Parallel",
                      "signal.periodogram", "np.diff", "range", "np.ones", "np.zeros", "np.sum", "np.mean",
                      "np.average", "np.argmax", "enumerate", "delayed", "np.empty", "np.std", "_slope",
                      "np.searchsorted", "np.concatenate", "zip", "len", "max", "min"}


def main_path(node, what, neutral=()):
    """follow the execution past validation: at a fork one of whose sides only raises, take the
    other; -> (effects that are not neutral, terminal)"""
    effs = []
    while True:
        while node[0] == "eff":
            e = node[1]
            empty_loop = e[0] == "for" and straight_or_none(e[3]) == []      # a loop that only filled a list
            if not (is_neutral(e, VALIDATION_NEUTRAL) or is_neutral(e, neutral) or empty_loop):
                effs.append(e)
            node = node[2]
        if node[0] != "if":
            return effs, node
        a, b = _only_raises(node[2]), _only_raises(node[3])
        if a and not b:
            node = node[3]
        elif b and not a:
            node = node[2]
        else:
            _fail("%s: unexpected branching on %s" % (what, show(node[1])))


def straight_or_none(node):
    """the non-neutral effects of a loop body without branching, or None"""
    out = []
    while node[0] == "eff":
        if not is_neutral(node[1], VALIDATION_NEUTRAL):
            out.append(node[1])
        node = node[2]
    return out if node[0] in ("end", "cont") else None


def _only_raises(node):
    while node[0] == "eff" and is_neutral(node[1], VALIDATION_NEUTRAL):
        node = node[2]
    return node[0] == "raise"


def _run(ctx, name, params, what):
    fn = ctx.method(name) if ctx.methods else ctx.functions[name]
    names, _ = _params(fn, bool(ctx.methods) and name not in ctx.static)
    if names != params:
        _fail("%s signature %s" % (what, names), fn)
    env = {"self": SELF}
    env.update({n: ("param", n) for n in names})
    return Exec(ctx).run_function(fn, env)


def _ret(ctx, name, params, what, neutral=()):
    effs, term = main_path(_run(ctx, name, params, what), what, neutral)
    if term[0] != "ret":
        _fail("%s: must return a value" % what)
    used = set(_subterms(term[1]))
    def feeds_value(e):
        if e in used:
            return True
        if e[0] == "for":                 # a loop that only computed the elements of a list in the value
            b = straight_or_none(e[3])
            return b is not None and all(x in used for x in b)
        return False
    effs = [e for e in effs if not feeds_value(e)]     # calls whose results make up the value are not effects
    if effs:
        _fail("%s: unexpected operations %s" % (what, [show(e)[:80] for e in effs]))
    return term[1]


# ------------------------------------------------------------------------------------------------
# numeric combination values.  'M' = the members' rows for one instance, 'R' = one row, 'S' = scalar

def _members(t, what):
    """Parallel(...)(member(i) for i in range(self.n_estimators)) -> (member term, variable)"""
    if t[0] == "comp":
        comp = t
    elif t[0] == "call" and t[1][0] == "call" and fn_of(t[1]) == "Parallel" and len(t[2]) == 1 and not t[3] \
            and t[2][0][0] == "comp":
        comp = t[2][0]
    else:
        _fail("%s: the members must be computed one call per member (Parallel(...)(...) or a comprehension)" % what, t)
    _, elt, var, it = comp
    if it != ("call", ("global", "range"), (sattr("n_estimators"),), ()):
        _fail("%s: one member per i in range(self.n_estimators) expected" % what, it)
    return elt, var


def _comb(t, rows_term, what, k="k"):
    """-> (coq text, type) of a combination of the members' rows `rows_term`"""
    if t == rows_term:
        return "rows", "M"
    if t == sattr("n_estimators"):
        return "qlen rows", "S"
    if t[0] == "call":
        n = fn_of(t)
        kws = dict(t[3])
        if n in ("np.sum", "np.mean", "np.average") and len(t[2]) == 1 and kws == {"axis": C(0)}:
            a, ta = _comb(t[2][0], rows_term, what, k)
            if ta == "M":
                return ("(vsum %s %s)" if n == "np.sum" else "(mean_rows %s %s)") % (k, a), "R"
        if n == "np.ones" and list(t[2]) == [sattr("n_classes")] and not t[3]:
            return "1", "S"                 # a vector of ones broadcast against a row: the scalar 1
    if t[0] == "binop" and t[1] in ("Mult", "Div"):
        a, ta = _comb(t[2], rows_term, what, k)
        b, tb = _comb(t[3], rows_term, what, k)
        if ta == "S" and tb == "S":
            return "(%s %s %s)" % (a, "*" if t[1] == "Mult" else "/", b), "S"
        if ta == "R" and tb == "S" and t[1] == "Div":
            return "(map (fun s => s / %s) %s)" % (b, a), "R"
    _fail("%s: combination expression" % what, t)


def _forest(ctx, cls, what, member_of, found=None):
    """<cls>.predict_proba / predict -> combination text; member_of(variable) = the expected member term"""
    v = _ret(ctx, "predict_proba" if cls != "reg" else "predict", ["X"], what)
    rows = [x for x in _subterms(v) if x[0] == "call" and x[1][0] == "call" and fn_of(x[1]) == "Parallel"]
    if not rows:
        rows = [x for x in _subterms(v) if x[0] == "comp"
                and x[3] == ("call", ("global", "range"), (sattr("n_estimators"),), ())]
    if len(set(rows)) != 1:
        _fail("%s: exactly one list of members (one per i in range(self.n_estimators)) expected" % what, v)
    elt, var = _members(rows[0], what)
    if found is not None:
        found["elt"] = elt
    want = member_of(var)
    if elt != want:
        _fail("%s: member i is %s, expected %s" % (what, show(elt), show(want)))
    return _comb(v, rows[0], what)


def unproj(t):
    """a component taken by tuple unpacking is the component taken by indexing"""
    if not isinstance(t, tuple):
        return t
    if t and t[0] == "proj":
        return ("sub", unproj(t[1]), C(t[2]))
    return tuple(unproj(x) for x in t)


def _subterms(t):
    if isinstance(t, tuple):
        if t and isinstance(t[0], str):
            yield t
        for x in t:
            if isinstance(x, tuple):
                for y in _subterms(x):
                    yield y


def _decode(ctx, what):
    """predict of a forest: the label of the first maximal column of every row of predict_proba"""
    v = _ret(ctx, "predict", ["X"], what, neutral={"self.predict_proba"})
    proba = ("call", sattr("predict_proba"), (X,), ())
    if v[0] == "comp":
        comp = v
    elif v[0] == "call" and fn_of(v) in ("np.array",) and len(v[2]) == 1 and not v[3] and v[2][0][0] == "comp":
        comp = v[2][0]
    else:
        comp = v
    if comp[0] == "comp" and comp[3] == proba and comp[1] == ("sub", sattr("classes_"),
                                                              ("call", ("attr", ("global", "np"), "argmax"), (comp[2],), ())):
        return "nth_error classes (argmax_first row)"
    if v == ("sub", sattr("classes_"), ("call", ("attr", ("global", "np"), "argmax"), (proba,), (("axis", C(1)),))):
        return "nth_error classes (argmax_first row)"
    _fail("%s.predict is not classes_[argmax(row)] of every row of predict_proba" % what, v)


# ------------------------------------------------------------------------------------------------

def _stsf_place(ctx, name, est_param):
    """the method SupervisedTimeSeriesForest.predict_proba evaluates per tree (found through the
    member term, whatever it is called) -> where the tree's columns go"""
    fn = ctx.method(name)
    params, _ = _params(fn, True)
    node = collapse(_run(ctx, name, params, "the per-tree method of SupervisedTimeSeriesForest"))
    est = ("param", est_param)
    paths = []
    for effs, conds, term in leaves(node):
        effs = [e for e in effs if not is_neutral(e, VALIDATION_NEUTRAL | {"self._transform"})
                and not (e[0] == "call" and e[1] == ("attr", est, "predict_proba"))]
        paths.append((effs, conds, term))
    raw = None
    for effs, conds, term in paths:
        if term[0] != "ret":
            _fail("_predict_proba_for_estimator: must return on every path")
    # the tree's own row: estimator.predict_proba(<features>)
    cands = {t for p in paths for t in _subterms(p[2][1]) if t[0] == "call" and t[1] == ("attr", est, "predict_proba")}
    cands |= {t for p in paths for e in p[0] for t in _subterms(e) if t[0] == "call" and t[1] == ("attr", est, "predict_proba")}
    if len(cands) != 1:
        _fail("_predict_proba_for_estimator: exactly one estimator.predict_proba(...) expected")
    raw = cands.pop()
    if len(paths) == 1:
        if paths[0][0] or paths[0][2][1] != raw:
            _fail("_predict_proba_for_estimator: neither the tree's row as it is nor a placement", paths[0][2][1])
        return "row"                      # no placement (F-C17-1)
    ncls = sattr("n_classes")
    width = ("sub", ("attr", raw, "shape"), C(1))
    short_cond = {("cmp", "ne", width, ncls): True, ("cmp", "eq", width, ncls): False,
                  ("cmp", "lt", width, ncls): True, ("cmp", "ge", width, ncls): False}
    if len(paths) != 2:
        _fail("_predict_proba_for_estimator: one test of the tree's number of columns expected")
    seen = set()
    for effs, conds, term in paths:
        if len(conds) != 1 or conds[0][0] not in short_cond:
            _fail("_predict_proba_for_estimator: the test must compare proba.shape[1] with self.n_classes",
                  conds[0][0] if conds else None)
        short = short_cond[conds[0][0]] == conds[0][1]
        seen.add(short)
        if not short:
            if effs or term[1] != raw:
                _fail("_predict_proba_for_estimator: a tree that saw every class must contribute its row unchanged")
            continue
        if len(effs) != 1 or effs[0][0] != "setitem":
            _fail("_predict_proba_for_estimator: the short row must be written into a zero matrix", effs[0] if effs else None)
        _, base, idx, val = effs[0]
        pos = ("call", ("attr", ("global", "np"), "searchsorted"), (sattr("classes_"), ("attr", est, "classes_")), ())
        if not (fn_of(base) == "np.zeros" and len(base[2]) == 1 and base[2][0][0] == "tuple" and len(base[2][0][1]) == 2
                and base[2][0][1][1] == ncls and idx == ("tuple", (SLICE_ALL, pos)) and val == raw and term[1] == base):
            _fail("_predict_proba_for_estimator: the tree's columns must go to np.searchsorted(self.classes_, "
                  "estimator.classes_) of a zero matrix with n_classes columns", effs[0])
    if seen != {True, False}:
        _fail("_predict_proba_for_estimator: both outcomes of the column test expected")
    # searchsorted of a sorted sub-list of the sorted classes_ = the positions of its labels
    return "if Nat.eqb (length row) (length classes) then row else place_row eqb classes tcls row"


def _attr_assignments(mod, cls, attr):
    """texts of the values assigned to self.<attr> anywhere in the class outside __init__"""
    c = [n for n in mod.body if isinstance(n, ast.ClassDef) and n.name == cls][0]
    out = []
    for fn in c.body:
        if isinstance(fn, ast.FunctionDef) and fn.name != "__init__":
            for s in ast.walk(fn):
                if isinstance(s, ast.Assign) and any(_u(t) == "self." + attr for t in s.targets):
                    out.append(_u(s.value))
                if isinstance(s, ast.AugAssign) and _u(s.target) == "self." + attr:
                    out.append("<aug> " + _u(s.value))
    return out


def _canon(text):
    return ast.unparse(ast.parse(text))


def _class_dictionary_facts(mod, cls, what, extra):
    """what the vote counters rely on: classes_ = sorted distinct labels, class_dictionary[label] =
    its index in classes_, + `extra` {attribute: value text}"""
    want = {"classes_": "class_distribution(np.asarray(y).reshape(-1, 1))[0][0]"}
    want.update(extra)
    for a, v in want.items():
        got = _attr_assignments(mod, cls, a)
        if got != [_canon(v)[:]]:
            _fail("%s: self.%s is assigned %s, expected only %s" % (what, a, got, v))
    c = [n for n in mod.body if isinstance(n, ast.ClassDef) and n.name == cls][0]
    writes = []
    for fn in c.body:
        if isinstance(fn, ast.FunctionDef) and fn.name != "__init__":
            for s in ast.walk(fn):
                if isinstance(s, ast.For):
                    for b in s.body:
                        if isinstance(b, ast.Assign) and _u(b.targets[0]).startswith("self.class_dictionary["):
                            writes.append((_u(s.iter), _u(s.target), _u(b.targets[0]), _u(b.value)))
                elif isinstance(s, ast.Assign) and _u(s.targets[0]).startswith("self.class_dictionary") \
                        and not any(isinstance(p, ast.For) and s in p.body for p in ast.walk(fn)):
                    writes.append(("?", "?", _u(s.targets[0]), _u(s.value)))
    ok = len(writes) == 1 and writes[0][0] == "enumerate(self.classes_)"
    if ok:
        it, tgt, key, val = writes[0]
        names = [x.strip("() ") for x in tgt.split(",")]
        ok = len(names) == 2 and key == "self.class_dictionary[%s]" % names[1] and val == names[0]
    if not ok:
        _fail("%s: class_dictionary must be filled once, as {label: index for index, label in enumerate(classes_)}, "
              "found %s" % (what, writes))


def _votes(ctx, what, weighted):
    """BOSSEnsemble / ContractableBOSS.predict_proba -> normalisation text over
    (map (fun c => weight_for eqb c vs) classes)"""
    node = _run(ctx, "predict_proba", ["X"], what)
    effs, term = main_path(node, what, neutral={"clf.predict"})
    if term[0] != "ret":
        _fail("%s.predict_proba must return the rows" % what)
    n_inst = ("sub", ("attr", X, "shape"), C(0))
    loops = [e for e in effs if e[0] == "for"]
    if len(loops) != 1 or [e for e in effs if e[0] != "for"]:
        _fail("%s.predict_proba: one loop over the members expected, found %s" % (what, [show(e)[:60] for e in effs]))
    _, it, tgt, body, lv = loops[0]
    zipped = None
    if it == sattr("classifiers") and isinstance(tgt, str):
        member, position = lv, None
    elif it == ("call", ("global", "enumerate"), (sattr("classifiers"),), ()) and isinstance(tgt, tuple) and len(tgt) == 2:
        member, position = ("proj", lv, 1, 2), ("proj", lv, 0, 2)
    elif it == ("call", ("global", "zip"), (sattr("classifiers"), sattr("weights")), ()) and isinstance(tgt, tuple) \
            and len(tgt) == 2:
        member, position, zipped = ("proj", lv, 0, 2), None, ("proj", lv, 1, 2)
    else:
        _fail("%s.predict_proba: the loop must run over self.classifiers" % what, it)
    beffs, bterm = straight(body, what + " member loop", neutral=VALIDATION_NEUTRAL)
    preds = ("call", ("attr", member, "predict"), (X,), ())
    inner = [e for e in beffs if e[0] == "for"]
    if [e for e in beffs if e[0] != "for" and e != preds] or len(inner) != 1:
        _fail("%s: a member votes with its own predict(X), once per instance" % what)
    _, it2, tgt2, body2, lv2 = inner[0]
    if it2 in (("call", ("global", "range"), (n_inst,), ()), ("call", ("global", "range"), (C(0), n_inst), ())):
        row_i, label_i = lv2, ("sub", preds, lv2)
    elif it2 == ("call", ("global", "enumerate"), (preds,), ()) and isinstance(tgt2, tuple) and len(tgt2) == 2:
        row_i, label_i = ("proj", lv2, 0, 2), ("proj", lv2, 1, 2)          # (i, preds[i])
    else:
        _fail("%s: the votes must be counted for every instance of X" % what, it2)
    ieffs, iterm = straight(body2, what + " instance loop", neutral=VALIDATION_NEUTRAL)
    if len(ieffs) != 1 or ieffs[0][0] != "augitem" or ieffs[0][3] != "Add":
        _fail("%s: one `votes[i, column] += increment` per member and instance expected" % what)
    _, table, idx, _op, inc = ieffs[0]
    want_idx = ("tuple", (row_i, ("sub", sattr("class_dictionary"), label_i)))
    if idx != want_idx:
        _fail("%s: the vote of a member must go to column class_dictionary[its predicted label] of row i" % what, idx)
    if not (fn_of(table) == "np.zeros" and list(table[2]) == [("tuple", (n_inst, sattr("n_classes")))] and not table[3]):
        _fail("%s: the votes must be counted in a zero matrix of shape (instances, n_classes)" % what, table)
    want_inc = ("sub", sattr("weights"), position) if weighted else C(1)
    if weighted and position is None:
        want_inc = zipped if it[1] == ("global", "zip") else None     # the weight paired with the member
    if inc != want_inc:
        _fail("%s: vote increment %s, expected %s" % (what, show(inc), show(want_inc)))
    denom = sattr("weight_sum") if weighted else sattr("n_estimators")

    def norm(t):
        if t == table:
            return "(map (fun c => weight_for eqb c vs) classes)", "R"
        if t == denom:
            return "denom", "S"
        if t[0] == "call" and fn_of(t) == "np.ones" and list(t[2]) == [sattr("n_classes")] and not t[3]:
            return "1", "S"
        if t[0] == "binop" and t[1] in ("Mult", "Div"):
            a, ta = norm(t[2])
            b, tb = norm(t[3])
            if ta == "S" and tb == "S":
                return "(%s %s %s)" % (a, "*" if t[1] == "Mult" else "/", b), "S"
            if ta == "R" and tb == "S" and t[1] == "Div":
                return "(map (fun s => s / %s) %s)" % (b, a), "R"
        _fail("%s: normalisation" % what, t)
    txt, ty = norm(term[1])
    if ty != "R":
        _fail("%s: normalisation type" % what)
    return txt


def _cboss_weight(mod):
    """ContractableBOSS.fit: the weight a member votes with, as a function of its train accuracy"""
    fit = [f for c in mod.body if isinstance(c, ast.ClassDef) and c.name == "ContractableBOSS"
           for f in c.body if isinstance(f, ast.FunctionDef) and f.name == "fit"][0]
    base = _canon("weight = math.pow(boss.accuracy, 4)")
    alt = _canon("weight = boss.accuracy ** 4")
    hits = []
    for node in ast.walk(fit):
        for field in ("body", "orelse"):
            lst = getattr(node, field, None)
            if isinstance(lst, list):
                for i, st in enumerate(lst):
                    if isinstance(st, ast.stmt) and _u(st) in (base, alt):
                        hits.append((lst, i))
    if len(hits) != 1:
        _fail("ContractableBOSS.fit: `weight = math.pow(boss.accuracy, 4)` expected exactly once", fit)
    lst, i = hits[0]
    txt = "let w := acc * acc * acc * acc in "
    nxt = lst[i + 1] if i + 1 < len(lst) else None
    floor = None
    if isinstance(nxt, ast.If) and _u(nxt.test) in ("weight == 0", "weight <= 0", "not weight", "weight == 0.0"):
        a = nxt.body[0] if len(nxt.body) == 1 and not nxt.orelse else None
        if not (isinstance(a, ast.Assign) and _u(a.targets[0]) == "weight" and isinstance(a.value, ast.Constant)
                and isinstance(a.value.value, float) and a.value.value > 0):
            _fail("ContractableBOSS.fit: the replacement of a zero weight must be a positive constant", nxt)
        floor = Fraction(repr(a.value.value))
    allowed = [_canon(x) for x in ["self.weights = []", "self.weights.append(weight)",
                                   "self.weights[lowest_acc_idx] = weight",
                                   "self.weight_sum = np.sum(self.weights)"]] + [base, alt]
    for st in ast.walk(fit):
        if isinstance(st, (ast.Assign, ast.AugAssign, ast.Expr)):
            t = _u(st)
            if ("self.weights" in t or t.startswith("weight ") or t.startswith("weight=")) and t not in allowed \
                    and not (floor is not None and st in nxt.body):
                _fail("ContractableBOSS.fit: unexpected statement about the weights", st)
    if floor is None:
        return txt + "w"
    return txt + "if Qeq_bool w 0 then (%d # %d) else w" % (floor.numerator, floor.denominator)


def _iboss(ctx):
    node = _run(ctx, "predict_proba", ["X"], "IndividualBOSS.predict_proba")
    effs, term = main_path(node, "IndividualBOSS.predict_proba", neutral={"self.predict"})
    n_inst = ("sub", ("attr", X, "shape"), C(0))
    preds = ("call", sattr("predict"), (X,), ())
    loops = [e for e in effs if e[0] == "for"]
    if term[0] != "ret" or len(loops) != 1 or [e for e in effs if e[0] != "for"]:
        _fail("IndividualBOSS.predict_proba: one loop over the instances expected")
    _, it, tgt, body, lv = loops[0]
    if it in (("call", ("global", "range"), (n_inst,), ()), ("call", ("global", "range"), (C(0), n_inst), ())):
        row_i, lab = lv, ("sub", preds, lv)
    elif it == ("call", ("global", "enumerate"), (preds,), ()) and isinstance(tgt, tuple) and len(tgt) == 2:
        row_i, lab = ("proj", lv, 0, 2), ("proj", lv, 1, 2)            # (i, preds[i])
    else:
        _fail("IndividualBOSS.predict_proba: loop over the instances of X", it)
    ieffs, _t = straight(body, "IndividualBOSS loop", neutral=VALIDATION_NEUTRAL | {"self.class_dictionary.get"})
    if len(ieffs) != 1 or ieffs[0][0] != "augitem" or ieffs[0][3:] != ("Add", C(1)):
        _fail("IndividualBOSS.predict_proba: dists[i, column] += 1 expected")
    _, table, idx, _o, _i = ieffs[0]
    cols = (("call", ("attr", sattr("class_dictionary"), "get"), (lab,), ()), ("sub", sattr("class_dictionary"), lab))
    if idx not in [("tuple", (row_i, c)) for c in cols] or term[1] != table or not (
            fn_of(table) == "np.zeros" and list(table[2]) == [("tuple", (n_inst, sattr("num_classes")))]):
        _fail("IndividualBOSS.predict_proba is not the one-hot row of its own prediction", idx)
    return "map (fun c => if eqb pred c then 1 else 0) classes"


def _colens(ctx, mod):
    v = _ret(ctx, "predict_proba", ["X"], "column ensemble predict_proba", neutral={"self._iter", "_get_column"})
    comps = [t for t in _subterms(v) if t[0] == "comp"]
    if len(set(comps)) != 1:
        _fail("column ensemble: the members' rows must come from one comprehension over the members", v)
    comp = comps[0]
    _, elt, var, it = comp
    # the members: a generator method of the class (whatever its name) called with its flag set
    if not (it[0] == "call" and it[1][0] == "attr" and it[1][1] == SELF and it[1][2] in ctx.methods
            and list(it[2]) + [v for _k, v in it[3]] == [C(True)]):
        _fail("column ensemble: the members must come from a generator method of the class, called with its "
              "replace-strings flag set", it)
    ctx.members_generator = it[1][2]
    est, col = ("proj", var, 1, 3), ("proj", var, 2, 3)
    want = ("call", ("attr", est, "predict_proba"), (("call", ("global", "_get_column"), (X, col), ()),), ())
    if elt != want:
        _fail("column ensemble: every member must predict on its own column(s)", elt)
    rows = comp
    # np.asarray(list) is the list (hook)
    txt, ty = _comb(v, rows, "column ensemble")
    if ty != "R":
        _fail("column ensemble: combination type")
    p = _ret(ctx, "predict", ["X"], "column ensemble predict", neutral={"self.predict_proba", "self.le_.inverse_transform"})
    proba = ("call", sattr("predict_proba"), (X,), ())
    want_p = ("call", ("attr", sattr("le_"), "inverse_transform"),
              (("call", ("attr", ("global", "np"), "argmax"), (proba,), (("axis", C(1)),)),), ())
    if p != want_p:
        _fail("column ensemble predict is not le_.inverse_transform(argmax of every row)", p)
    if _attr_assignments(mod, "BaseColumnEnsembleClassifier", "le_") != ["LabelEncoder().fit(y)"] or \
            _attr_assignments(mod, "BaseColumnEnsembleClassifier", "classes_") != ["self.le_.classes_"]:
        _fail("column ensemble fit: le_ = LabelEncoder().fit(y); classes_ = le_.classes_ expected")
    return txt


def _colens_iter(ctx, gen_name):
    """BaseColumnEnsembleClassifier._iter: which entries are handed out -> (decision tree over
    replace_strings / estimator == 'drop' / empty column selection, does a fitted ensemble iterate
    over estimators_ only)"""
    ctx.primitives.discard(gen_name)
    params, _d = _params(ctx.method(gen_name), True)
    if len(params) != 1:
        _fail("the members' generator of the column ensemble must have one parameter (the flag)", ctx.method(gen_name))
    R = ("param", params[0])
    node = _run(ctx, gen_name, params, "column ensemble _iter")
    loops = []                       # (path conditions, iterable, body, loop variable)

    def walk(n, conds):
        while n[0] == "eff":
            e = n[1]
            if e[0] == "for":
                loops.append((list(conds), e[1], e[3], e[4]))
            elif not is_neutral(e, VALIDATION_NEUTRAL | {"chain"}) and e[0] != "for":
                _fail("column ensemble _iter: unexpected operation", e)
            n = n[2]
        if n[0] == "if":
            walk(n[2], conds + [(n[1], True)])
            walk(n[3], conds + [(n[1], False)])
        elif n[0] != "ret":
            _fail("column ensemble _iter: unexpected control flow")
    walk(node, [])
    if not loops or len({(repr(b), repr(lv)) for _c, _i, b, lv in loops}) != 1:
        _fail("column ensemble _iter: one loop that hands the entries out expected (the same on every path)")
    fitted = ("attr", SELF, "is_fitted")
    fitted_ok = None
    for conds, it, _b, _lv in loops:
        cd = dict(conds)
        if fitted not in cd:
            _fail("column ensemble _iter: the entries iterated over must depend on self.is_fitted")
        if cd[fitted]:
            ok = it == sattr("estimators_")
            fitted_ok = ok if fitted_ok is None else (fitted_ok and ok)
    if fitted_ok is None:
        _fail("column ensemble _iter: no path for a fitted ensemble")
    body, lv = loops[0][2], loops[0][3]
    est, col = ("proj", lv, 1, 3), ("proj", lv, 2, 3)
    atoms = {R: "replace", ("cmp", "eq", est, C("drop")): "is_drop",
             ("call", ("global", "_is_empty_column_selection"), (col,), ()): "is_empty"}
    whole = ("tuple", (("proj", lv, 0, 3), est, col))

    def cond(c):
        if c in atoms:
            return atoms[c]
        if c[0] == "not":
            return "(negb %s)" % cond(c[1])
        if c[0] in ("and", "or"):
            return "(" + (" && " if c[0] == "and" else " || ").join(cond(x) for x in c[1]) + ")"
        if c[0] == "cmp" and c[1] == "ne" and ("cmp", "eq", c[2], c[3]) in atoms:
            return "(negb %s)" % atoms[("cmp", "eq", c[2], c[3])]
        _fail("column ensemble _iter: condition", c)

    def tree(n, yielded):
        while n[0] == "eff":
            e = n[1]
            if e[0] == "yield":
                if e[1] != whole or yielded:
                    _fail("column ensemble _iter: an entry must be handed out once, as it is", e[1])
                yielded = True
            elif not is_neutral(e, {"_is_empty_column_selection"}):
                _fail("column ensemble _iter: unexpected operation in the loop", e)
            n = n[2]
        if n[0] == "if":
            return "(if %s then %s else %s)" % (cond(n[1]), tree(n[2], yielded), tree(n[3], yielded))
        if n[0] in ("cont", "end"):
            return "true" if yielded else "false"
        _fail("column ensemble _iter: unexpected control flow in the loop")
    return tree(body, False), fitted_ok


def _base(ctx):
    proba = ("call", sattr("predict_proba"), (X,), ())
    node = _run(ctx, "predict", ["X"], "BaseClassifier.predict")
    effs, term = main_path(node, "BaseClassifier.predict", neutral={"self.predict_proba", "self.label_encoder.inverse_transform"})
    if term[0] != "ret":
        _fail("BaseClassifier.predict must return the labels")
    v = term[1]
    if not (v[0] == "call" and v[1] == ("attr", sattr("label_encoder"), "inverse_transform") and len(v[2]) == 1 and not v[3]):
        _fail("BaseClassifier.predict must decode with label_encoder.inverse_transform", v)
    arg = v[2][0]
    am = ("attr", ("global", "np"), "argmax")
    ok = False
    if arg == ("call", am, (proba,), (("axis", C(1)),)) and not effs:
        ok = True
    elif arg[0] == "comp" and not effs:
        _, elt, var, it = arg
        n_inst = ("sub", ("attr", X, "shape"), C(0))
        ok = (it == proba and elt == ("call", am, (var,), ())) or \
            (it in (("call", ("global", "range"), (n_inst,), ()), ("call", ("global", "range"), (C(0), n_inst), ()))
             and elt == ("call", am, (("sub", proba, var),), ()))
    elif arg == ("list", ()) and len(effs) == 1 and effs[0][0] == "for":
        _, it, tgt, body, lv = effs[0]
        n_inst = ("sub", ("attr", X, "shape"), C(0))
        beffs, _t = straight(body, "BaseClassifier.predict loop", neutral=VALIDATION_NEUTRAL)
        ok = it in (("call", ("global", "range"), (n_inst,), ()), ("call", ("global", "range"), (C(0), n_inst), ())) \
            and beffs == [("call", ("attr", ("list", ()), "append"), (("call", am, (("sub", proba, lv),), ()),), ())]
    if not ok:
        _fail("BaseClassifier.predict is not label_encoder.inverse_transform(argmax of each row)", arg)
    s = _ret(ctx, "score", ["X", "y"], "BaseClassifier.score", neutral={"self.predict", "accuracy_score"})
    want = ("call", ("global", "accuracy_score"), (("param", "y"), ("call", sattr("predict"), (X,), ())), (("normalize", C(True)),))
    if s not in (want, ("call", ("global", "accuracy_score"), want[2], ())):
        _fail("BaseClassifier.score is not accuracy_score(y, self.predict(X), normalize=True)", s)


def _linear(t, var):
    """index term a*var + b -> (a, b)"""
    if t == var:
        return 1, 0
    if t[0] == "const" and isinstance(t[1], int):
        return 0, t[1]
    if t[0] == "add":
        a1, b1 = _linear(t[1], var)
        a2, b2 = _linear(t[2], var)
        return a1 + a2, b1 + b2
    if t[0] == "binop" and t[1] == "Mult":
        for x, y in ((t[2], t[3]), (t[3], t[2])):
            if x[0] == "const" and isinstance(x[1], int):
                a, b = _linear(y, var)
                return x[1] * a, x[1] * b
    _fail("_transform: feature row index", t)


def _transform_facts(ctx):
    node = _run(ctx, "_transform", ["X", "intervals"], "_transform")
    effs, term = main_path(node, "_transform")
    loops = [e for e in effs if e[0] == "for"]
    if len(loops) != 1 or [e for e in effs if e[0] != "for"] or term[0] != "ret":
        _fail("_transform: one loop over the intervals expected")
    _, it, tgt, body, lv = loops[0]
    iv = ("param", "intervals")
    n_iv = ("sub", ("attr", iv, "shape"), C(0))
    it = unproj(it)
    if it not in (("call", ("global", "range"), (n_iv,), ()), ("call", ("global", "range"), (("sub", ("attr", iv, "shape"), C(0)),), ()),
                  ("call", ("global", "range"), (("call", ("global", "len"), (iv,), ()),), ())):
        _fail("_transform: the loop must run over the intervals", it)
    beffs, _t = straight(body, "_transform loop", neutral=VALIDATION_NEUTRAL)
    beffs = [unproj(e) for e in beffs]
    lv = unproj(lv)
    sl = ("sub", X, ("tuple", (SLICE_ALL, ("slice", ("sub", ("sub", iv, lv), C(0)), ("sub", ("sub", iv, lv), C(1)), NONE))))
    feat = {("call", ("attr", ("global", "np"), "mean"), (sl,), (("axis", C(1)),)): "qmean w",
            ("call", ("attr", ("global", "np"), "std"), (sl,), (("axis", C(1)),)): "qvar w",
            ("call", ("global", "_slope"), (sl,), (("axis", C(1)),)): "code_slope w"}
    rows = {}
    table = None
    for e in beffs:
        if e[0] != "setitem" or e[3] not in feat:
            _fail("_transform: only `transformed_x[row] = mean / std / slope of X[:, start:end]` may happen", e)
        a, b = _linear(e[2], lv)
        if a != 3 or b not in (0, 1, 2) or b in rows:
            _fail("_transform: feature row index", e[2])
        rows[b] = feat[e[3]]
        table = table or e[1]
        if e[1] != table:
            _fail("_transform: features written into different tables")
    if sorted(rows) != [0, 1, 2] or unproj(term[1]) != ("attr", table, "T"):
        _fail("_transform: three features per interval, returned transposed, expected")
    return "[%s; %s; %s]" % (rows[0], rows[1], rows[2])


def _get_intervals_facts(ctx):
    node = _run(ctx, "_get_intervals", ["n_intervals", "min_interval", "series_length", "rng"], "_get_intervals")
    effs, term = main_path(node, "_get_intervals", neutral={"rng.randint"})
    loops = [e for e in effs if e[0] == "for"]
    if len(loops) != 1 or [e for e in effs if e[0] != "for"] or term[0] != "ret":
        _fail("_get_intervals: one loop over the intervals expected")
    _, it, tgt, body, lv = loops[0]
    table_t = term[1]
    rows_ok = fn_of(table_t) == "np.zeros" and table_t[2] and table_t[2][0] == ("tuple", (("param", "n_intervals"), C(2)))
    if it == ("call", ("global", "range"), (("param", "n_intervals"),), ()):
        row = ("sub", table_t, lv)                      # intervals[j]
    elif it == table_t and rows_ok:
        row = lv                                        # for interval in intervals: a row view
    else:
        _fail("_get_intervals: loop over the n_intervals rows of the returned table", it)
    if not rows_ok:
        _fail("_get_intervals: the table must have n_intervals rows of two ends", table_t)
    draws = []
    writes = {}
    n = body
    while n[0] == "eff":
        e = n[1]
        if e[0] == "call" and fn_of(e) == "rng.randint":
            if len(e[2]) != 1 or e[3]:
                _fail("_get_intervals: rng.randint(high) expected", e)
            draws.append(e)
        elif e[0] == "setitem" and e[1] == term[1] and e[2] == lv and e[3][0] in ("tuple", "list") and len(e[3][1]) == 2:
            if writes:
                _fail("_get_intervals: an interval end is written twice")
            writes[0], writes[1] = e[3][1]
        elif e[0] == "setitem" and e[1] == row and e[2] in (C(0), C(1)):
            if e[2][1] in writes:
                _fail("_get_intervals: an interval end is written twice")
            writes[e[2][1]] = e[3]
        elif not is_neutral(e, VALIDATION_NEUTRAL):
            _fail("_get_intervals: unexpected operation", e)
        n = n[2]
    if n[0] != "end" or len(draws) != 2 or sorted(writes) != [0, 1]:
        _fail("_get_intervals: two draws, a start and an end per interval expected")
    start_cell = ("sub", row, C(0))

    start_terms = []

    def z(t):
        if start_terms and t == start_terms[0]:
            return "v_start"
        if t in draws:
            return "(d%d mod %s)" % (draws.index(t) + 1, z(t[2][0]))
        if t == start_cell:
            return "v_start"
        if t[0] == "param" and t[1] in ("min_interval", "series_length"):
            return t[1]
        if t[0] == "const" and isinstance(t[1], int) and not isinstance(t[1], bool):
            return "%d" % t[1]
        if t[0] == "add":
            return "(%s + %s)" % (z(t[1]), z(t[2]))
        if t[0] == "binop" and t[1] == "Sub":
            return "(%s - %s)" % (z(t[2]), z(t[3]))
        if t[0] == "ite" and t[1][0] == "cmp" and t[1][1] in ("lt", "le", "gt", "ge"):
            op = {"lt": "<?", "le": "<=?", "gt": ">?", "ge": ">=?"}[t[1][1]]
            return "(if (%s %s %s) then %s else %s)" % (z(t[1][2]), op, z(t[1][3]), z(t[2]), z(t[3]))
        if t[0] == "call" and fn_of(t) == "max" and len(t[2]) == 2 and not t[3]:
            return "(Z.max %s %s)" % (z(t[2][0]), z(t[2][1]))
        _fail("_get_intervals arithmetic", t)
    # the start must be drawn first (draw order = the order of the model's script)
    z_start = z(writes[0])
    if writes[0] != draws[0]:
        _fail("_get_intervals: the start of the interval must be the first draw", writes[0])
    start_terms.append(writes[0])
    return "let v_start := %s in\n      (v_start, %s)" % (z_start, z(writes[1]))


def translate(repo):
    symexec_c19.TAG[0] = "combine_c17"

    def mod(rel):
        with open(os.path.join(repo, rel)) as f:
            return ast.parse(f.read())
    tsf, rise, stsf, reg, col = mod(P_TSF), mod(P_RISE), mod(P_STSF), mod(P_REG), mod(P_COL)
    boss, cboss, base, fbase = mod(P_BOSS), mod(P_CBOSS), mod(P_BASE), mod(P_FBASE)
    fb = [(fbase, "BaseTimeSeriesForest")]
    prim = {"predict_proba", "predict", "fit", "_transform", "_get_intervals", "_fit_estimator", "score",
            "_train_predict", "_test_nn"}

    def est(i):
        return ("sub", sattr("estimators_"), i)
    # time series forest
    ctx = Ctx(tsf, "TimeSeriesForestClassifier", primitives=prim, hook=_hook, bases=fb, helper_mods=[fbase])
    tsf_c, ty = _forest(ctx, "clf", "TimeSeriesForestClassifier", lambda i: (
        "call", ("attr", est(i), "predict_proba"),
        (("call", ("global", "_transform"), (X, ("sub", sattr("intervals_"), i)), ()),), ()))
    tsf_p = _decode(ctx, "TimeSeriesForestClassifier")
    # supervised time series forest
    ctx = Ctx(stsf, "SupervisedTimeSeriesForest", primitives=prim, hook=_hook)
    per = ("call", ("attr", ("global", "signal"), "periodogram"), (X,), ())
    found = {}

    def stsf_member(i):
        """tree i through ONE method of the class, given the series, its periodogram, its first
        difference, the tree's intervals and the tree (in the order of that method's parameters)"""
        elt = found["elt"]
        if not (elt[0] == "call" and elt[1][0] == "attr" and elt[1][1] == SELF and elt[1][2] in ctx.methods and not elt[3]):
            _fail("SupervisedTimeSeriesForest: member i must be computed by a method of the class", elt)
        want = {X, ("proj", per, 1, 2), ("call", ("attr", ("global", "np"), "diff"), (X, C(1)), ()),
                ("sub", sattr("intervals_"), i), est(i)}
        if set(elt[2]) != want or len(elt[2]) != 5:
            _fail("SupervisedTimeSeriesForest: tree i must get X, its periodogram, its difference, intervals_[i] and "
                  "estimators_[i]", elt)
        names, _d = _params(ctx.methods[elt[1][2]], True)
        found["name"], found["est_param"] = elt[1][2], names[list(elt[2]).index(est(i))]
        found["iv_param"] = names[list(elt[2]).index(("sub", sattr("intervals_"), i))]
        return elt
    stsf_c, ty = _forest(ctx, "clf", "SupervisedTimeSeriesForest", stsf_member, found)
    stsf_p = _decode(ctx, "SupervisedTimeSeriesForest")
    stsf_place = _stsf_place(Ctx(stsf, "SupervisedTimeSeriesForest", primitives=prim,
                                 hook=_hook), found["name"], found["est_param"])
    # RISE
    ctx = Ctx(rise, "RandomIntervalSpectralForest", primitives=prim, hook=_hook)
    rise_c, ty = _forest(ctx, "clf", "RandomIntervalSpectralForest", lambda i: (
        "call", ("attr", est(i), "predict_proba"),
        (("call", ("global", "_transform"), (X, ("sub", sattr("intervals"), i), ("sub", sattr("lags"), i)), ()),), ()))
    rise_p = _decode(ctx, "RandomIntervalSpectralForest")
    # forest regressor
    ctx = Ctx(reg, "TimeSeriesForestRegressor", primitives=prim, hook=_hook, bases=fb, helper_mods=[fbase])
    reg_c, ty = _forest(ctx, "reg", "TimeSeriesForestRegressor", lambda i: (
        "call", ("attr", est(i), "predict"),
        (("call", ("global", "_transform"), (X, ("sub", sattr("intervals_"), i)), ()),), ()))
    reg_c = (reg_c.replace("(mean_rows k rows)", "(qmean preds)").replace("(vsum k rows)", "(qsum preds)")
             .replace("qlen rows", "qlen preds"))
    m = __import__("re").fullmatch(r"\(map \(fun s => s / (.*)\) \(qsum preds\)\)", reg_c)
    if m:
        reg_c = "(qsum preds / %s)" % m.group(1)        # one instance: a row of width 1
    if "rows" in reg_c or "map" in reg_c:
        _fail("forest regressor: combination %s" % reg_c)
    cctx = Ctx(col, "BaseColumnEnsembleClassifier", primitives=prim | {"_get_column"}, hook=_hook)
    cctx.primitives |= {n for n, f in cctx.methods.items() if symexec_c19._is_generator(f)}   # examined separately
    col_c = _colens(cctx, col)
    col_y, col_f = _colens_iter(Ctx(col, "BaseColumnEnsembleClassifier",
                                    primitives=prim | {"_get_column", "_is_empty_column_selection"},
                                    hook=_hook), cctx.members_generator)
    boss_c = _votes(Ctx(boss, "BOSSEnsemble", primitives=prim, hook=_hook), "BOSSEnsemble", False)
    _class_dictionary_facts(boss, "BOSSEnsemble", "BOSSEnsemble", {"n_estimators": "len(self.classifiers)"})
    cboss_c = _votes(Ctx(cboss, "ContractableBOSS", primitives=prim, hook=_hook), "ContractableBOSS", True)
    _class_dictionary_facts(cboss, "ContractableBOSS", "ContractableBOSS", {"weight_sum": "np.sum(self.weights)"})
    iboss_c = _iboss(Ctx(boss, "IndividualBOSS", primitives=prim, hook=_hook))
    _class_dictionary_facts(boss, "IndividualBOSS", "IndividualBOSS", {})
    cboss_w = _cboss_weight(cboss)
    _base(Ctx(base, "BaseClassifier", primitives=prim, hook=_hook))
    fctx = Ctx(fbase, None, primitives={"_slope"}, hook=_hook)
    feat = _transform_facts(fctx)
    ivs = _get_intervals_facts(fctx)
    out = ["(* GENERATED by /verif/translator/combine_c17.py from the classifiers' predict_proba /",
           "   predict / score functions -- do not edit, never committed *)",
           "From Coq Require Import QArith List Bool ZArith.",
           "Require Import SkV.C17.Model.",
           "Import ListNotations.",
           "Open Scope Q_scope.",
           "",
           "(* one instance: `rows` = the members' rows, in member order *)",
           "Definition gen_tsf_combine (k : nat) (rows : list (list Q)) : list Q := %s." % tsf_c,
           "Definition gen_stsf_combine (k : nat) (rows : list (list Q)) : list Q := %s." % stsf_c,
           "Definition gen_rise_combine (k : nat) (rows : list (list Q)) : list Q := %s." % rise_c,
           "Definition gen_colens_combine (k : nat) (rows : list (list Q)) : list Q := %s." % col_c,
           "Definition gen_tsfreg_combine (preds : list Q) : Q := %s." % reg_c,
           "",
           "(* BaseColumnEnsembleClassifier._iter: is an entry of the list handed out?  replace =",
           "   replace_strings, is_drop = (estimator == 'drop'), is_empty = _is_empty_column_selection(column) *)",
           "Definition gen_colens_yields (replace is_drop is_empty : bool) : bool := %s." % col_y,
           "(* a fitted ensemble iterates over estimators_ and nothing else *)",
           "Definition gen_colens_fitted_iterates_fitted_only : bool := %s." % ("true" if col_f else "false"),
           "",
           "(* ContractableBOSS.fit: the weight of a member with leave-one-out train accuracy `acc` *)",
           "Definition gen_cboss_weight (acc : Q) : Q := %s." % cboss_w,
           "",
           "Section GenLabels.",
           "  Variable L : Type.",
           "  Variable eqb : L -> L -> bool.",
           "  (* predict of the three forests: the label of the first maximal column *)",
           "  Definition gen_tsf_predict (classes : list L) (row : list Q) : option L := %s." % tsf_p,
           "  Definition gen_stsf_predict (classes : list L) (row : list Q) : option L := %s." % stsf_p,
           "  Definition gen_rise_predict (classes : list L) (row : list Q) : option L := %s." % rise_p,
           "  (* SupervisedTimeSeriesForest._predict_proba_for_estimator: the row a tree contributes,",
           "     given the tree's own classes_ `tcls` and its own row over them *)",
           "  Definition gen_stsf_tree_row (classes tcls : list L) (row : list Q) : list Q :=",
           "    %s." % stsf_place,
           "  (* BOSSEnsemble / ContractableBOSS.predict_proba: `vs` = (member's predicted label, the",
           "     increment it adds), `denom` = self.n_estimators / self.weight_sum *)",
           "  Definition gen_boss_row (classes : list L) (vs : list (L * Q)) (denom : Q) : list Q :=",
           "    %s." % boss_c,
           "  Definition gen_cboss_row (classes : list L) (vs : list (L * Q)) (denom : Q) : list Q :=",
           "    %s." % cboss_c,
           "  (* IndividualBOSS.predict_proba: one-hot at the column of its own prediction *)",
           "  Definition gen_iboss_row (classes : list L) (pred : L) : list Q :=",
           "    %s." % iboss_c,
           "End GenLabels.",
           "",
           "(* _transform of the forest base class: the three features of one interval, in row order *)",
           "Definition gen_interval_features (x : list Q) (iv : interval) : list Q :=",
           "  let w := slice (fst iv) (snd iv) x in %s." % feat,
           "",
           "(* _get_intervals: one interval from two draws (a draw d stands for d mod high) *)",
           "Open Scope Z_scope.",
           "Definition gen_one_interval (min_interval series_length d1 d2 : Z) : interval :=",
           "      " + ivs + ".",
           ""]
    return {"C17/Sites.v": "\n".join(out)}


if __name__ == "__main__":
    import sys
    print(translate(sys.argv[1] if len(sys.argv) > 1 else "/repo")["C17/Sites.v"])
