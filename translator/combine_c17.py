"""C17: regenerate the COMBINATION sites of the classifiers as Gallina (C17/Sites.v).

A fail-closed `ast` extractor over the functions in which the classifiers turn their fitted
members' outputs into probabilities and labels:

  classification/interval_based/_tsf.py    TimeSeriesForestClassifier.predict_proba / predict, _predict_proba
  classification/interval_based/_rise.py   RandomIntervalSpectralForest.predict_proba / predict
  classification/interval_based/_stsf.py   SupervisedTimeSeriesForest.predict_proba / predict /
                                           _predict_proba_for_estimator (placement of a tree's columns)
  regression/interval_based/_tsf.py        TimeSeriesForestRegressor.predict, _predict
  classification/compose/_column_ensemble.py  predict_proba, _collect_probas, predict
  classification/dictionary_based/_boss.py    BOSSEnsemble.predict_proba (+ the facts of fit it relies on),
                                              IndividualBOSS.predict_proba
  classification/dictionary_based/_cboss.py   ContractableBOSS.predict_proba (+ facts of fit)
  classification/base.py                      BaseClassifier.predict / score
  series_as_features/base/estimators/interval_based/_tsf.py   _transform (feature order and slice),
                                              _get_intervals (integer arithmetic)

Every statement of these functions must be one of the shapes listed per function (compared through
`ast.unparse`: formatting-insensitive, token-exact) - anything else raises Unsupported, a broken tie.
The value-carrying expressions (the division after the sum, what is summed, which estimator is paired
with which intervals, which label a column index decodes to, the placement of a bootstrap tree's
columns, the vote increment and the normaliser, the feature order, the interval arithmetic) are
TRANSLATED into Gallina definitions; coq/C17/BridgeSites.v proves them equal to the model for all
arguments, so an edit of one of them breaks a proof obligation and not only sampled runs.
"""
import ast
import os

from .pyz import Unsupported

P_TSF = "sktime/classification/interval_based/_tsf.py"
P_RISE = "sktime/classification/interval_based/_rise.py"
P_STSF = "sktime/classification/interval_based/_stsf.py"
P_REG = "sktime/regression/interval_based/_tsf.py"
P_COL = "sktime/classification/compose/_column_ensemble.py"
P_BOSS = "sktime/classification/dictionary_based/_boss.py"
P_CBOSS = "sktime/classification/dictionary_based/_cboss.py"
P_BASE = "sktime/classification/base.py"
P_FBASE = "sktime/series_as_features/base/estimators/interval_based/_tsf.py"


def _u(n):
    return ast.unparse(n)


def _fail(msg, node=None):
    raise Unsupported("combine_c17: %s%s" % (msg, "" if node is None else " [line %s: %s]" % (
        getattr(node, "lineno", "?"), _u(node)[:140])))


def _find(mod, path):
    node = mod
    for p in path.split("."):
        hits = [n for n in node.body if isinstance(n, (ast.FunctionDef, ast.ClassDef)) and n.name == p]
        if len(hits) != 1:
            _fail("expected exactly one definition of %s, found %d" % (path, len(hits)))
        node = hits[0]
    return node


def _body(fn):
    b = list(fn.body)
    if b and isinstance(b[0], ast.Expr) and isinstance(b[0].value, ast.Constant) \
            and isinstance(b[0].value.value, str):
        b = b[1:]
    return b


def _params(fn):
    a = fn.args
    if a.vararg or a.kwarg or a.kwonlyargs or a.posonlyargs:
        _fail("parameter list of %s" % fn.name, fn)
    return [x.arg for x in a.args]


def _assign1(s):
    if isinstance(s, ast.Assign) and len(s.targets) == 1 and isinstance(s.targets[0], ast.Name):
        return s.targets[0].id, s.value
    return None


def _canon(text):
    """canonical text of a statement / of a list of statements (parse + unparse)"""
    if isinstance(text, list):
        return [_canon(t) for t in text]
    return ast.unparse(ast.parse(text))


def _strip(stmts, allowed, what):
    """drop the statements whose text is in `allowed` (validation that does not carry values);
    statements are matched as whole texts, `if` statements by their test plus a single raise"""
    out = []
    allowed = [a if a.endswith(": raise") else _canon(a) for a in allowed]
    for s in stmts:
        t = _u(s)
        if t in allowed:
            continue
        if isinstance(s, ast.If) and not s.orelse and len(s.body) == 1 and isinstance(s.body[0], ast.Raise) \
                and ("if %s: raise" % _u(s.test)) in allowed:
            continue
        out.append(s)
    return out


# ------------------------------------------------------------------------------------------------
# numeric combination expressions.  Types: 'M' = the list of the members' matrices (rows per
# instance are handled pointwise: for ONE instance, a list of rows), 'R' = one row, 'S' = scalar.


def _comb(e, env, k="k", rows="rows"):
    """-> (coq text, type)"""
    t = _u(e)
    if isinstance(e, ast.Name) and e.id in env:
        return env[e.id]
    if isinstance(e, (ast.Attribute, ast.Call)) and t in env:
        return env[t]
    if isinstance(e, ast.Call) and _u(e.func) == "np.sum" and len(e.args) == 1 and \
            [(kw.arg, _u(kw.value)) for kw in e.keywords] == [("axis", "0")]:
        a, ta = _comb(e.args[0], env, k, rows)
        if ta == "M":
            return "(vsum %s %s)" % (k, a), "R"
    if isinstance(e, ast.Call) and _u(e.func) in ("np.average", "np.mean") and len(e.args) == 1 and \
            [(kw.arg, _u(kw.value)) for kw in e.keywords] == [("axis", "0")]:
        a, ta = _comb(e.args[0], env, k, rows)
        if ta == "M":
            return "(mean_rows %s %s)" % (k, a), "R"
    if isinstance(e, ast.Call) and _u(e.func) == "np.ones" and len(e.args) == 1 and not e.keywords \
            and _u(e.args[0]) in ("self.n_classes",):
        return "1", "S"                     # a vector of ones broadcast against a row: the scalar 1
    if isinstance(e, ast.BinOp) and isinstance(e.op, (ast.Mult, ast.Div)):
        a, ta = _comb(e.left, env, k, rows)
        b, tb = _comb(e.right, env, k, rows)
        if ta == "S" and tb == "S":
            return "(%s %s %s)" % (a, "*" if isinstance(e.op, ast.Mult) else "/", b), "S"
        if ta == "R" and tb == "S" and isinstance(e.op, ast.Div):
            return "(map (fun s => s / %s) %s)" % (b, a), "R"
    _fail("combination expression", e)


def _parallel_gen(value, what):
    """Parallel(n_jobs=..)(delayed(F)(args) for i in range(self.n_estimators)) -> (F text, [arg texts])"""
    if not (isinstance(value, ast.Call) and isinstance(value.func, ast.Call)
            and _u(value.func.func) == "Parallel" and len(value.args) == 1
            and isinstance(value.args[0], ast.GeneratorExp)):
        _fail(what + ": Parallel(...)(generator) expected", value)
    g = value.args[0]
    if not (len(g.generators) == 1 and not g.generators[0].ifs and _u(g.generators[0].target) == "i"
            and _u(g.generators[0].iter) == "range(self.n_estimators)"):
        _fail(what + ": one member per i in range(self.n_estimators) expected", value)
    c = g.elt
    if not (isinstance(c, ast.Call) and isinstance(c.func, ast.Call) and _u(c.func.func) == "delayed"
            and len(c.func.args) == 1 and not c.keywords):
        _fail(what + ": delayed(F)(args) expected", value)
    return _u(c.func.args[0]), [_u(a) for a in c.args]


PREDICT_DECODE = "return np.asarray([self.classes_[np.argmax(prob)] for prob in proba])"


def _forest_predict(cls_fn, what):
    b = [_u(s) for s in _body(cls_fn)]
    if b != _canon(["proba = self.predict_proba(X)", PREDICT_DECODE]):
        _fail("%s.predict is not `classes_[argmax(row)]` of predict_proba" % what, cls_fn)
    return "nth_error classes (argmax_first row)"


CHECKS = ["self.check_is_fitted()", "X = check_X(X, enforce_univariate=True, coerce_to_numpy=True)",
          "X = X.squeeze(1)"]


def _tsf_like(mod, cls, helper, helper_body, member_args, what):
    """TimeSeriesForestClassifier.predict_proba -> combine text"""
    fn = _find(mod, cls + ".predict_proba")
    st = _strip(_body(fn), CHECKS + ["_, series_length = X.shape",
                                     "if series_length != self.series_length: raise"], what)
    if len(st) != 3:
        _fail("%s.predict_proba: members, combination, return expected" % what, fn)
    a = _assign1(st[0])
    if not a:
        _fail("%s.predict_proba: members" % what, st[0])
    f, args = _parallel_gen(a[1], what)
    if f != helper or args != member_args:
        _fail("%s: member i must be %s(%s)" % (what, helper, ", ".join(member_args)), st[0])
    o = _assign1(st[1])
    if not o or _u(st[2]) != "return %s" % o[0]:
        _fail("%s.predict_proba: combination / return" % what, st[1])
    txt, ty = _comb(o[1], {a[0]: ("rows", "M"), "self.n_estimators": ("qlen rows", "S")})
    if ty != "R":
        _fail("%s.predict_proba does not return one row per instance" % what, st[1])
    if helper_body is not None:
        hf = _find(mod, helper)
        if [_u(s) for s in _body(hf)] != _canon(helper_body):
            _fail("%s changed" % helper, hf)
    return txt


# ------------------------------------------------------------------------------------------------


def _stsf_place(mod):
    fn = _find(mod, "SupervisedTimeSeriesForest._predict_proba_for_estimator")
    if _params(fn) != ["self", "X", "X_p", "X_d", "intervals", "estimator"]:
        _fail("_predict_proba_for_estimator signature", fn)
    st = _body(fn)
    # the feature construction: assignments to n_instances / transformed_x only
    i = 0
    while i < len(st):
        s = st[i]
        if isinstance(s, ast.Assign) and _u(s.targets[0]) in ("n_instances, _", "(n_instances, _)", "transformed_x"):
            i += 1
            continue
        break
    tail = st[i:]
    if len(tail) == 1 and _u(tail[0]) == "return estimator.predict_proba(transformed_x)":
        return "row"                      # the tree's row as it is (no placement: F-C17-1)
    want_if = ("if proba.shape[1] != self.n_classes:\n"
               "    full = np.zeros((n_instances, self.n_classes))\n"
               "    full[:, np.searchsorted(self.classes_, estimator.classes_)] = proba\n"
               "    proba = full")
    if [_u(s) for s in tail] == _canon(["proba = estimator.predict_proba(transformed_x)", want_if, "return proba"]):
        # searchsorted of a sorted sub-list of the sorted classes_ = the positions of its labels
        return ("if Nat.eqb (length row) (length classes) then row "
                "else place_row eqb classes tcls row")
    _fail("_predict_proba_for_estimator: the tree's columns are neither returned as they are nor placed "
          "through np.searchsorted(self.classes_, estimator.classes_)", tail[0] if tail else fn)


def _boss_facts(mod, cls, inc_text, denom_attr, fit_fact, what):
    fn = _find(mod, cls + ".predict_proba")
    st = _strip(_body(fn), ["self.check_is_fitted()",
                            "X = check_X(X, enforce_univariate=True, coerce_to_numpy=True)"], what)
    want_loop_head = {"for clf in self.classifiers:": False, "for (n, clf) in enumerate(self.classifiers):": True,
                      "for n, clf in enumerate(self.classifiers):": True}
    if not (len(st) == 4 and _u(st[0]) == "sums = np.zeros((X.shape[0], self.n_classes))"
            and isinstance(st[1], ast.For) and _u(st[3]) == "return dists"):
        _fail("%s.predict_proba: zeros, vote loop, normalisation, return expected" % what, fn)
    loop = st[1]
    head = "for %s in %s:" % (_u(loop.target), _u(loop.iter))
    if head not in want_loop_head or loop.orelse or len(loop.body) != 2:
        _fail("%s.predict_proba: loop over the members" % what, loop)
    if _u(loop.body[0]) != "preds = clf.predict(X)":
        _fail("%s: a member votes with its own predict" % what, loop.body[0])
    inner = loop.body[1]
    if not (isinstance(inner, ast.For) and _u(inner.target) == "i" and _u(inner.iter) == "range(0, X.shape[0])"
            and len(inner.body) == 1 and isinstance(inner.body[0], ast.AugAssign)
            and isinstance(inner.body[0].op, ast.Add)
            and _u(inner.body[0].target) == "sums[i, self.class_dictionary[preds[i]]]"):
        _fail("%s: the vote of a member goes to column class_dictionary[its predicted label]" % what, inner)
    inc = _u(inner.body[0].value)
    if inc != inc_text:
        _fail("%s: vote increment %s, expected %s" % (what, inc, inc_text), inner)
    d = _assign1(st[2])
    if not d or d[0] != "dists":
        _fail("%s: normalisation" % what, st[2])
    txt, ty = _comb(d[1], {"sums": ("(map (fun c => weight_for eqb c vs) classes)", "R"),
                           "self." + denom_attr: ("denom", "S")})
    if ty != "R":
        _fail("%s: normalisation type" % what, st[2])
    # facts of fit: classes_ sorted distinct labels, class_dictionary = enumerate(classes_), denominator
    fit = _find(mod, cls + ".fit")
    texts = [_u(s) for s in ast.walk(fit) if isinstance(s, ast.stmt)]
    need = ["self.classes_ = class_distribution(np.asarray(y).reshape(-1, 1))[0][0]",
            "for index, classVal in enumerate(self.classes_):\n    self.class_dictionary[classVal] = index",
            fit_fact]
    fit_fact = _canon(fit_fact)
    for n in _canon(need):
        if texts.count(n) != 1:
            _fail("%s.fit: expected exactly once: %s" % (what, n), fit)
    # the denominator attribute is assigned nowhere else in fit
    assigns = [t for t in texts if t.startswith("self.%s =" % denom_attr) or t.startswith("self.%s +=" % denom_attr)]
    if assigns != [fit_fact]:
        _fail("%s.fit: self.%s assigned by %s" % (what, denom_attr, assigns), fit)
    return txt


def _cboss_weight(mod):
    """ContractableBOSS.fit: the weight a member votes with, as a function of its train accuracy"""
    from fractions import Fraction
    fit = _find(mod, "ContractableBOSS.fit")
    base = _canon("weight = math.pow(boss.accuracy, 4)")
    hits = []
    for node in ast.walk(fit):
        for field in ("body", "orelse"):
            lst = getattr(node, field, None)
            if isinstance(lst, list):
                for i, st in enumerate(lst):
                    if isinstance(st, ast.stmt) and _u(st) == base:
                        hits.append((lst, i))
    if len(hits) != 1:
        _fail("ContractableBOSS.fit: `weight = math.pow(boss.accuracy, 4)` expected exactly once", fit)
    lst, i = hits[0]
    txt = "let w := acc * acc * acc * acc in "
    nxt = lst[i + 1] if i + 1 < len(lst) else None
    floor = None
    if isinstance(nxt, ast.If) and _u(nxt.test) == "weight == 0":
        a = _assign1(nxt.body[0]) if len(nxt.body) == 1 and not nxt.orelse else None
        if not (a and a[0] == "weight" and isinstance(a[1], ast.Constant) and isinstance(a[1].value, float)
                and a[1].value > 0):
            _fail("ContractableBOSS.fit: the replacement of a zero weight must be a positive constant", nxt)
        floor = Fraction(repr(a[1].value))
    # every other statement that touches `weight` or self.weights must be one of these
    allowed = _canon(["self.weights = []", "self.weights.append(weight)", "self.weights[lowest_acc_idx] = weight",
                      "self.weight_sum = np.sum(self.weights)"]) + [base]
    for st in ast.walk(fit):
        if isinstance(st, (ast.Assign, ast.AugAssign, ast.Expr)):
            t = _u(st)
            if ("self.weights" in t or t.startswith("weight ") or t.startswith("weight=")) and t not in allowed \
                    and not (nxt is not None and floor is not None and st in nxt.body):
                _fail("ContractableBOSS.fit: unexpected statement about the weights", st)
    if floor is None:
        return txt + "w"
    return txt + "if Qeq_bool w 0 then (%d # %d) else w" % (floor.numerator, floor.denominator)


def _iboss(mod):
    fn = _find(mod, "IndividualBOSS.predict_proba")
    want = ["preds = self.predict(X)", "dists = np.zeros((X.shape[0], self.num_classes))",
            "for i in range(0, X.shape[0]):\n    dists[i, self.class_dictionary.get(preds[i])] += 1", "return dists"]
    if [_u(s) for s in _body(fn)] != _canon(want):
        _fail("IndividualBOSS.predict_proba is not the one-hot row of its own prediction", fn)
    fit = _find(mod, "IndividualBOSS.fit")
    texts = [_u(s) for s in ast.walk(fit) if isinstance(s, ast.stmt)]
    for n in _canon(["self.classes_ = class_distribution(np.asarray(y).reshape(-1, 1))[0][0]",
                     "for index, classVal in enumerate(self.classes_):\n    self.class_dictionary[classVal] = index"]):
        if texts.count(n) != 1:
            _fail("IndividualBOSS.fit: expected exactly once: %s" % n, fit)
    return "map (fun c => if eqb pred c then 1 else 0) classes"


def _colens(mod):
    fn = _find(mod, "BaseColumnEnsembleClassifier.predict_proba")
    st = _strip(_body(fn), ["self.check_is_fitted()"], "column ensemble")
    a = _assign1(st[0]) if st else None
    if not (len(st) == 2 and a and _u(st[1]) == "return %s" % a[0]):
        _fail("column ensemble predict_proba", fn)
    txt, ty = _comb(a[1], {"self._collect_probas(X)": ("rows", "M")})
    cf = _find(mod, "BaseColumnEnsembleClassifier._collect_probas")
    want = ("return np.asarray([estimator.predict_proba(_get_column(X, column)) "
            "for (name, estimator, column) in self._iter(replace_strings=True)])")
    if [_u(s) for s in _body(cf)] != [_canon(want)]:
        _fail("_collect_probas: every member must predict on its own column(s)", cf)
    pf = _find(mod, "BaseColumnEnsembleClassifier.predict")
    if [_u(s) for s in _body(pf)] != _canon(["maj = np.argmax(self.predict_proba(X), axis=1)",
                                             "return self.le_.inverse_transform(maj)"]):
        _fail("column ensemble predict is not le_.inverse_transform(argmax)", pf)
    fit = _find(mod, "BaseColumnEnsembleClassifier.fit")
    texts = [_u(s) for s in ast.walk(fit) if isinstance(s, ast.stmt)]
    for n in _canon(["self.le_ = LabelEncoder().fit(y)", "self.classes_ = self.le_.classes_"]):
        if texts.count(n) != 1:
            _fail("column ensemble fit: expected exactly once: %s" % n, fit)
    return txt


def _base(mod):
    fn = _find(mod, "BaseClassifier.predict")
    st = _strip(_body(fn), ["X = check_X(X)", "self.check_is_fitted()"], "BaseClassifier.predict")
    want = ["distributions = self.predict_proba(X)", "predictions = []",
            "for instance_index in range(0, X.shape[0]):\n"
            "    distribution = distributions[instance_index]\n"
            "    prediction = np.argmax(distribution)\n"
            "    predictions.append(prediction)",
            "predictions = self.label_encoder.inverse_transform(predictions)", "return predictions"]
    if [_u(s) for s in st] != _canon(want):
        _fail("BaseClassifier.predict is not label_encoder.inverse_transform(argmax of each row)", fn)
    sf = _find(mod, "BaseClassifier.score")
    if [_u(s) for s in _body(sf)] != _canon(["from sklearn.metrics import accuracy_score",
                                             "return accuracy_score(y, self.predict(X), normalize=True)"]):
        _fail("BaseClassifier.score is not accuracy_score(y, self.predict(X), normalize=True)", sf)


def _regressor(mod):
    fn = _find(mod, "TimeSeriesForestRegressor.predict")
    st = _strip(_body(fn), CHECKS + ["_, series_length = X.shape",
                                     "if series_length != self.series_length: raise"], "forest regressor")
    a = _assign1(st[0]) if st else None
    if not (len(st) == 2 and a and isinstance(st[1], ast.Return)):
        _fail("TimeSeriesForestRegressor.predict: members, return expected", fn)
    f, args = _parallel_gen(a[1], "forest regressor")
    if f != "_predict" or args != ["X", "self.estimators_[i]", "self.intervals_[i]"]:
        _fail("forest regressor: tree i must predict on the features of its own intervals", st[0])
    if _u(st[1].value) != "np.mean(%s, axis=0)" % a[0]:
        _fail("forest regressor does not return the mean over the trees", st[1])
    hf = _find(mod, "_predict")
    if [_u(s) for s in _body(hf)] != _canon(["Xt = _transform(X, intervals)", "return estimator.predict(Xt)"]):
        _fail("_predict changed", hf)
    return "qmean preds"


def _transform_facts(mod):
    """_transform: per interval j the slice [iv0, iv1) and the rows 3j, 3j+1, 3j+2 -> feature order"""
    fn = _find(mod, "_transform")
    st = [_u(s) for s in _body(fn)]
    want_head = _canon(["n_instances, _ = X.shape", "n_intervals, _ = intervals.shape",
                        "transformed_x = np.empty(shape=(3 * n_intervals, n_instances), dtype=np.float32)"])
    if st[:3] != want_head or st[-1] != "return transformed_x.T" or len(st) != 5:
        _fail("_transform: prelude / return", fn)
    loop = _body(fn)[3]
    if not (isinstance(loop, ast.For) and _u(loop.target) == "j" and _u(loop.iter) == "range(n_intervals)"):
        _fail("_transform: loop over the intervals", loop)
    feats = {}
    rows = {}
    slice_ = None
    for s in loop.body:
        a = _assign1(s)
        if a and a[0] == "X_slice":
            if _u(a[1]) != "X[:, intervals[j][0]:intervals[j][1]]":
                _fail("_transform: the slice is not [start, end) of interval j", s)
            slice_ = "(fst iv, snd iv)"
        elif a and _u(a[1]) in ("np.mean(X_slice, axis=1)", "np.std(X_slice, axis=1)", "_slope(X_slice, axis=1)"):
            feats[a[0]] = {"np.mean": "qmean w", "np.std": "qvar w", "_slope": "code_slope w"}[
                _u(a[1].func)]
        elif isinstance(s, ast.Assign) and len(s.targets) == 1 and _u(s.targets[0]).startswith("transformed_x[") \
                and isinstance(s.value, ast.Name) and s.value.id in feats:
            idx = _u(s.targets[0].slice)
            if idx not in ("3 * j", "3 * j + 1", "3 * j + 2"):
                _fail("_transform: feature row index", s)
            rows[{"3 * j": 0, "3 * j + 1": 1, "3 * j + 2": 2}[idx]] = feats[s.value.id]
        else:
            _fail("_transform: statement", s)
    if slice_ is None or sorted(rows) != [0, 1, 2]:
        _fail("_transform: three features per interval expected", fn)
    return "[%s; %s; %s]" % (rows[0], rows[1], rows[2])


def _zexpr(e, env):
    """integer arithmetic of _get_intervals"""
    if isinstance(e, ast.Name) and e.id in env:
        return env[e.id]
    if isinstance(e, ast.Constant) and isinstance(e.value, int) and not isinstance(e.value, bool):
        return "%d" % e.value
    if isinstance(e, ast.Subscript) and _u(e) in env:
        return env[_u(e)]
    if isinstance(e, ast.BinOp) and isinstance(e.op, (ast.Add, ast.Sub)):
        return "(%s %s %s)" % (_zexpr(e.left, env), "+" if isinstance(e.op, ast.Add) else "-",
                               _zexpr(e.right, env))
    _fail("_get_intervals arithmetic", e)


def _get_intervals_facts(mod):
    fn = _find(mod, "_get_intervals")
    if _params(fn) != ["n_intervals", "min_interval", "series_length", "rng"]:
        _fail("_get_intervals signature", fn)
    b = _body(fn)
    if not (len(b) == 3 and _u(b[0]) == "intervals = np.zeros((n_intervals, 2), dtype=int)"
            and isinstance(b[1], ast.For) and _u(b[1].target) == "j" and _u(b[1].iter) == "range(n_intervals)"
            and _u(b[2]) == "return intervals"):
        _fail("_get_intervals: zeros, loop, return expected", fn)
    env = {"min_interval": "min_interval", "series_length": "series_length"}
    lets = []
    draws = 0
    start = end = None
    for s in b[1].body:
        if isinstance(s, ast.Assign) and len(s.targets) == 1:
            tgt = _u(s.targets[0])
            v = s.value
            if isinstance(v, ast.Call) and _u(v.func) == "rng.randint" and len(v.args) == 1 and not v.keywords:
                draws += 1
                txt = "(d%d mod %s)" % (draws, _zexpr(v.args[0], env))
            else:
                txt = _zexpr(v, env)
            if tgt == "intervals[j][0]":
                lets.append("let v_start := %s in" % txt)
                env["intervals[j][0]"] = "v_start"
                start = "v_start"
            elif tgt == "intervals[j][1]":
                lets.append("let v_end := %s in" % txt)
                end = "v_end"
            elif isinstance(s.targets[0], ast.Name):
                n = "v_%s%d" % (tgt, len(lets))
                lets.append("let %s := %s in" % (n, txt))
                env[tgt] = n
            else:
                _fail("_get_intervals: assignment target", s)
        elif isinstance(s, ast.If) and not s.orelse and len(s.body) == 1 and isinstance(s.test, ast.Compare) \
                and len(s.test.ops) == 1 and isinstance(s.test.ops[0], ast.Lt):
            a = _assign1(s.body[0])
            if not a or a[0] not in env:
                _fail("_get_intervals: conditional assignment", s)
            n = "v_%s%d" % (a[0], len(lets))
            lets.append("let %s := if (%s <? %s) then %s else %s in" % (
                n, _zexpr(s.test.left, env), _zexpr(s.test.comparators[0], env), _zexpr(a[1], env), env[a[0]]))
            env[a[0]] = n
        else:
            _fail("_get_intervals: statement", s)
    if draws != 2 or start is None or end is None:
        _fail("_get_intervals: two draws, a start and an end per interval expected", fn)
    return "\n      ".join(lets) + "\n      (%s, %s)" % (start, end)


def translate(repo):
    def mod(rel):
        with open(os.path.join(repo, rel)) as f:
            return ast.parse(f.read())
    tsf, rise, stsf, reg, col = mod(P_TSF), mod(P_RISE), mod(P_STSF), mod(P_REG), mod(P_COL)
    boss, cboss, base, fbase = mod(P_BOSS), mod(P_CBOSS), mod(P_BASE), mod(P_FBASE)
    tsf_c = _tsf_like(tsf, "TimeSeriesForestClassifier", "_predict_proba",
                      ["Xt = _transform(X, intervals)", "return estimator.predict_proba(Xt)"],
                      ["X", "self.estimators_[i]", "self.intervals_[i]"], "TimeSeriesForestClassifier")
    tsf_p = _forest_predict(_find(tsf, "TimeSeriesForestClassifier.predict"), "TimeSeriesForestClassifier")
    # STSF: same combination; members through its own method
    fn = _find(stsf, "SupervisedTimeSeriesForest.predict_proba")
    st = _strip(_body(fn), CHECKS + ["_, X_p = signal.periodogram(X)", "X_d = np.diff(X, 1)"], "STSF")
    a = _assign1(st[0]) if st else None
    if not (len(st) == 3 and a):
        _fail("SupervisedTimeSeriesForest.predict_proba: members, combination, return expected", fn)
    f, args = _parallel_gen(a[1], "STSF")
    if f != "self._predict_proba_for_estimator" or args != ["X", "X_p", "X_d", "self.intervals_[i]",
                                                            "self.estimators_[i]"]:
        _fail("STSF: member i must be its own tree on its own intervals", st[0])
    o = _assign1(st[1])
    if not o or _u(st[2]) != "return %s" % o[0]:
        _fail("STSF.predict_proba: combination / return", st[1])
    stsf_c, ty = _comb(o[1], {a[0]: ("rows", "M"), "self.n_estimators": ("qlen rows", "S")})
    stsf_p = _forest_predict(_find(stsf, "SupervisedTimeSeriesForest.predict"), "SupervisedTimeSeriesForest")
    stsf_place = _stsf_place(stsf)
    # RISE
    fn = _find(rise, "RandomIntervalSpectralForest.predict_proba")
    st = _strip(_body(fn), CHECKS + ["n_instances, n_columns = X.shape",
                                     "if n_columns != self.series_length: raise",
                                     "n_jobs, _, _ = _partition_estimators(self.n_estimators, self.n_jobs)"], "RISE")
    a = _assign1(st[0]) if st else None
    if not (len(st) == 2 and a and isinstance(st[1], ast.Return)):
        _fail("RandomIntervalSpectralForest.predict_proba: members, return expected", fn)
    # (RISE passes n_jobs=n_jobs; the generator is what matters)
    f, args = _parallel_gen(a[1], "RISE")
    if f != "_predict_proba_for_estimator" or args != ["X", "self.estimators_[i]", "self.intervals[i]",
                                                       "self.lags[i]"]:
        _fail("RISE: member i must be its own tree on its own interval and lag", st[0])
    rise_c, ty = _comb(st[1].value, {a[0]: ("rows", "M"), "self.n_estimators": ("qlen rows", "S")})
    rise_p = _forest_predict(_find(rise, "RandomIntervalSpectralForest.predict"), "RandomIntervalSpectralForest")
    reg_c = _regressor(reg)
    col_c = _colens(col)
    boss_c = _boss_facts(boss, "BOSSEnsemble", "1", "n_estimators",
                         "self.n_estimators = len(self.classifiers)", "BOSSEnsemble")
    cboss_c = _boss_facts(cboss, "ContractableBOSS", "self.weights[n]", "weight_sum",
                          "self.weight_sum = np.sum(self.weights)", "ContractableBOSS")
    iboss_c = _iboss(boss)
    cboss_w = _cboss_weight(cboss)
    _base(base)
    feat = _transform_facts(fbase)
    ivs = _get_intervals_facts(fbase)
    out = ["(* GENERATED by /verif/translator/combine_c17.py from the classifiers' predict_proba /",
           "   predict / score functions -- do not edit, never committed *)",
           "From Coq Require Import QArith List Bool ZArith.",
           "Require Import SkV.C17.Model.",
           "Import ListNotations.",
           "Open Scope Q_scope.",
           "",
           "(* one instance: `rows` = the members' rows, in member order *)",
           "Definition gen_tsf_combine (k : nat) (rows : list (list Q)) : list Q := %s." % tsf_c,
           "Definition gen_stsf_combine (k : nat) (rows : list (list Q)) : list Q := %s." % stsf_c,
           "Definition gen_rise_combine (k : nat) (rows : list (list Q)) : list Q := %s." % rise_c,
           "Definition gen_colens_combine (k : nat) (rows : list (list Q)) : list Q := %s." % col_c,
           "Definition gen_tsfreg_combine (preds : list Q) : Q := %s." % reg_c,
           "",
           "(* ContractableBOSS.fit: the weight of a member with leave-one-out train accuracy `acc` *)",
           "Definition gen_cboss_weight (acc : Q) : Q := %s." % cboss_w,
           "",
           "Section GenLabels.",
           "  Variable L : Type.",
           "  Variable eqb : L -> L -> bool.",
           "  (* predict of the three forests: the label of the first maximal column *)",
           "  Definition gen_tsf_predict (classes : list L) (row : list Q) : option L := %s." % tsf_p,
           "  Definition gen_stsf_predict (classes : list L) (row : list Q) : option L := %s." % stsf_p,
           "  Definition gen_rise_predict (classes : list L) (row : list Q) : option L := %s." % rise_p,
           "  (* SupervisedTimeSeriesForest._predict_proba_for_estimator: the row a tree contributes,",
           "     given the tree's own classes_ `tcls` and its own row over them *)",
           "  Definition gen_stsf_tree_row (classes tcls : list L) (row : list Q) : list Q :=",
           "    %s." % stsf_place,
           "  (* BOSSEnsemble / ContractableBOSS.predict_proba: `vs` = (member's predicted label, the",
           "     increment it adds), `denom` = self.n_estimators / self.weight_sum *)",
           "  Definition gen_boss_row (classes : list L) (vs : list (L * Q)) (denom : Q) : list Q :=",
           "    %s." % boss_c,
           "  Definition gen_cboss_row (classes : list L) (vs : list (L * Q)) (denom : Q) : list Q :=",
           "    %s." % cboss_c,
           "  (* IndividualBOSS.predict_proba: one-hot at the column of its own prediction *)",
           "  Definition gen_iboss_row (classes : list L) (pred : L) : list Q :=",
           "    %s." % iboss_c,
           "End GenLabels.",
           "",
           "(* _transform of the forest base class: the three features of one interval, in row order *)",
           "Definition gen_interval_features (x : list Q) (iv : interval) : list Q :=",
           "  let w := slice (fst iv) (snd iv) x in %s." % feat,
           "",
           "(* _get_intervals: one interval from two draws (a draw d stands for d mod high) *)",
           "Open Scope Z_scope.",
           "Definition gen_one_interval (min_interval series_length d1 d2 : Z) : interval :=",
           "      " + ivs + ".",
           ""]
    return {"C17/Sites.v": "\n".join(out)}


if __name__ == "__main__":
    import sys
    print(translate(sys.argv[1] if len(sys.argv) > 1 else "/repo")["C17/Sites.v"])
