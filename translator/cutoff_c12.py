"""C12: regenerate the CUTOFF DISCIPLINE of `predict` of the forecasters from /repo's source.

`predict` is an apply-type method: it must leave the forecaster as it found it.  The one piece of
state the prediction code legitimately moves is the cutoff (in-sample predictions of window
forecasters run a moving-cutoff pass: `_predict_in_sample` -> `_predict_moving_cutoff` ->
`_update_predict_single` -> `update` -> `_set_cutoff`), and it must be put back on EVERY path.
For every entry class of ENTRIES the code reachable from `predict` is reduced - fail closed - to a
`kstmt` of coq/C12/Model.v that keeps only what matters for that: assignments of `self._cutoff`
(`KSet`), the regions `with self._detached_cutoff():` (`KDetached`, accepted only if the context
manager really is "save the cutoff; yield; finally restore it"), control flow (`KIf` / `KLoop` /
`KAbort` for return and raise, opaque conditions) and function boundaries (`KCall`).  Calls of
methods of self are followed by virtual dispatch from the ENTRY class through its C3 linearisation
(wherever the classes live in the package; `super()` calls continue after the defining class),
properties read on self are followed too; a call that is already being followed (recursion:
predict -> .. -> _update_predict_single -> predict) is an arbitrary cutoff change (`KSet`).
C12/BridgeCutoff.v proves `guarded` of every generated program, hence (Proofs.v) the cutoff after
`predict` equals the cutoff before it for all conditions, loop counts, written values and exits.

Not understood (Unsupported = broken tie): `self` handed to a function outside the tables or bound
to another name, setattr / __dict__ / vars on self, a method of self that is found nowhere in the
package and is not in EXTERNAL_SELF_OK.
"""
import ast
import os

from .pyz import Unsupported
from .own_c12 import ModCtx, _dotted, _u

# (file, class): concrete forecasters whose `predict` is followed
ENTRIES = [
    ("sktime/forecasting/naive.py", "NaiveForecaster"),
    ("sktime/forecasting/trend.py", "PolynomialTrendForecaster"),
    ("sktime/forecasting/theta.py", "ThetaForecaster"),
    ("sktime/forecasting/exp_smoothing.py", "ExponentialSmoothing"),
    ("sktime/forecasting/compose/_reduce.py", "_RecursiveReducer"),
    ("sktime/forecasting/compose/_reduce.py", "_DirectReducer"),
    ("sktime/forecasting/compose/_reduce.py", "_MultioutputReducer"),
    ("sktime/forecasting/compose/_reduce.py", "_DirRecReducer"),
    ("sktime/forecasting/compose/_ensemble.py", "EnsembleForecaster"),
    ("sktime/forecasting/compose/_pipeline.py", "TransformedTargetForecaster"),
    ("sktime/forecasting/compose/_multiplexer.py", "MultiplexForecaster"),
    ("sktime/forecasting/compose/_stack.py", "StackingForecaster"),
    ("sktime/forecasting/online_learning/_online_ensemble.py", "OnlineEnsembleForecaster"),
]
ENTRY_METHOD = "predict"
FIELD = "_cutoff"
# methods of self defined outside the package (sklearn BaseEstimator, object): no cutoff there
EXTERNAL_SELF_OK = {"get_params", "set_params", "_get_param_names", "__repr__", "_get_tags",
                    "_more_tags", "_validate_names", "_get_params", "_set_params"}
# functions `self` may be handed to (they only look at it)
SELF_ARG_OK = {"type", "isinstance", "repr", "str", "id", "hasattr", "getattr", "callable",
               "check_is_fitted", "len"}
MAX_DEPTH = 40


def _c3(cls, ctx, cache):
    """C3 linearisation of a class over the package: [(ClassDef, ModCtx)]"""
    key = (ctx.rel, cls.name)
    if key in cache:
        return cache[key]
    cache[key] = None                      # cycle guard
    bases = []
    for b in cls.bases:
        name = _dotted(b)
        if name is None:
            raise Unsupported("%s: base of %s not understood: %s" % (ctx.rel, cls.name, _u(b)))
        kind, node, bx = ctx.resolve(name.split(".")[-1]) if "." not in name else (None, None, None)
        if kind == "class":
            bases.append((node, bx))
        # bases outside the package (sklearn, object) carry no cutoff code: left out
    seqs = []
    for node, bx in bases:
        lin = _c3(node, bx, cache)
        if lin is None:
            raise Unsupported("inheritance cycle at %s" % cls.name)
        seqs.append(list(lin))
    seqs.append(list(bases))
    out = [(cls, ctx)]
    ident = lambda p: (p[1].rel, p[0].name)
    while any(seqs):
        seqs = [q for q in seqs if q]
        for q in seqs:
            h = q[0]
            if not any(ident(h) in [ident(x) for x in r[1:]] for r in seqs):
                break
        else:
            raise Unsupported("no C3 linearisation for %s" % cls.name)
        out.append(h)
        seqs = [[x for x in q if ident(x) != ident(h)] for q in seqs]
    cache[key] = out
    return out


class Skeleton:
    def __init__(self, repo, rel, clsname):
        self.repo = repo
        self.ctx = ModCtx.load(repo, rel)
        if clsname not in self.ctx.classes:
            raise Unsupported("%s: class %s not found" % (rel, clsname))
        self.cls = self.ctx.classes[clsname]
        self.mro = _c3(self.cls, self.ctx, {})
        self.sets, self.conds, self.cnts = [], [], []
        self.stack = []

    def bad(self, node, why, fn=None):
        raise Unsupported("cutoff skeleton of %s.%s: %s line %s: %s: `%s`" % (
            self.cls.name, ENTRY_METHOD, fn.name if fn else "?", getattr(node, "lineno", "?"),
            why, _u(node)[:80]))

    # ---- lookup
    def lookup(self, name, after=None):
        """(FunctionDef, defining class, ctx) by virtual dispatch from the entry class (after a
        given class for super())"""
        started = after is None
        for c, cx in self.mro:
            if not started:
                if c is after:
                    started = True
                continue
            for n in c.body:
                if isinstance(n, ast.FunctionDef) and n.name == name:
                    return n, c, cx
        return None, None, None

    # ---- pieces
    def set_(self, src):
        self.sets.append(src)
        return ("set", len(self.sets) - 1)

    def seq(self, items):
        return [x for x in items if x]

    def is_field_store(self, t):
        return isinstance(t, ast.Attribute) and isinstance(t.value, ast.Name) \
            and t.value.id == "self" and t.attr == FIELD

    def reads_field(self, e):
        """`self._cutoff`, or a property of self whose getter just returns it"""
        if isinstance(e, ast.Attribute) and isinstance(e.value, ast.Name) and e.value.id == "self":
            if e.attr == FIELD:
                return True
            fn, _, _ = self.lookup(e.attr)
            if fn is not None and "property" in {_dotted(d) for d in fn.decorator_list}:
                body = [s for s in fn.body if not (isinstance(s, ast.Expr)
                                                   and isinstance(s.value, ast.Constant))]
                return len(body) == 1 and isinstance(body[0], ast.Return) \
                    and self.reads_field_direct(body[0].value)
        return False

    @staticmethod
    def reads_field_direct(e):
        return isinstance(e, ast.Attribute) and isinstance(e.value, ast.Name) \
            and e.value.id == "self" and e.attr == FIELD

    def is_restore(self, s, local):
        """`self._cutoff = <local>` directly or through a setter whose body is exactly that"""
        if isinstance(s, ast.Assign) and len(s.targets) == 1 and self.is_field_store(s.targets[0]) \
                and isinstance(s.value, ast.Name) and s.value.id == local:
            return True
        if isinstance(s, ast.Expr) and isinstance(s.value, ast.Call):
            c = s.value
            if isinstance(c.func, ast.Attribute) and isinstance(c.func.value, ast.Name) \
                    and c.func.value.id == "self" and len(c.args) == 1 and not c.keywords \
                    and isinstance(c.args[0], ast.Name) and c.args[0].id == local:
                fn, _, _ = self.lookup(c.func.attr)
                if fn is not None and len(fn.args.args) == 2 and not fn.decorator_list:
                    p = fn.args.args[1].arg
                    body = [x for x in fn.body if not (isinstance(x, ast.Expr)
                                                       and isinstance(x.value, ast.Constant))]
                    return len(body) == 1 and isinstance(body[0], ast.Assign) \
                        and len(body[0].targets) == 1 and self.is_field_store(body[0].targets[0]) \
                        and isinstance(body[0].value, ast.Name) and body[0].value.id == p
        return False

    def is_detached_manager(self, fn):
        """a generator context manager of the shape
               saved = <the cutoff>; try: yield  finally: <put saved back>"""
        if {_dotted(d) for d in fn.decorator_list} - {"contextmanager", "contextlib.contextmanager"} \
                or not fn.decorator_list or len(fn.args.args) != 1:
            return False
        body = [s for s in fn.body if not (isinstance(s, ast.Expr)
                                           and isinstance(s.value, ast.Constant))]
        if len(body) != 2:
            return False
        a, t = body
        if not (isinstance(a, ast.Assign) and len(a.targets) == 1
                and isinstance(a.targets[0], ast.Name) and self.reads_field(a.value)):
            return False
        local = a.targets[0].id
        return (isinstance(t, ast.Try) and not t.handlers and not t.orelse
                and len(t.body) == 1 and isinstance(t.body[0], ast.Expr)
                and isinstance(t.body[0].value, ast.Yield) and t.body[0].value.value is None
                and len(t.finalbody) == 1 and self.is_restore(t.finalbody[0], local))

    # ---- expressions: the cutoff-relevant events inside, in evaluation order
    def events(self, e, fn, cls):
        if e is None:
            return []
        out = []
        if isinstance(e, ast.Lambda):
            inner = self.events(e.body, fn, cls)
            return [("loop", self.cnt("lambda"), inner)] if inner else []
        if isinstance(e, (ast.ListComp, ast.SetComp, ast.GeneratorExp, ast.DictComp)):
            inner = []
            for g in e.generators:
                inner += self.events(g.iter, fn, cls)
                for c in g.ifs:
                    inner += self.events(c, fn, cls)
            inner += self.events(e.key, fn, cls) + self.events(e.value, fn, cls) \
                if isinstance(e, ast.DictComp) else self.events(e.elt, fn, cls)
            return [("loop", self.cnt("comprehension"), inner)] if inner else []
        if isinstance(e, ast.Name):
            if e.id == "self":
                self.bad(e, "`self` used as a value (it may be changed where it goes)", fn)
            return []
        if isinstance(e, ast.Attribute) and isinstance(e.value, ast.Name) and e.value.id == "self":
            if e.attr in ("__dict__", "__setattr__"):
                self.bad(e, "raw access to the attributes of self", fn)
            g, gc, gx = self.lookup(e.attr)
            if g is not None and "property" in {_dotted(d) for d in g.decorator_list}:
                return self.call(g, gc, gx, e)
            return []
        if isinstance(e, ast.Call):
            f = e.func
            d = _dotted(f)
            # super().m(..) / super(K, self).m(..)
            if isinstance(f, ast.Attribute) and isinstance(f.value, ast.Call) \
                    and _dotted(f.value.func) == "super":
                for a in list(e.args) + [k.value for k in e.keywords]:
                    out += self.events(a, fn, cls)
                g, gc, gx = self.lookup(f.attr, after=cls)
                if g is None:
                    if f.attr in EXTERNAL_SELF_OK or f.attr == "__init__":
                        return out
                    self.bad(e, "super() method found nowhere in the package", fn)
                return out + self.call(g, gc, gx, e)
            # self.m(..)
            if isinstance(f, ast.Attribute) and isinstance(f.value, ast.Name) \
                    and f.value.id == "self":
                for a in list(e.args) + [k.value for k in e.keywords]:
                    out += self.events(a.value if isinstance(a, ast.Starred) else a, fn, cls)
                g, gc, gx = self.lookup(f.attr)
                if g is None:
                    if f.attr in EXTERNAL_SELF_OK:
                        return out
                    # a callable kept in an attribute (e.g. a user function): it does not get self
                    return out
                return out + self.call(g, gc, gx, e)
            if d in ("setattr", "vars", "object.__setattr__", "delattr"):
                self.bad(e, "setattr / vars", fn)
            # any other call: `self` may only be handed to functions that just look at it
            args = list(e.args) + [k.value for k in e.keywords]
            for a in args:
                a = a.value if isinstance(a, ast.Starred) else a
                if isinstance(a, ast.Name) and a.id == "self":
                    if d in SELF_ARG_OK or (d or "").split(".")[-1] in SELF_ARG_OK:
                        continue
                    self.bad(e, "`self` handed to a function outside SELF_ARG_OK", fn)
                out += self.events(a, fn, cls)
            out = self.events(f, fn, cls) + out if not isinstance(f, ast.Name) else out
            return out
        for c in ast.iter_child_nodes(e):
            if isinstance(c, ast.expr):
                out += self.events(c, fn, cls)
            elif isinstance(c, (ast.keyword,)):
                out += self.events(c.value, fn, cls)
            elif isinstance(c, ast.comprehension):
                out += self.events(c.iter, fn, cls)
        return out

    def cnt(self, src):
        self.cnts.append(src)
        return len(self.cnts) - 1

    def cond(self, src):
        self.conds.append(src)
        return len(self.conds) - 1

    def call(self, g, gc, gx, node):
        """the cutoff skeleton of a call of g (defined in class gc)"""
        if g in self.stack:
            return [self.set_("recursive call of %s: any change" % g.name)]
        if len(self.stack) > MAX_DEPTH:
            self.bad(node, "call chain too deep")
        self.stack.append(g)
        try:
            body = self.block(g.body, g, gc)
        finally:
            self.stack.pop()
        return [("call", g.name, body)] if body else []

    # ---- statements
    def block(self, stmts, fn, cls):
        out = []
        for s in stmts:
            out += self.stmt(s, fn, cls)
        return out

    def stmt(self, s, fn, cls):
        ev = lambda e: self.events(e, fn, cls)
        if isinstance(s, (ast.Pass, ast.Break, ast.Continue, ast.Import, ast.ImportFrom,
                          ast.Global, ast.Nonlocal)):
            return []
        if isinstance(s, ast.Expr):
            if isinstance(s.value, (ast.Yield, ast.YieldFrom)):
                # a generator helper: its body is counted where it is called (it runs, piecewise,
                # while the caller iterates)
                return ev(s.value.value)
            return ev(s.value)
        if isinstance(s, (ast.Assign, ast.AnnAssign, ast.AugAssign)):
            targets = s.targets if isinstance(s, ast.Assign) else [s.target]
            out = ev(s.value) if s.value is not None else []
            if isinstance(s.value, ast.Name) and s.value.id == "self":
                self.bad(s, "self bound to another name", fn)
            for t in targets:
                for x in ast.walk(t):
                    if self.is_field_store(x) and isinstance(x.ctx, ast.Store):
                        out.append(self.set_(_u(s)[:60]))
                    elif isinstance(x, ast.Attribute) and isinstance(x.value, ast.Name) \
                            and x.value.id == "self" and isinstance(x.ctx, ast.Store):
                        g, gc, gx = self.lookup(x.attr)
                        if g is not None:       # a property with a setter: not understood
                            self.bad(s, "assignment to a property / method of self", fn)
                if isinstance(t, ast.Subscript):
                    out += ev(t.value) + ev(t.slice)
            return out
        if isinstance(s, ast.Return):
            if isinstance(s.value, ast.Name) and s.value.id == "self":
                return [("abort",)]
            return ev(s.value) + [("abort",)]
        if isinstance(s, ast.Raise):
            return ev(s.exc) + [("abort",)]
        if isinstance(s, ast.Assert):
            return ev(s.test)
        if isinstance(s, ast.Delete):
            for t in s.targets:
                if self.is_field_store(t) or (isinstance(t, ast.Attribute)
                                              and isinstance(t.value, ast.Name)
                                              and t.value.id == "self" and t.attr == FIELD):
                    return [self.set_(_u(s)[:60])]
            return []
        if isinstance(s, ast.If):
            pre = ev(s.test)
            a, b = self.block(s.body, fn, cls), self.block(s.orelse, fn, cls)
            return pre + ([("if", self.cond(_u(s.test)[:60]), a, b)] if a or b else [])
        if isinstance(s, (ast.For, ast.While)):
            pre = ev(s.iter) if isinstance(s, ast.For) else []
            body = (ev(s.test) if isinstance(s, ast.While) else []) + self.block(s.body, fn, cls)
            post = self.block(s.orelse, fn, cls)
            return pre + ([("loop", self.cnt(_u(s)[:40].split("\n")[0]), body)] if body else []) + post
        if isinstance(s, ast.Try):
            out = self.block(s.body, fn, cls)
            for h in s.handlers:
                hb = self.block(h.body, fn, cls)
                if hb:
                    out.append(("if", self.cond("except"), hb, []))
            return out + self.block(s.orelse, fn, cls) + self.block(s.finalbody, fn, cls)
        if isinstance(s, ast.With):
            out = []
            detached = False
            for it in s.items:
                c = it.context_expr
                if isinstance(c, ast.Call) and isinstance(c.func, ast.Attribute) \
                        and isinstance(c.func.value, ast.Name) and c.func.value.id == "self" \
                        and not c.args and not c.keywords:
                    g, gc, gx = self.lookup(c.func.attr)
                    if g is not None and self.is_detached_manager(g):
                        detached = True
                        continue
                    if g is not None and {_dotted(d) for d in g.decorator_list} & {
                            "contextmanager", "contextlib.contextmanager"}:
                        self.bad(s, "context manager of self that is not save-yield-restore", fn)
                out += ev(c)
            body = self.block(s.body, fn, cls)
            return out + ([("detached", body)] if detached else body)
        if isinstance(s, (ast.FunctionDef, ast.ClassDef)):
            if isinstance(s, ast.FunctionDef):
                inner = self.block(s.body, s, cls)
                # defined here, run who knows where: counted here, zero or more times
                return [("loop", self.cnt("local function " + s.name), [("call", s.name, inner)])] \
                    if inner else []
            return []
        self.bad(s, "statement form not understood", fn)

    def translate(self):
        g, gc, gx = self.lookup(ENTRY_METHOD)
        if g is None:
            raise Unsupported("%s has no %s" % (self.cls.name, ENTRY_METHOD))
        return self.call(g, gc, gx, g)


def _coq(s, ind):
    if not s:
        return "KSkip"
    pad = " " * ind

    def one(t):
        k = t[0]
        if k == "set":
            return "KSet %d" % t[1]
        if k == "abort":
            return "KAbort"
        if k == "if":
            return "KIf %d\n%s  (%s)\n%s  (%s)" % (t[1], pad, _coq(t[2], ind + 2), pad,
                                                 _coq(t[3], ind + 2))
        if k == "loop":
            return "KLoop %d\n%s  (%s)" % (t[1], pad, _coq(t[2], ind + 2))
        if k == "detached":
            return "KDetached\n%s  (%s)" % (pad, _coq(t[1], ind + 2))
        if k == "call":
            return "KCall (* %s *)\n%s  (%s)" % (t[1], pad, _coq(t[2], ind + 2))
        raise AssertionError(k)
    if len(s) == 1:
        return one(s[0])
    return "KSeq (%s)\n%s(%s)" % (one(s[0]), pad, _coq(s[1:], ind))


def _count(s, kind):
    n = 0
    for t in s:
        if t[0] == kind:
            n += 1
        for x in t[1:]:
            if isinstance(x, list):
                n += _count(x, kind)
    return n


def extract(repo):
    ModCtx._cache.clear()
    out = []
    for rel, cls in ENTRIES:
        if not os.path.exists(os.path.join(repo, rel)):
            raise Unsupported("anchored file missing: " + rel)
        sk = Skeleton(repo, rel, cls)
        body = sk.translate()
        out.append({"name": cls, "file": rel, "body": body, "sets": sk.sets,
                    "nsets": _count(body, "set"), "ndetached": _count(body, "detached")})
    return out


def _cs(s):
    return '"' + s.replace('"', '""').replace("\n", " ") + '"'


def translate(repo):
    ps = extract(repo)
    L = ["(* GENERATED by /verif/translator/cutoff_c12.py from %s -- do not edit, never committed *)"
         % repo,
         "From Coq Require Import List String.",
         "Require Import SkV.C12.Model.",
         "Import ListNotations.", ""]
    for p in ps:
        L.append("(* %s.predict (%s): %d cutoff assignments reachable, %d detached regions"
                 % (p["name"], p["file"], p["nsets"], p["ndetached"]))
        for i, src in enumerate(p["sets"]):
            L.append("     set %d: %s" % (i, src.replace("*)", "* )").replace("(*", "( *")))
        L.append("*)")
        L.append("Definition cutoff_%s : kstmt :=\n  %s.\n" % (p["name"].lower().strip("_"),
                                                            _coq(p["body"], 2)))
    L.append("Open Scope string_scope.")
    L.append("Definition cutoff_progs : list (string * kstmt) := [")
    L.append(";\n".join("  (%s, cutoff_%s)" % (_cs(p["name"]), p["name"].lower().strip("_"))
                        for p in ps))
    L.append("].")
    return {"C12/Cutoff.v": "\n".join(L) + "\n"}
