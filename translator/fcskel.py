"""fcskel: fail-closed symbolic translation of forecaster METHOD BODIES into Gallina let-chains.

Shared by translator/compose_c09.py (C09) and translator/sktimebase_c10.py (C10).  A method body is
walked statement by statement, in source order; every statement / expression / call must have a
shape registered below or in the subclass, anything else raises Unsupported (a broken tie).

What the engine does, independent of the property:
  * Python locals become Gallina variables `v_<name>` (re-assignment = shadowing `let`), so renaming
    a local variable of the source changes nothing up to alpha-equivalence;
  * mutable object state lives in CELLS (Gallina variables with fixed names, e.g. `self`, `b`, `tc`):
    a mutating call re-binds the cell (`let self := ... in`), so "the current state" is always the
    variable of that name;
  * call arguments are bound BY NAME against the signature of the callee read from the source
    (positional and keyword arguments, defaults), never by position in the emitted term;
  * `if` is emitted as `if c then .. else ..` / `match o with Some x => .. | None => .. end`
    (`x is None` on option-typed values refines the variable); branches that do not return are
    merged through the tuple of the variables they assign, branches that return / raise duplicate
    the continuation;
  * `for` is emitted as `fold_left` over the tuple of the loop-carried variables (found by
    translating the body once); a body that may raise carries an `ok_` flag and stops;
  * behaviour-preserving rewrites that are followed (the emitted term comes out equal or provably
    equal, the Bridge proofs are semantic): helpers extracted into `self._helper(...)` of the class /
    a base class / a module-level function are INLINED at the call (parameters bound by name,
    defaults from the signature, fresh prefix for the helper's locals, object state shared; the body
    must be straight-line code, loops and non-returning ifs, optionally ending in `return <expr>`,
    also a tuple); guard clauses (`if c: return ..` + rest == if/else), `if c: continue` in a loop,
    bare `return` in a state-changing method; `a and b` / `a or b` with an `is None` conjunct as
    nested ifs; conditional expression vs if/else assignment;
    temporaries introduced or inlined; loops vs comprehensions / generator expressions;
    `for x in (<constants>)` is unrolled (a dispatch loop is an if-chain); `getattr(obj, <constant
    name>)(..)` is `obj.<name>(..)`; names bound to boolean / string constants are propagated
    (`reverse=inverse` with inverse=True); truthiness of an integer (`if not len(y)`);
  * third round: helpers with early returns used as `x = helper(..)` are inlined with the caller's
    continuation duplicated per return path; a list created empty and only appended n-tuples is n
    parallel lists (collect pairs + unzip == two lists in lock step); module-level constant tuples
    are resolved by value; `@staticmethod` helpers; `list()` == `[]`;
  * exceptions: the text of "what the function evaluates to when an exception propagates from here"
    is a stack (`self.failtext`): function level, loop level (accumulator with ok_ = false),
    `with` + try/finally level (run the finally part, then the outer text).
"""
import ast
import re

from .pyz import Unsupported


def u(n):
    return ast.unparse(n)


def fail(msg, node=None):
    raise Unsupported("%s%s" % (msg, "" if node is None else " [line %s: %s]" % (
        getattr(node, "lineno", "?"), u(node)[:140])))


def find(mod, path):
    node = mod
    for p in path.split("."):
        hits = [n for n in node.body if isinstance(n, (ast.FunctionDef, ast.ClassDef)) and n.name == p]
        if len(hits) != 1:
            fail("expected exactly one definition of %s, found %d" % (path, len(hits)))
        node = hits[0]
    return node


def body_of(fn):
    """statements of a function without its docstring"""
    b = list(fn.body)
    if b and is_doc(b[0]):
        b = b[1:]
    return b


def is_doc(s):
    return isinstance(s, ast.Expr) and isinstance(s.value, ast.Constant) and isinstance(s.value.value, str)


def sig_of(fn):
    """parameter names (without self) and their default nodes; no *args / keyword-only"""
    a = fn.args
    if a.vararg or a.kwonlyargs or a.posonlyargs:
        fail("unsupported parameter list of %s" % fn.name, fn)
    names = [x.arg for x in a.args]
    if names and names[0] == "self":
        names = names[1:]
    defaults = dict(zip(names[len(names) - len(a.defaults):], a.defaults)) if a.defaults else {}
    return names, defaults, (a.kwarg.arg if a.kwarg else None)


def bind(call, sig, what, star_ok=()):
    """positional + keyword arguments of `call` against the parameter names `sig` -> {param: node}"""
    out = {}
    if len(call.args) > len(sig):
        fail(what + ": too many positional arguments", call)
    for p, a in zip(sig, call.args):
        if isinstance(a, ast.Starred):
            fail(what + ": starred argument", call)
        out[p] = a
    for kw in call.keywords:
        if kw.arg is None:
            if u(kw.value) in star_ok:
                continue
            fail(what + ": **" + u(kw.value), call)
        if kw.arg not in sig or kw.arg in out:
            fail(what + ": keyword %s" % kw.arg, call)
        out[kw.arg] = kw.value
    return out


def gname(n):
    n = re.sub(r"[^A-Za-z0-9_]", "_", n)
    return "v_" + n


class V:
    """a translated value: Gallina term, type tag; opt=True: the term has type `option <ty>` and
    the Python evaluation raises iff it is None; py: python-side payload (tuple parts, string)"""

    def __init__(self, t, ty, opt=False, py=None):
        self.t, self.ty, self.opt, self.py = t, ty, opt, py


class NeedDup(Exception):
    pass


class NeedNest(Unsupported):
    """a condition `a and b` / `a or b` with an `is None` conjunct: only as nested ifs"""

    def __init__(self):
        Unsupported.__init__(self, "`is None` test inside and/or, outside an if statement")


class _RenameLocals(ast.NodeTransformer):
    """prefix the parameters and locals of an inlined helper (no capture of the caller's names)"""

    def __init__(self, prefix, local):
        self.prefix, self.local = prefix, local

    def visit_Name(self, n):
        if n.id in self.local and n.id != "self":
            n.id = self.prefix + n.id
        return n


def resolved_return(fn):
    """the expression a function returns, with single-assignment temporaries substituted (so that
    `x = f(a); return x` and `return f(a)` are the same fact); None if it does not end in a return"""
    body = body_of(fn)
    if not body or not isinstance(body[-1], ast.Return) or body[-1].value is None:
        return None
    assigns = {}
    for st in ast.walk(fn):
        if isinstance(st, ast.Assign) and len(st.targets) == 1 and isinstance(st.targets[0], ast.Name):
            assigns.setdefault(st.targets[0].id, []).append(st.value)

    class Sub(ast.NodeTransformer):
        def visit_Name(self, n):
            vs = assigns.get(n.id)
            if isinstance(n.ctx, ast.Load) and vs and len(vs) == 1:
                return self.visit(ast.parse(ast.unparse(vs[0]), mode="eval").body)
            return n
    return ast.unparse(Sub().visit(ast.parse(ast.unparse(body[-1].value), mode="eval").body))


SENTINEL = "(*!FAIL!*)"


def nest(wraps, inner):
    for w in reversed(wraps):
        k = w[0]
        if k == "let":
            inner = "let %s := %s in\n%s" % (w[1], w[2], inner)
        elif k == "some":
            inner = "match %s with\n| Some %s =>\n%s\n| None => %s\nend" % (w[2], w[1], inner, w[3])
        elif k == "ok":
            inner = "let '(%s, ok_) := %s in\nif ok_ then\n%s\nelse %s" % (w[1], w[2], inner, w[3])
        elif k == "res":
            inner = "match %s with\n| Ok %s =>\n%s\n| Err => %s\nend" % (w[2], w[1], inner, w[3])
        elif k == "pred":
            inner = "let '(%s, r_) := %s in\nmatch r_ with\n| BPred %s =>\n%s\n| _ => %s\nend" % (
                w[1], w[4], w[2], inner, w[3])
        elif k == "iftrue":
            inner = "if %s then\n%s\nelse %s" % (w[1], inner, w[2])
        else:
            raise AssertionError(k)
    return inner


def paren(t):
    return "(" + t.replace("\n", "\n ") + ")"


class Engine:
    """Subclasses provide: OPTION (option type tag -> inner tag), calls (dict key -> handler),
    self_attr / write_self_attr / ret / loop_source / bind_target / with_stmt hooks."""

    OPTION = {}
    SPECIALISED_FALSE = ("return_pred_int",)   # parameters the translation is specialised to False

    def __init__(self):
        self.failtext = []
        self.bound = []          # log of (re)bound Gallina names (to find loop-carried variables)
        self.fresh = 0
        self.calls = {}
        self.aux = []            # auxiliary definitions (loop bodies) to emit before the function
        self.nloops = 0
        self.cur_name = "gen"
        self.loopfin = []        # what `continue` evaluates to: the accumulator of the running loop
        self.retk = []           # continuations of helpers inlined at `x = helper(..)` with early returns
        self.soa = {}            # lists that only ever receive n-tuples: kept as n parallel lists
        self.inlining = []       # names of the helpers being inlined (no recursion)
        self.ninline = 0

    # ------------------------------------------------------------------ helpers
    def newname(self, stem):
        self.fresh += 1
        return "%s%d_" % (stem, self.fresh)

    def cur_fail(self):
        if not self.failtext:
            fail("an exception may propagate here but the function is configured as total")
        t = self.failtext[-1]
        if t is None:
            raise NeedDup()
        return t

    def let(self, W, env, name, term, ty, key=None):
        """bind python local `name` (or cell when key starts with '$')"""
        if ty != "none" and term != "":  # a value specialised to None / without a term needs no binding
            W.append(("let", name, term))
            self.bound.append(name)
        env[key if key is not None else name] = ty

    def force(self, v, env, W, stem="x"):
        """make an option-valued (may-raise) value definite: match ... with Some x => | None => fail"""
        if not v.opt:
            return v
        n = self.newname(stem)
        W.append(("some", n, v.t, self.cur_fail()))
        return V(n, v.ty, py=v.py)

    # ------------------------------------------------------------------ expressions
    def expr(self, e, env, W):
        if isinstance(e, ast.Constant):
            c = e.value
            if isinstance(c, bool):
                return V("true" if c else "false", "B", py=c)
            if isinstance(c, int):
                return V("(%d)" % c, "Z")
            if c is None:
                return V("None", "none")
            if isinstance(c, str):
                return V("", "str", py=c)
            fail("constant %r" % (c,), e)
        if isinstance(e, ast.Name):
            if e.id in env:
                if env[e.id].startswith("soa"):
                    return V("", env[e.id], py={"soa": e.id})
                return V(gname(e.id), env[e.id], py=env.get("@py:" + e.id))
            c = self.module_constant(e.id)
            if c is not None:                     # a module-level constant (tuple): by value
                return self.expr(c, {}, W)
            fail("unbound name " + e.id, e)
        if isinstance(e, ast.Attribute):
            if isinstance(e.value, ast.Name) and e.value.id == "self":
                return self.self_attr(e.attr, e, env, W)
            base = self.expr(e.value, env, W)
            return self.attr(base, e.attr, e, env, W)
        if isinstance(e, ast.Subscript):
            base = self.expr(e.value, env, W)
            return self.subscript(base, e.slice, e, env, W)
        if isinstance(e, ast.Call):
            return self.call(e, env, W)
        if isinstance(e, (ast.Compare, ast.BoolOp)) or \
                (isinstance(e, ast.UnaryOp) and isinstance(e.op, ast.Not)):
            c = self.cond(e, env, W)
            if c["k"] == "static":
                return V("true" if c["v"] else "false", "B")
            if c["k"] == "bool":
                return V(c["t"], "B")
            fail("`is None` test used as a value", e)
        if isinstance(e, ast.UnaryOp) and isinstance(e.op, ast.USub):
            v = self.expr(e.operand, env, W)
            self.need(v, "Z", e)
            return V("(- %s)" % v.t, "Z")
        if isinstance(e, ast.BinOp) and isinstance(e.op, (ast.Add, ast.Sub)):
            a = self.force(self.expr(e.left, env, W), env, W)
            b = self.force(self.expr(e.right, env, W), env, W)
            self.need(a, "Z", e)
            self.need(b, "Z", e)
            return V("(%s %s %s)" % (a.t, "+" if isinstance(e.op, ast.Add) else "-", b.t), "Z")
        if isinstance(e, ast.IfExp):
            return self.ifexp(e, env, W)
        if isinstance(e, (ast.ListComp, ast.GeneratorExp)):
            return self.comprehension(e, env, W)
        if isinstance(e, ast.Tuple):
            parts = [self.force(self.expr(x, env, W), env, W) for x in e.elts]
            return V("(%s)" % ", ".join(p.t for p in parts), "tuple", py=parts)
        fail("expression", e)

    def need(self, v, ty, node):
        if v.opt or v.ty != ty:
            fail("type %s%s where %s expected" % ("option " if v.opt else "", v.ty, ty), node)

    def attr(self, base, attr, e, env, W):
        if (base.ty, attr) in self.calls:
            # a bound method used as a value (`f = y_pred.median`): applied when it is called
            return V("", "callable", py=("method", e))
        fail("attribute .%s of a value of type %s" % (attr, base.ty), e)

    def apply_callable(self, c, e, env, W):
        """call a callable value: a bound method, or a conditional choice between callables (the
        call distributes over the choice)"""
        if c[0] == "method":
            new = ast.copy_location(ast.Call(func=c[1], args=e.args, keywords=e.keywords), e)
            return self.call(new, env, W)
        _, cond, a, b = c
        if cond["k"] != "bool":
            fail("choice between callables on an `is None` test", e)
        out = []
        for x in (a, b):
            Wx = []
            v = self.force(self.apply_callable(x, e, dict(env), Wx), env, Wx)
            if any(w[0] != "let" for w in Wx):
                fail("a chosen callable has effects", e)
            out.append((v, paren(nest(Wx, v.t))))
        if out[0][0].ty != out[1][0].ty:
            fail("chosen callables return %s / %s" % (out[0][0].ty, out[1][0].ty), e)
        return V(self.choose(cond, out[0][1], out[1][1]), out[0][0].ty)

    def subscript(self, base, sl, e, env, W):
        fail("subscript of a value of type %s" % base.ty, e)

    def self_attr(self, attr, e, env, W):
        fail("self.%s" % attr, e)

    def call(self, e, env, W):
        f = e.func
        recv = None
        if isinstance(f, ast.Call) and isinstance(f.func, ast.Name) and f.func.id == "getattr" \
                and len(f.args) == 2 and not f.keywords:
            # getattr(obj, <constant name>)(...) is obj.<name>(...)
            nm = self.expr(f.args[1], env, W)
            if nm.ty != "str" or not isinstance(nm.py, str) or not nm.py.isidentifier():
                fail("getattr with a name that is not a known constant", e)
            new = ast.copy_location(ast.Call(
                func=ast.copy_location(ast.Attribute(value=f.args[0], attr=nm.py, ctx=ast.Load()), f),
                args=e.args, keywords=e.keywords), e)
            return self.call(new, env, W)
        if isinstance(f, ast.Name) and env.get(f.id) == "callable":
            return self.apply_callable(env["@py:" + f.id], e, env, W)
        if isinstance(f, ast.Name):
            key = ("fn", f.id)
        elif isinstance(f, ast.Attribute) and isinstance(f.value, ast.Name) and f.value.id == "self":
            key = ("self", f.attr)
        elif isinstance(f, ast.Attribute) and ("fn", u(f)) in self.calls:
            key = ("fn", u(f))
        elif isinstance(f, ast.Attribute):
            recv = self.expr(f.value, env, W)
            key = (recv.ty, f.attr)
        else:
            key = None
        h = self.calls.get(key)
        if h is None and key is not None and key[0] in ("self", "fn"):
            # a helper extracted into the same class / its base classes / the same module: inline it
            fn = self.find_callable(key[1], key[0] == "self")
            if fn is not None:
                return self.inline_call(fn, e, env, W, key[0] == "self")
        if h is None:
            fail("call of %s" % (key,), e)
        return h(e, recv, env, W)

    def module_constant(self, name):
        """value node of a module-level `NAME = <constant or tuple / list of constants>` of the
        translated source (assigned exactly once), or None"""
        mod = self.current_module()
        if mod is None:
            return None
        hits = [n for n in mod.body if isinstance(n, ast.Assign) and len(n.targets) == 1
                and isinstance(n.targets[0], ast.Name) and n.targets[0].id == name]
        if len(hits) != 1:
            return None
        v = hits[0].value
        if isinstance(v, ast.Constant) or (isinstance(v, (ast.Tuple, ast.List)) and v.elts and all(
                isinstance(x, ast.Constant) for x in v.elts)):
            return v if not isinstance(v, ast.List) else ast.Tuple(elts=v.elts, ctx=ast.Load())
        return None

    def current_module(self):
        return None

    def helper_of(self, e):
        """(FunctionDef, is_method) when `e` calls a helper of the source that has no handler"""
        f = e.func
        if isinstance(f, ast.Name):
            key = ("fn", f.id)
        elif isinstance(f, ast.Attribute) and isinstance(f.value, ast.Name) and f.value.id == "self":
            key = ("self", f.attr)
        else:
            return None
        if key in self.calls:
            return None
        fn = self.find_callable(key[1], key[0] == "self")
        return (fn, key[0] == "self") if fn is not None else None

    # ------------------------------------------------------------------ interprocedural: inlining
    def find_callable(self, name, is_method):
        """FunctionDef of a helper `self.<name>` / module-level `<name>` of the translated source
        (subclasses know where to look), or None"""
        return None

    def enter_helper(self, fn):
        return None

    def leave_helper(self, token):
        return

    def inline_call(self, fn, call, env, W, is_method):
        """Translate a call of a helper by translating its body in place: parameters are bound by
        name to the arguments (defaults from the signature), the helper's locals get a fresh prefix,
        object state (cells) is shared with the caller.  The body must be straight-line code, loops
        and non-returning ifs, optionally ending in `return <expr>`."""
        if fn.name in self.inlining or len(self.inlining) > 4:
            fail("recursive helper %s" % fn.name, call)
        if [u(d) for d in fn.decorator_list] not in ([], ["staticmethod"]):
            fail("decorated helper %s" % fn.name, call)
        body, env2 = self.bind_helper(fn, call, env, W, is_method)
        ret = None
        if body and isinstance(body[-1], ast.Return):
            ret, body = body[-1].value, body[:-1]
        self.inlining.append(fn.name)
        token = self.enter_helper(fn)
        saved_loopfin, self.loopfin = self.loopfin, []
        try:
            self.seq(body, env2, W)
            v = None
            if ret is not None and not (isinstance(ret, ast.Name) and ret.id == "self"):
                v = self.expr(ret, env2, W)
        finally:
            self.loopfin = saved_loopfin
            self.leave_helper(token)
            self.inlining.pop()
        for k in env2:
            if k[0] == "$" or k == "@fitted":
                env[k] = env2[k]
        return v

    def scan_soa(self, stmts):
        """names of lists that are created empty and only appended n-tuples"""
        arity, other = {}, set()
        for st in stmts:
            for n in ast.walk(st):
                if isinstance(n, ast.Call) and isinstance(n.func, ast.Attribute) and n.func.attr == "append" \
                        and isinstance(n.func.value, ast.Name) and len(n.args) == 1:
                    nm = n.func.value.id
                    if isinstance(n.args[0], ast.Tuple):
                        if arity.setdefault(nm, len(n.args[0].elts)) != len(n.args[0].elts):
                            other.add(nm)
                    else:
                        other.add(nm)
        for nm, k in arity.items():
            if nm not in other:
                self.soa[nm] = k

    def bind_helper(self, fn, call, env, W, is_method):
        """rename the helper's locals, bind its parameters to the arguments -> (body, environment)"""
        self.ninline += 1
        prefix = "h%d_" % self.ninline
        names, defaults, kw = sig_of(fn)
        if kw:
            fail("helper %s takes **%s" % (fn.name, kw), call)
        if not is_method and fn.args.args and fn.args.args[0].arg == "self":
            fail("module-level helper with a self parameter", call)
        b = bind(call, names, fn.name)
        local = set(names) | {n.id for n in ast.walk(fn) if isinstance(n, ast.Name)
                              and isinstance(n.ctx, ast.Store)}
        body = [_RenameLocals(prefix, local).visit(ast.parse(ast.unparse(st)).body[0])
                for st in body_of(fn)]
        self.scan_soa(body)
        env2 = {k: v for k, v in env.items() if k[0] in "$#" or k == "@fitted"}
        for p in names:
            node = b.get(p, defaults.get(p))
            if node is None:
                fail("call of the helper %s gives no value for %s" % (fn.name, p), call)
            if isinstance(node, ast.Name) and node.id not in env and self.passes_through(node.id):
                env2["@through:" + prefix + p] = node.id      # e.g. alpha=alpha: handed on, never read
                continue
            v = self.force(self.expr(node, env, W), env, W)
            self.assign_name(prefix + p, v, call, env2, W)
        return body, env2

    @staticmethod
    def is_through(node, p, env):
        """is `node` the parameter p handed on unchanged (possibly through inlined helpers)?"""
        return isinstance(node, ast.Name) and (node.id == p or env.get("@through:" + node.id) == p)

    def passes_through(self, name):
        """names of parameters the translation never reads (specialised / ignored)"""
        return name in self.SPECIALISED_FALSE

    def inline_tail(self, fn, call, env, fin, is_method):
        """`return helper(args)`: the helper's body continues the function (its returns are the
        function's returns, so guard clauses inside it are fine)"""
        if fn.name in self.inlining or len(self.inlining) > 4:
            fail("recursive helper %s" % fn.name, call)
        if [u(d) for d in fn.decorator_list] not in ([], ["staticmethod"]):
            fail("decorated helper %s" % fn.name, call)
        W = []
        body, env2 = self.bind_helper(fn, call, env, W, is_method)
        self.inlining.append(fn.name)
        token = self.enter_helper(fn)
        saved_loopfin, self.loopfin = self.loopfin, []
        try:
            text = self.block(body, env2, lambda e: self.ret(None, e, []))
        finally:
            self.loopfin = saved_loopfin
            self.leave_helper(token)
            self.inlining.pop()
        return nest(W, text)

    @staticmethod
    def returns_early(fn):
        """does the helper return from anywhere but its last top-level statement?"""
        b = body_of(fn)
        inner = b[:-1] if b and isinstance(b[-1], ast.Return) else b
        return any(isinstance(n, ast.Return) for st in inner for n in ast.walk(st)) \
            and not any(isinstance(n, (ast.Yield, ast.YieldFrom)) for n in ast.walk(fn))

    def inline_assign(self, fn, s, rest, env, fin, is_method):
        """`x = helper(args)` where the helper has guard clauses / several returns: the helper's body
        is translated in place and every `return e` continues with `x = e; <rest of the caller>`
        (the continuation is duplicated per return path)"""
        if fn.name in self.inlining or len(self.inlining) > 4:
            fail("recursive helper %s" % fn.name, s)
        if [u(d) for d in fn.decorator_list] not in ([], ["staticmethod"]):
            fail("decorated helper %s" % fn.name, s)
        W = []
        body, env2 = self.bind_helper(fn, s.value, env, W, is_method)
        caller_env = dict(env)
        depth = len(self.retk)

        def k(value, env_h):
            Wk = []
            saved = self.retk
            self.retk = self.retk[:depth]         # the continuation belongs to the caller
            try:
                if value is None:
                    fail("helper %s returns nothing on some path" % fn.name, s)
                v = self.force(self.expr(value, env_h, Wk), env_h, Wk)
                e2 = dict(caller_env)
                for key in env_h:
                    if key[0] == "$" or key == "@fitted":
                        e2[key] = env_h[key]
                tg = s.targets[0]
                if isinstance(tg, ast.Name):
                    self.assign_name(tg.id, v, s, e2, Wk)
                else:
                    self.assign_tuple([x.id for x in tg.elts], v, s, e2, Wk)
                return nest(Wk, self.block(rest, e2, fin))
            finally:
                self.retk = saved
        self.retk = self.retk + [k]
        self.inlining.append(fn.name)
        token = self.enter_helper(fn)
        saved_loopfin, self.loopfin = self.loopfin, []
        try:
            text = self.block(body, env2, lambda e: k(None, e))
        finally:
            self.loopfin = saved_loopfin
            self.leave_helper(token)
            self.inlining.pop()
            self.retk = self.retk[:depth]
        return nest(W, text)

    def try_finally(self, body, finalbody, rest, env, fin):
        """try: body finally: finalbody; the finally part runs on the normal path (before `rest`)
        and on the raising path (before the enclosing fail text)"""
        exitW = []
        env_exit = dict(env)
        for st in finalbody:
            self.simple(st, env_exit, exitW)
        if any(w[0] != "let" for w in exitW):
            fail("the finally part may raise", finalbody[0])

        def after(e):
            top = self.failtext.pop()             # the code after the try is outside its protection
            try:
                return nest(exitW, self.block(rest, dict(e), fin))
            finally:
                self.failtext.append(top)
        self.failtext.append(paren(nest(exitW, self.cur_fail())))
        try:
            return self.block(body, env, after)
        finally:
            self.failtext.pop()

    def context_manager(self, s, rest, env, fin):
        """`with self.<cm>():` for a parameterless generator-based context manager of the source:
        its statements before the yield; try: <with body> finally: <its finally part> (or, without
        try/finally, its statements after the yield on the normal path only)"""
        if len(s.items) != 1 or s.items[0].optional_vars is not None \
                or not isinstance(s.items[0].context_expr, ast.Call):
            fail("with statement", s)
        call = s.items[0].context_expr
        h = self.helper_of(call)
        if h is None or not h[1] or call.args or call.keywords:
            fail("with statement over something that is not a helper of the source", s)
        cm = h[0]
        if [u(d) for d in cm.decorator_list] != ["contextmanager"] or sig_of(cm)[0]:
            fail("%s is not a parameterless @contextmanager" % cm.name, cm)
        self.ninline += 1
        local = {n.id for n in ast.walk(cm) if isinstance(n, ast.Name) and isinstance(n.ctx, ast.Store)}
        body = [_RenameLocals("cm%d_" % self.ninline, local).visit(ast.parse(ast.unparse(st)).body[0])
                for st in body_of(cm)]

        def is_yield(x):
            return isinstance(x, ast.Expr) and isinstance(x.value, ast.Yield) and x.value.value is None
        pre, i = [], 0
        while i < len(body) and not is_yield(body[i]) and not isinstance(body[i], ast.Try):
            pre.append(body[i])
            i += 1
        if i == len(body):
            fail("%s does not yield" % cm.name, cm)
        W = []
        env = dict(env)
        for st in pre:
            self.simple(st, env, W)
        if isinstance(body[i], ast.Try):
            t = body[i]
            if t.handlers or t.orelse or len(t.body) != 1 or not is_yield(t.body[0]) or i != len(body) - 1:
                fail("%s: try statement shape" % cm.name, t)
            return nest(W, self.try_finally(s.body, t.finalbody, rest, env, fin))
        return nest(W, self.block(s.body + body[i + 1:] + rest, env, fin))

    def seq(self, stmts, env, W):
        """straight-line translation INTO the wrapper list W (used for inlined helpers): simple
        statements, loops, ifs that do not return"""
        for i, st in enumerate(stmts):
            if isinstance(st, ast.Pass) or is_doc(st):
                continue
            if isinstance(st, ast.For):
                un = self.unrolled(st, env)
                if un is not None:
                    self.seq(un, env, W)
                    continue
                if st.orelse:
                    fail("for/else", st)
                self.loop(st, env, W)
                continue
            if isinstance(st, ast.If):
                try:
                    c = self.cond(st.test, env, W)
                except NeedNest:
                    nested = self.nest_boolop(st)
                    if nested is None:
                        raise
                    self.seq([nested], env, W)
                    continue
                if c["k"] == "static":
                    self.seq(st.body if c["v"] else st.orelse, env, W)
                    continue
                if self.has_exit(st.body) or self.has_exit(st.orelse):
                    fail("return / raise / continue inside an `if` of an inlined helper", st)
                env_t, env_e = dict(env), dict(env)
                if c["k"] == "opt" and c["var"]:
                    (env_t if c["then_some"] else env_e)[c["var"]] = c["ity"]
                try:
                    parts = self.if_merge_parts(c, st, env, env_t, env_e)
                except NeedDup:
                    fail("an `if` of an inlined helper may raise", st)
                if parts is not None:
                    W.append(("let", parts[0], parts[1]))
                continue
            if isinstance(st, (ast.Return, ast.Raise, ast.With, ast.Continue, ast.Break)):
                fail("statement not supported inside an inlined helper", st)
            self.simple(st, env, W)

    def comprehension(self, e, env, W):
        """[elt for target in iter] / generator expression: a loop collecting elt"""
        if len(e.generators) != 1 or e.generators[0].ifs or e.generators[0].is_async:
            fail("comprehension shape", e)
        g = e.generators[0]
        if isinstance(g.iter, ast.Name) and env.get(g.iter.id, "").startswith("soa"):
            # [a for a, _ in pairs]: a projection of a list kept as parallel lists
            n = int(env[g.iter.id][3:])
            tg = g.target
            if isinstance(tg, ast.Tuple) and len(tg.elts) == n and all(isinstance(x, ast.Name) for x in tg.elts) \
                    and isinstance(e.elt, ast.Name) and e.elt.id != "_" \
                    and [x.id for x in tg.elts].count(e.elt.id) == 1:
                i = [x.id for x in tg.elts].index(e.elt.id)
                key = "%s#%d" % (g.iter.id, i)
                others = ["%s#%d" % (g.iter.id, j) for j in range(n) if j != i]
                return V(gname(key), env[key], py={"siblings": [(gname(o), env[o]) for o in others]})
            fail("comprehension over a list of tuples that is not a projection", e)
        fake = ast.copy_location(ast.For(target=g.target, iter=g.iter, body=[], orelse=[]), e)
        v = self.loop(fake, env, W, comp=e.elt)
        n = self.newname("res")
        W.append(("let", n, v.t))
        return V(n, v.ty)

    def ifexp(self, e, env, W):
        c = self.cond(e.test, env, W)
        if c["k"] == "static":
            return self.expr(e.body if c["v"] else e.orelse, env, W)

        def branch(node, envb):
            Wb = []
            self.failtext.append("None")
            try:
                v = self.expr(node, envb, Wb)
            finally:
                self.failtext.pop()
            partial = v.opt or any(w[0] != "let" for w in Wb)
            return v, Wb, partial
        env_t, env_e = dict(env), dict(env)
        if c["k"] == "opt" and c["var"]:
            (env_t if c["then_some"] else env_e)[c["var"]] = c["ity"]
        vt, Wt, pt = branch(e.body, env_t)
        ve, We, pe = branch(e.orelse, env_e)
        if vt.ty == "callable" and ve.ty == "callable" and not Wt and not We:
            return V("", "callable", py=("if", c, vt.py, ve.py))
        if vt.ty != ve.ty:
            fail("conditional expression with branches of type %s / %s" % (vt.ty, ve.ty), e)
        opt = pt or pe

        def fin(v, Wb):
            t = v.t if (v.opt or not opt) else "Some %s" % v.t
            return paren(nest(Wb, t))
        a, b = fin(vt, Wt), fin(ve, We)
        return V(self.choose(c, a, b), vt.ty, opt=opt)

    def choose(self, c, a, b):
        if c["k"] == "bool":
            return "(if %s then %s else %s)" % (c["t"], a, b)
        some, none = (a, b) if c["then_some"] else (b, a)
        binder = gname(c["var"]) if c["var"] else "_"
        return "match %s with\n| Some %s => %s\n| None => %s\nend" % (c["t"], binder, some, none)

    # ------------------------------------------------------------------ conditions
    def cond(self, t, env, W):
        if isinstance(t, ast.UnaryOp) and isinstance(t.op, ast.Not):
            c = self.cond(t.operand, env, W)
            if c["k"] == "static":
                return {"k": "static", "v": not c["v"]}
            if c["k"] == "bool":
                return {"k": "bool", "t": "(negb %s)" % c["t"]}
            d = dict(c)
            d["then_some"] = not c["then_some"]
            return d
        if isinstance(t, ast.Compare) and len(t.ops) == 1:
            op, r = t.ops[0], t.comparators[0]
            if isinstance(op, (ast.Is, ast.IsNot)) and isinstance(r, ast.Constant) and r.value is None:
                v = self.expr(t.left, env, W)
                is_not = isinstance(op, ast.IsNot)
                if v.ty == "none":
                    return {"k": "static", "v": not is_not}
                if v.ty in self.OPTION and not v.opt:
                    var = t.left.id if isinstance(t.left, ast.Name) else None
                    return {"k": "opt", "t": v.t, "var": var, "ity": self.OPTION[v.ty],
                            "then_some": is_not}
                if v.opt:
                    fail("`is None` on a value that may raise", t)
                return {"k": "static", "v": is_not}      # a definite, non-optional value
            c = self.compare(t, op, env, W)
            if c is not None:
                return c
        if isinstance(t, ast.BoolOp):
            parts = [self.cond(x, env, W) for x in t.values]
            is_and = isinstance(t.op, ast.And)
            terms = []
            for p in parts:
                if p["k"] == "static":
                    if p["v"] != is_and:          # False in an `and` / True in an `or`
                        return {"k": "static", "v": p["v"]}
                    continue
                if p["k"] != "bool":
                    raise NeedNest()              # statement level: nested ifs (see nest_boolop)
                terms.append(p["t"])
            if not terms:
                return {"k": "static", "v": is_and}
            return {"k": "bool", "t": "(" + (" && " if is_and else " || ").join(terms) + ")"}
        if isinstance(t, ast.Name) and (t.id in self.SPECIALISED_FALSE
                                        or env.get("@through:" + t.id) in self.SPECIALISED_FALSE):
            return {"k": "static", "v": False}
        if isinstance(t, ast.Name) and env.get(t.id) == "B" and isinstance(env.get("@py:" + t.id), bool):
            return {"k": "static", "v": env["@py:" + t.id]}      # bound to a boolean constant
        v = self.force(self.expr(t, env, W), env, W)
        if v.ty == "B" and isinstance(v.py, bool):
            return {"k": "static", "v": v.py}
        if v.ty == "B":
            return {"k": "bool", "t": v.t}
        if v.ty == "Z":                           # truthiness of an integer (`if len(y):`)
            return {"k": "bool", "t": "(negb (%s =? 0))" % v.t}
        fail("condition of type %s" % v.ty, t)

    CMP = {ast.Gt: ">?", ast.GtE: ">=?", ast.Lt: "<?", ast.LtE: "<=?", ast.Eq: "=?"}

    def compare(self, t, op, env, W):
        if type(op) in self.CMP:
            a = self.force(self.expr(t.left, env, W), env, W)
            b = self.force(self.expr(t.comparators[0], env, W), env, W)
            if a.ty == "Z" and b.ty == "Z":
                return {"k": "bool", "t": "(%s %s %s)" % (a.t, self.CMP[type(op)], b.t)}
        return None

    # ------------------------------------------------------------------ statements
    def block(self, stmts, env, fin):
        if not stmts:
            return fin(env)
        s, rest = stmts[0], stmts[1:]
        env = dict(env)
        W = []
        if isinstance(s, ast.Pass) or is_doc(s):
            return self.block(rest, env, fin)
        if isinstance(s, ast.If):
            return self.if_stmt(s, rest, env, fin)
        if isinstance(s, ast.For):
            un = self.unrolled(s, env)
            if un is not None:
                return self.block(un + rest, env, fin)
            if s.orelse:
                fail("for/else", s)
            self.loop(s, env, W)
            return nest(W, self.block(rest, env, fin))
        if isinstance(s, ast.Assign) and len(s.targets) == 1 and isinstance(s.value, ast.Call) \
                and (isinstance(s.targets[0], ast.Name) or (
                    isinstance(s.targets[0], ast.Tuple)
                    and all(isinstance(x, ast.Name) for x in s.targets[0].elts))):
            h = self.helper_of(s.value)
            if h is not None and self.returns_early(h[0]):
                return self.inline_assign(h[0], s, rest, env, fin, h[1])
        if isinstance(s, ast.Continue):
            if not self.loopfin:
                fail("continue outside a translated loop", s)
            return self.loopfin[-1](env)
        if isinstance(s, ast.With):
            return self.with_stmt(s, rest, env, fin)
        if isinstance(s, ast.Try):
            if s.handlers or s.orelse or not s.finalbody:
                fail("try statement other than try/finally", s)
            return self.try_finally(s.body, s.finalbody, rest, env, fin)
        if isinstance(s, ast.Return) and self.retk:
            if isinstance(s.value, ast.Call):
                h = self.helper_of(s.value)
                if h is not None and not any(isinstance(n, (ast.Yield, ast.YieldFrom))
                                             for n in ast.walk(h[0])):
                    return self.inline_tail(h[0], s.value, env, fin, h[1])
            return self.retk[-1](s.value, env)
        if isinstance(s, ast.Return):
            if isinstance(s.value, ast.Call):
                h = self.helper_of(s.value)
                if h is not None and not any(isinstance(n, (ast.Yield, ast.YieldFrom))
                                             for n in ast.walk(h[0])):
                    return self.inline_tail(h[0], s.value, env, fin, h[1])
            t = self.ret(s.value, env, W)
            return nest(W, t)
        if isinstance(s, ast.Raise):
            return self.cur_fail()
        self.simple(s, env, W)
        return nest(W, self.block(rest, env, fin))

    def unrolled(self, s, env):
        """`for x in (<constants>): body` -> the body once per constant (a dispatch loop over a
        literal tuple is an if-chain); None when the iterable is not a tuple of constants"""
        it = s.iter
        consts = None
        if isinstance(it, (ast.Tuple, ast.List)) and it.elts \
                and all(isinstance(x, ast.Constant) for x in it.elts):
            consts = [x.value for x in it.elts]
        elif isinstance(it, ast.Name) and env.get(it.id) == "tuple" and env.get("@py:" + it.id) \
                and all(p.ty == "str" for p in env["@py:" + it.id]):
            consts = [p.py for p in env["@py:" + it.id]]
        elif isinstance(it, ast.Name) and it.id not in env and self.module_constant(it.id) is not None \
                and isinstance(self.module_constant(it.id), ast.Tuple):
            consts = [x.value for x in self.module_constant(it.id).elts]
        if consts is None:
            return None
        if not isinstance(s.target, ast.Name) or s.orelse or len(consts) > 16:
            fail("loop over a tuple of constants: shape", s)
        for n in ast.walk(ast.Module(body=s.body, type_ignores=[])):
            if isinstance(n, (ast.Continue, ast.Break)):
                fail("continue / break in a loop over a tuple of constants", s)
        out = []
        for c in consts:
            out.append(ast.copy_location(ast.Assign(
                targets=[ast.Name(id=s.target.id, ctx=ast.Store())],
                value=ast.copy_location(ast.Constant(value=c), s), lineno=s.lineno), s))
            out += [ast.parse(ast.unparse(b)).body[0] for b in s.body]
        return out

    def on_append(self, name, ty, env):
        return

    def simple(self, s, env, W):
        # `a, b = e1, e2` with independent right-hand sides is `a = e1; b = e2`
        if isinstance(s, ast.Assign) and len(s.targets) == 1 and isinstance(s.targets[0], ast.Tuple) \
                and isinstance(s.value, (ast.Tuple, ast.List)) \
                and len(s.targets[0].elts) == len(s.value.elts) \
                and all(isinstance(x, ast.Name) for x in s.targets[0].elts):
            names = {x.id for x in s.targets[0].elts}
            used = {n.id for v in s.value.elts for n in ast.walk(v) if isinstance(n, ast.Name)}
            if not (names & used) and len(names) == len(s.targets[0].elts):
                for tg, v in zip(s.targets[0].elts, s.value.elts):
                    self.simple(ast.copy_location(ast.Assign(targets=[tg], value=v, lineno=s.lineno), s),
                                env, W)
                return
        # accumulate-loop form of a comprehension: `xs = []` ... `xs.append(x)`
        if isinstance(s, ast.Expr) and isinstance(s.value, ast.Call) \
                and isinstance(s.value.func, ast.Attribute) and s.value.func.attr == "append" \
                and isinstance(s.value.func.value, ast.Name) \
                and env.get(s.value.func.value.id, "").startswith("list:"):
            name = s.value.func.value.id
            ty = env[name]
            if len(s.value.args) != 1 or s.value.keywords:
                fail("append arity", s)
            v = self.force(self.expr(s.value.args[0], env, W), env, W)
            if v.t == "" or (ty != "list:?" and ty != "list:" + v.ty):
                fail("append of a %s to a %s" % (v.ty, ty), s)
            self.let(W, env, gname(name), "%s ++ [%s]" % (gname(name), v.t), "list:" + v.ty, key=name)
            self.on_append(name, "list:" + v.ty, env)
            return
        if isinstance(s, ast.Assign) and len(s.targets) == 1 and isinstance(s.targets[0], ast.Name) \
                and ((isinstance(s.value, ast.List) and not s.value.elts)
                     or (isinstance(s.value, ast.Call) and isinstance(s.value.func, ast.Name)
                         and s.value.func.id == "list" and "list" not in env
                         and not s.value.args and not s.value.keywords)):
            name = s.targets[0].id
            n = self.soa.get(name)
            if n:
                # every append to this list is an n-tuple: n parallel lists (so that collecting
                # (a, b) pairs and unzipping them later is the same term as two lists in lock step)
                for i in range(n):
                    self.let(W, env, gname("%s#%d" % (name, i)), "[]", "list:?", key="%s#%d" % (name, i))
                env[name] = "soa%d" % n
                return
            self.let(W, env, gname(name), "[]", "list:?", key=name)
            return
        if isinstance(s, ast.Expr) and isinstance(s.value, ast.Call) \
                and isinstance(s.value.func, ast.Attribute) and s.value.func.attr == "append" \
                and isinstance(s.value.func.value, ast.Name) \
                and env.get(s.value.func.value.id, "").startswith("soa"):
            name = s.value.func.value.id
            n = int(env[name][3:])
            if len(s.value.args) != 1 or s.value.keywords:
                fail("append arity", s)
            v = self.force(self.expr(s.value.args[0], env, W), env, W)
            if v.ty != "tuple" or len(v.py) != n or any(p.t == "" for p in v.py):
                fail("append of something other than a %d-tuple of values" % n, s)
            for i, part in enumerate(v.py):
                key = "%s#%d" % (name, i)
                if env[key] != "list:?" and env[key] != "list:" + part.ty:
                    fail("append of a %s to a %s" % (part.ty, env[key]), s)
                self.let(W, env, gname(key), "%s ++ [%s]" % (gname(key), part.t), "list:" + part.ty, key=key)
            return
        if isinstance(s, ast.Expr) and isinstance(s.value, ast.Call):
            v = self.call(s.value, env, W)
            if v is not None and v.opt:
                self.force(v, env, W)
            return
        if isinstance(s, ast.Assign) and len(s.targets) == 1:
            tg = s.targets[0]
            if isinstance(tg, ast.Name):
                v = self.force(self.expr(s.value, env, W), env, W)
                self.assign_name(tg.id, v, s, env, W)
                return
            if isinstance(tg, ast.Attribute) and isinstance(tg.value, ast.Name) and tg.value.id == "self":
                return self.write_self_attr(tg.attr, s.value, s, env, W)
            if isinstance(tg, ast.Tuple) and all(isinstance(x, ast.Name) for x in tg.elts):
                v = self.force(self.expr(s.value, env, W), env, W)
                return self.assign_tuple([x.id for x in tg.elts], v, s, env, W)
            if isinstance(tg, ast.Subscript):
                return self.write_subscript(tg, s.value, s, env, W)
        fail("statement", s)

    def assign_name(self, name, v, s, env, W):
        if v.ty == "tuple" and all(p.ty == "str" for p in v.py):
            env[name] = "tuple"                  # a tuple of string constants: no Gallina value
            env["@py:" + name] = v.py
            return
        if v.ty == "tuple":
            fail("tuple assigned to a single name", s)
        self.let(W, env, gname(name), v.t, v.ty, key=name)
        if v.py is not None:
            env["@py:" + name] = v.py
        else:
            env.pop("@py:" + name, None)

    def assign_tuple(self, names, v, s, env, W):
        fail("tuple assignment from a value of type %s" % v.ty, s)

    def write_self_attr(self, attr, value, s, env, W):
        fail("assignment to self.%s" % attr, s)

    def write_subscript(self, tg, value, s, env, W):
        fail("assignment to a subscript", s)

    def ret(self, value, env, W):
        fail("return", value)

    def with_stmt(self, s, rest, env, fin):
        return self.context_manager(s, rest, env, fin)

    # -- if
    @staticmethod
    def has_exit(stmts):
        for s in stmts:
            for n in ast.walk(s):
                if isinstance(n, (ast.Return, ast.Raise, ast.Continue)):
                    return True
        return False

    @staticmethod
    def nest_boolop(s):
        """`if a and b: B else: E` == `if a: (if b: B else: E) else: E`;
        `if a or b: B else: E` == `if a: B else: (if b: B else: E)` (also under `not`: De Morgan)"""
        t = s.test
        neg = False
        if isinstance(t, ast.UnaryOp) and isinstance(t.op, ast.Not) and isinstance(t.operand, ast.BoolOp):
            t, neg = t.operand, True
        if not isinstance(t, ast.BoolOp):
            return None
        body, orelse = (s.orelse, s.body) if neg else (s.body, s.orelse)
        body = body or [ast.Pass()]
        first, others = t.values[0], t.values[1:]
        tail = others[0] if len(others) == 1 else ast.BoolOp(op=t.op, values=others)
        if isinstance(t.op, ast.And):
            inner = ast.copy_location(ast.If(test=tail, body=body, orelse=orelse), s)
            return ast.copy_location(ast.If(test=first, body=[inner], orelse=orelse), s)
        inner = ast.copy_location(ast.If(test=tail, body=body, orelse=orelse), s)
        return ast.copy_location(ast.If(test=first, body=body, orelse=[inner]), s)

    def if_stmt(self, s, rest, env, fin):
        W = []
        try:
            c = self.cond(s.test, env, W)
        except NeedNest:
            nested = self.nest_boolop(s)
            if nested is None:
                raise
            return self.block([nested] + rest, env, fin)
        if c["k"] == "static":
            return nest(W, self.block((s.body if c["v"] else s.orelse) + rest, env, fin))
        env_t, env_e = dict(env), dict(env)
        if c["k"] == "opt" and c["var"]:
            (env_t if c["then_some"] else env_e)[c["var"]] = c["ity"]
        if not self.has_exit(s.body) and not self.has_exit(s.orelse):
            try:
                return nest(W, self.if_merge(c, s, rest, env, env_t, env_e, fin))
            except NeedDup:
                pass
        a = self.block(s.body + rest, env_t, fin)
        b = self.block(s.orelse + rest, env_e, fin)
        return nest(W, self.choose(c, paren(a), paren(b)))

    def carried(self, env, bound):
        """Gallina names bound inside a branch / loop body that denote variables visible outside"""
        vis = {}
        for k in env:
            if k.startswith("@"):
                continue
            vis[k[1:] if k[0] in "$#" else gname(k)] = k      # $cell, #constructor parameter, local
        out = []
        for n in bound:
            if n in vis and n not in out:
                out.append(n)
        return out, vis

    def if_merge(self, c, s, rest, env, env_t, env_e, fin):
        parts = self.if_merge_parts(c, s, env, env_t, env_e)
        if parts is None:                        # e.g. `if update_params: warn(...)`: no effect
            return self.block(rest, env, fin)
        return "let %s :=\n%s in\n%s" % (parts[0], parts[1], self.block(rest, env, fin))

    def if_merge_parts(self, c, s, env, env_t, env_e):
        """an `if` whose branches do not exit, as `let <assigned variables> := if .. in`:
        -> (pattern, term), env updated; None when the branches assign nothing visible"""
        saved_bound = self.bound
        self.failtext.append(None)               # any use of the fail text -> NeedDup
        try:
            # pass 1: which visible variables do the branches assign?
            self.bound = []
            self.block(s.body, dict(env_t), lambda e: "")
            self.block(s.orelse, dict(env_e), lambda e: "")
            muts, vis = self.carried(env, self.bound)
            ends = []
            if muts:
                tup = muts[0] if len(muts) == 1 else "(%s)" % ", ".join(muts)
                pat = muts[0] if len(muts) == 1 else "'(%s)" % ", ".join(muts)

                def fin_b(e):
                    ends.append(e)
                    return tup
                a = self.block(s.body, dict(env_t), fin_b)
                b = self.block(s.orelse, dict(env_e), fin_b)
        finally:
            self.failtext.pop()
            self.bound = saved_bound
        if not muts:
            return None
        et, ee = ends
        for n in muts:
            if et.get(vis[n]) != ee.get(vis[n]):
                fail("variable %s has type %s / %s after the branches" % (n, et.get(vis[n]),
                                                                         ee.get(vis[n])), s)
            env[vis[n]] = et[vis[n]]
            self.bound.append(n)
        self.merge_meta(env, et, ee, s)
        return pat, self.choose(c, paren(a), paren(b))

    def merge_meta(self, env, et, ee, s):
        """reconcile '@' entries of the branch environments (subclasses with aliases override)"""
        return

    # -- for
    def loop_source(self, it, env, W):
        """-> dict(list=term, ety=element type, cell=cell to write the elements back to or None)"""
        v = self.force(self.expr(it, env, W), env, W)
        if v.ty.startswith("list:") and v.ty != "list:?" and v.t != "":
            return {"list": v.t, "ety": v.ty[5:]}
        fail("loop over a value of type %s" % v.ty, it)

    def bind_target(self, tg, src, env):
        """bind the loop target from `it_` -> list of (pattern, term) lets; sets env types"""
        if isinstance(tg, ast.Name):
            env[tg.id] = src["ety"]
            return [(gname(tg.id), "it_")]
        fail("loop target", tg)

    def loop(self, s, env, W, comp=None):
        """comp: (element expression node) for a list comprehension -> returns V of the result list"""
        src = self.loop_source(s.iter, env, W)
        body = s.body if comp is None else []
        saved_bound = self.bound

        def run(fin_text, failt):
            envb = dict(env)
            lets = self.bind_target(s.target, src, envb)
            Wb = [("let", p, t) for p, t in lets]
            self.failtext.append(failt)
            self.loopfin.append(fin_text)
            try:
                if comp is None:
                    inner = self.block(body, envb, lambda e: fin_text(e))
                else:
                    Wc = []
                    v = self.force(self.expr(comp, envb, Wc), envb, Wc)
                    envb["@comp"] = v
                    inner = nest(Wc, fin_text(envb))
            finally:
                self.failtext.pop()
                self.loopfin.pop()
            return nest(Wb, inner)
        # pass 1: loop-carried variables, may the body raise?
        self.bound = []
        ends = []
        try:
            t1 = run(lambda e: (ends.append(e), "")[1], SENTINEL)
        finally:
            bound1, self.bound = self.bound, saved_bound
        may_fail = SENTINEL in t1
        muts, vis = self.carried(env, bound1)
        target_names = {gname(n.id) for n in ast.walk(s.target) if isinstance(n, ast.Name)}
        muts = [m for m in muts if m not in target_names]
        acc = list(muts)
        collect = self.loop_collects(src, ends[0] if ends else env, s, bound1) if comp is None else "comp"
        if collect:
            acc.append("out_")
        if may_fail:
            acc.append("ok_")
        if not acc:
            fail("loop without effect", s)

        def tup(names):
            return names[0] if len(names) == 1 else "(%s)" % ", ".join(names)

        def fin_text(e):
            parts = list(muts)
            if collect == "comp":
                parts.append("out_ ++ [%s]" % e["@comp"].t)
            elif collect:
                parts.append("out_ ++ [%s]" % collect)
            if may_fail:
                parts.append("true")
            return tup(parts)
        failt = tup(muts + (["out_"] if collect else []) + ["false"]) if may_fail else SENTINEL
        self.bound = []
        ends2 = []
        try:
            t2 = run(lambda e: (ends2.append(e), fin_text(e))[1], failt)
        finally:
            self.bound = saved_bound
        for n in muts:
            if ends2 and ends2[0].get(vis[n]) != env.get(vis[n]):
                if env.get(vis[n]) == "list:?":        # an empty list literal: element type from the loop
                    env[vis[n]] = ends2[0][vis[n]]
                    continue
                fail("loop changes the type of %s" % n, s)
        pat = acc[0] if len(acc) == 1 else "'(%s)" % ", ".join(acc)
        if may_fail:
            t2 = "if ok_ then\n%s\nelse acc_" % t2
        init = tup(muts + (["[]"] if collect else []) + (["true"] if may_fail else []))
        tys = [self.coqty((ends2[0] if ends2 else env)[vis[n]]) for n in muts]
        if collect == "comp":
            tys.append("list (%s)" % self.coqty(ends2[0]["@comp"].ty))
        elif collect:
            tys.append("list (%s)" % self.coqty(src.get("oty", src["ety"])))
        if may_fail:
            tys.append("bool")
        # the loop body becomes a definition of its own (so that the bridge can name it); its
        # parameters are the visible variables it mentions and does not carry

        words = re.findall(r"[A-Za-z_][A-Za-z0-9_']*", t2)
        free = []                # in order of first occurrence: stable under renaming of locals
        for n in words:
            if n in vis and n not in acc and n not in free and env.get(vis[n]) not in (None, "none"):
                free.append(n)
        self.nloops += 1
        name = "%s_loop%d" % (self.cur_name, self.nloops)
        self.aux.append("Definition %s %s (acc_ : %s) (it_ : %s) :=\n %slet %s := acc_ in\n%s." % (
            name, " ".join("(%s : %s)" % (n, self.coqty(env[vis[n]])) for n in free),
            " * ".join("(%s)" % t for t in tys), self.coqty(src["ety"]), self.UNIFORM, pat, paren(t2)))
        fn = "(%s)" % " ".join([name] + free)
        W.append(("let", pat, "fold_left %s %s %s" % (fn, src["list"], init)))
        for n in muts:
            self.bound.append(n)
        self.loop_done(env, ends2[0] if ends2 else env)
        if may_fail:
            W.append(("iftrue", "ok_", self.cur_fail()))
        if comp is not None:
            return V("out_", "list:" + ends2[0]["@comp"].ty)
        if collect:
            self.loop_writeback(src, env, W, s)
        return None

    COQTY = {}
    # `let _ := (<all same-typed Section variables>) in `: makes every generated definition abstract
    # over the same Section variables, in the same order, whatever it uses - so a source edit that
    # exchanges two same-typed kernels changes the generated TERM, never silently the abstraction
    UNIFORM = ""

    def coqty(self, ty):
        if ty.startswith("list:"):
            return "list (%s)" % self.coqty(ty[5:])
        if ty not in self.COQTY:
            fail("no Gallina type for values of type %s" % ty)
        return self.COQTY[ty]

    def loop_done(self, env, env_end):
        """facts about the finished loop carried to the code after it (subclasses)"""
        return

    def loop_collects(self, src, env_end, s, bound):
        """Gallina term of the element to collect per iteration (objects mutated in place), or None"""
        return None

    def loop_writeback(self, src, env, W, s):
        return
