"""C02: regenerate the ForecastingHorizon methods of sktime/forecasting/base/_fh.py and check_fh of
sktime/utils/validation/forecasting.py as Gallina functions over `fh = {vals : list Z; rel : bool}`.

Fail-closed: every statement / expression / call / decorator shape that is not explicitly understood
raises `Unsupported` (the harness reports a broken tie).  Integer world only: `isinstance(x, T)` with
T among the pandas datetime-like types is statically False for the integer-typed x of the model, so
those branches are pruned (and *only* those: any other isinstance is an error unless handled below).

Typing (first letter(s) of the type tag):
  Z int   B bool   L index of ints (list Z)   M boolean mask (list bool)   F horizon (fh)
  OZ cutoff argument (option Z: None allowed)   OL / OB optional arguments of _new
  U unit   IN raw constructor input (Model.input)   RF relflag   FI check_fh argument (fhin)
Every translated expression is (term, type, raises); a raising term has Coq type `res T`.
All Python exceptions are collapsed into `Err`.

Rewrites the translation follows: guard clauses / early returns and de-indented else branches
(continuation style); `x not in T` for `not x in T`; conditional expressions; a type tuple chosen
first and tested afterwards (`ts = A if c else B; if type(v) not in ts`); private helpers - a call
of a module-level function of _fh.py or of a `self._m(..)` method that is not one of the
translated entry points is inlined (parameters bound to the translated arguments, result type and
raising inferred, recursion refused), so extracting or inlining a helper does not change the
meaning of the generated function; temporaries.
"""
import ast
import os

SRC_FH = "sktime/forecasting/base/_fh.py"
SRC_VAL = "sktime/utils/validation/forecasting.py"

DATETIME_TYPES = {"pd.DatetimeIndex", "pd.PeriodIndex", "pd.Timestamp", "pd.Period"}
INTEGER_WORLD = {"Z", "L", "OZ", "F"}
COQTY = {"Z": "Z", "B": "bool", "L": "list Z", "M": "list bool", "F": "fh", "OZ": "option Z",
         "OL": "option (list Z)", "OB": "option bool", "U": "unit", "IN": "input", "RF": "relflag",
         "FI": "fhin", "SQ": "seq"}

# type tests that refine a constructor argument: unparsed test with {x} for the variable name ->
# (type of x before, view function of Model.v, binder suffix, type of x inside the true branch)
REFINING_TESTS = {
    "type({x}) in VALID_INDEX_TYPES": ("IN", "as_index", "_ix", "L"),
    "isinstance({x}, (int, np.integer))": ("IN", "as_int", "_int", "Z"),
    "isinstance({x}, (list, np.ndarray))": ("IN", "as_seq", "_seq", "SQ"),
    "isinstance({x}, bool)": ("RF", "as_bool", "_b", "B"),
}
# _check_values returns pd.Int64Index or pd.RangeIndex (pandas typing, modelled); both are members of
# RELATIVE_TYPES and ABSOLUTE_TYPES (checked against the source by check_type_constants)
TYPE_SETS = ("RELATIVE_TYPES", "ABSOLUTE_TYPES")
MESSAGE_NODES = (ast.Tuple, ast.Constant, ast.JoinedStr, ast.FormattedValue, ast.Starred,
                 ast.ListComp, ast.GeneratorExp, ast.comprehension, ast.Name, ast.Attribute, ast.Load,
                 ast.Store, ast.BinOp, ast.Add)


def is_message_expr(node):
    """Pure construction of an error message: strings, f-strings, tuples of them, type(x)."""
    has_text = False
    for n in ast.walk(node):
        if isinstance(n, ast.Call):
            if not (isinstance(n.func, ast.Name) and n.func.id in ("type", "tuple", "list")
                    and len(n.args) == 1 and not n.keywords):
                return False
        elif not isinstance(n, MESSAGE_NODES):
            return False
        if isinstance(n, ast.JoinedStr) or (isinstance(n, ast.Constant) and isinstance(n.value, str)):
            has_text = True
        if isinstance(n, ast.Constant) and not isinstance(n.value, str):
            return False
    return has_text
KEYWORDS = {"end", "at", "in", "as", "return", "using", "fix", "match", "with", "let", "fun", "if",
            "then", "else", "forall", "exists", "Type", "Prop", "Set", "where",
            # identifiers of Model.v / Lib that a Python local must not shadow
            "fh", "vals", "rel", "input", "num", "select", "steps", "insert", "isort", "dedup",
            "zlen", "nunique", "count_true", "fh_init", "res", "map", "negb", "Ok", "Err", "tt",
            "oz_get", "l_first", "relflag", "fhin", "mkfh"}


class Unsupported(Exception):
    pass


def cname(n):
    return n + "_" if n in KEYWORDS else n


def _alpha(node, keep, names):
    """ast.unparse of `node` with every name / parameter / nested function name outside `keep`
    replaced by v0, v1, .. in order of first occurrence (`names` is extended)."""
    import copy
    node = copy.deepcopy(node)

    def nm(x):
        if x in keep:
            return x
        if x not in names:
            names[x] = "v%d" % len(names)
        return names[x]

    def visit(n):
        if isinstance(n, ast.FunctionDef):
            n.name = nm(n.name)
        if isinstance(n, ast.Name):
            n.id = nm(n.id)
        if isinstance(n, ast.arg):
            n.arg = nm(n.arg)
        for c in ast.iter_child_nodes(n):
            visit(c)
    visit(node)
    return ast.unparse(ast.fix_missing_locations(node))


def _bound_names(n):
    """Names a definition / assignment / loop / parameter / import node binds."""
    if isinstance(n, ast.Assign):
        return {x.id for t in n.targets for x in ast.walk(t) if isinstance(x, ast.Name)}
    if isinstance(n, (ast.AugAssign, ast.AnnAssign, ast.For)):
        return {x.id for x in ast.walk(n.target) if isinstance(x, ast.Name)}
    if isinstance(n, (ast.FunctionDef, ast.ClassDef)):
        return {n.name}
    if isinstance(n, ast.arg):
        return {n.arg}
    if isinstance(n, ast.alias):
        return {(n.asname or n.name).split(".")[0]}
    return set()


def find(mod, path):
    node = mod
    for p in path.split("."):
        for n in node.body:
            if isinstance(n, (ast.FunctionDef, ast.ClassDef)) and n.name == p:
                node = n
                break
        else:
            raise Unsupported("missing " + path)
    return node


def _is_str_test(t, var):
    """isinstance(<var>, (str, bytes))"""
    return isinstance(t, ast.Call) and ast.unparse(t.func) == "isinstance" and len(t.args) == 2 \
        and not t.keywords and isinstance(t.args[0], ast.Name) and t.args[0].id == var \
        and isinstance(t.args[1], ast.Tuple) \
        and sorted(ast.unparse(x) for x in t.args[1].elts) == ["bytes", "str"]


def is_docstring(s):
    return isinstance(s, ast.Expr) and isinstance(s.value, ast.Constant) \
        and isinstance(s.value.value, str)


class Tr:
    def __init__(self, cfg, facts):
        self.cfg = cfg
        self.facts = facts
        self.raises = cfg["raises"]
        self.ret = cfg["ret"]
        self.n = 0

    def fresh(self):
        self.n += 1
        return "x%d_" % self.n

    # ---- helpers -----------------------------------------------------------------------------
    def lift(self, parts, k):
        """Bind the raising parts, hand pure terms to k; k returns (term, type, raises)."""
        names, wraps = [], []
        for t, ty, r in parts:
            if r:
                v = self.fresh()
                wraps.append((t, v))
                names.append(v)
            else:
                names.append(t)
        body, bty, br = k(names)
        if not wraps:
            return body, bty, br
        if not br:
            body = "(Ok %s)" % body
        for t, v in reversed(wraps):
            body = "(match %s with Err => Err | Ok %s => %s end)" % (t, v, body)
        return body, bty, True

    def as_index(self, v, e):
        """A value used where pandas expects an integer index / integer scalar."""
        t, ty, r = v
        if ty == "OZ":      # cutoff=None in arithmetic raises TypeError
            return "(oz_get %s)" % t, "Z", True
        if ty == "F":       # arithmetic on a horizon is delegated to the wrapped index
            self.facts.require_delegated("__sub__")
            return "(gen_to_pandas %s)" % t, "L", r
        if ty in ("Z", "L"):
            return v
        raise Unsupported("arithmetic on %s in %s" % (ty, ast.unparse(e)))

    def static_false(self, test, env):
        """isinstance(<integer-world value>, <datetime-like types>) -> statically False."""
        if isinstance(test, ast.Name) and env.get(test.id, (None,))[0] == "false":
            return True
        if not (isinstance(test, ast.Call) and ast.unparse(test.func) == "isinstance"
                and len(test.args) == 2 and not test.keywords):
            return False
        tys = self.facts.constant(test.args[1])
        names = [ast.unparse(x) for x in tys.elts] if isinstance(tys, ast.Tuple) \
            else [ast.unparse(tys)]
        if not names or not all(n in DATETIME_TYPES for n in names):
            return False
        _, ty, _ = self.ex(test.args[0], env)
        if ty not in INTEGER_WORLD:
            raise Unsupported("isinstance on %s: %s" % (ty, ast.unparse(test)))
        return True

    # ---- expressions -------------------------------------------------------------------------
    def ex(self, e, env):
        if isinstance(e, ast.Constant):
            if isinstance(e.value, bool):
                return ("true" if e.value else "false"), "B", False
            if isinstance(e.value, int):
                return "(%d)" % e.value, "Z", False
            if e.value is None:
                return "None", "NONE", False
            raise Unsupported("constant %r" % (e.value,))
        if isinstance(e, ast.Name):
            if e.id in env:
                t, ty = env[e.id]
                return t, ty, False
            if e.id in TYPE_SETS:
                # a tuple of index types that contains both integer index types (checked against
                # the source by check_type_constants)
                return "tt", "TS", False
            raise Unsupported("unbound name " + e.id)
        if isinstance(e, ast.IfExp):
            return self.cond(e.test, env, lambda en: self.ex(e.body, en),
                             lambda en: self.ex(e.orelse, en))
        if isinstance(e, ast.Attribute):
            u = ast.unparse(e)
            if u in env:
                t, ty = env[u]
                return t, ty, False
            if e.attr == "is_relative":
                return self.lift([self.ex(e.value, env)],
                                 lambda a: ("(gen_is_relative %s)" % a[0], "B", False)) \
                    if self.ex(e.value, env)[1] == "F" else self._bad(e)
            raise Unsupported("attribute " + u)
        if isinstance(e, ast.UnaryOp) and isinstance(e.op, ast.Not):
            t, ty, r = self.ex(e.operand, env)
            self.need(ty, "B", e)
            return self.lift([(t, ty, r)], lambda a: ("(negb %s)" % a[0], "B", False))
        if isinstance(e, ast.BoolOp):
            parts = [self.ex(v, env) for v in e.values]
            for _, ty, r in parts:
                self.need(ty, "B", e)
                if r:
                    raise Unsupported("raising operand of and/or: " + ast.unparse(e))
            op = " && " if isinstance(e.op, ast.And) else " || "
            return "(" + op.join(p[0] for p in parts) + ")", "B", False
        if isinstance(e, ast.BinOp) and isinstance(e.op, (ast.Add, ast.Sub)):
            op = "+" if isinstance(e.op, ast.Add) else "-"
            a = self.as_index(self.ex(e.left, env), e)
            b = self.as_index(self.ex(e.right, env), e)

            def k(n, ta=a[1], tb=b[1]):
                if ta == "Z" and tb == "Z":
                    return "(%s %s %s)" % (n[0], op, n[1]), "Z", False
                if ta == "L" and tb == "Z":
                    return "(map (fun v_ => v_ %s %s) %s)" % (op, n[1], n[0]), "L", False
                if ta == "Z" and tb == "L":
                    return "(map (fun v_ => %s %s v_) %s)" % (n[0], op, n[1]), "L", False
                raise Unsupported("binop types %s %s in %s" % (ta, tb, ast.unparse(e)))
            return self.lift([a, b], k)
        if isinstance(e, ast.Compare) and len(e.ops) == 1:
            cmpz = {ast.LtE: "<=?", ast.Gt: ">?", ast.Lt: "<?", ast.GtE: ">=?", ast.Eq: "=?"}
            op = type(e.ops[0])
            a = self.ex(e.left, env)
            b = self.ex(e.comparators[0], env)
            if op in cmpz:
                def k(n, ta=a[1], tb=b[1]):
                    if ta == "Z" and tb == "Z":
                        return "(%s %s %s)" % (n[0], cmpz[op], n[1]), "B", False
                    if ta == "L" and tb == "Z":
                        return "(map (fun v_ => v_ %s %s) %s)" % (cmpz[op], n[1], n[0]), "M", False
                    raise Unsupported("compare types %s %s in %s" % (ta, tb, ast.unparse(e)))
                return self.lift([a, b], k)
            if op is ast.NotEq:
                def k2(n, ta=a[1], tb=b[1]):
                    if ta == "Z" and tb == "Z":
                        return "(negb (%s =? %s))" % (n[0], n[1]), "B", False
                    raise Unsupported("compare types %s %s in %s" % (ta, tb, ast.unparse(e)))
                return self.lift([a, b], k2)
            raise Unsupported("comparison " + ast.unparse(e))
        if isinstance(e, ast.Subscript):
            v = self.ex(e.value, env)
            s = e.slice
            if v[1] == "L" and isinstance(s, ast.Constant) and s.value == 0 \
                    and not isinstance(s.value, bool):
                return self.lift([v], lambda a: ("(l_first %s)" % a[0], "Z", True))
            sv = self.ex(s, env)
            if v[1] == "L" and sv[1] == "M":
                return self.lift([v, sv], lambda a: ("(select %s %s)" % (a[0], a[1]), "L", False))
            raise Unsupported("subscript " + ast.unparse(e))
        if isinstance(e, ast.Call):
            return self.call(e, env)
        if isinstance(e, ast.JoinedStr):
            return "tt", "MSG", False
        raise Unsupported("expression " + ast.dump(e)[:120])

    def elements_of(self, it, env):
        """`np.asarray(x, dtype=object).ravel()` (or `x` itself): iteration over the elements of a
        list / array argument; returns the translated sequence or None."""
        node = it
        if isinstance(it, ast.Call) and isinstance(it.func, ast.Attribute) and it.func.attr == "ravel" \
                and not it.args and not it.keywords and isinstance(it.func.value, ast.Call) \
                and ast.unparse(it.func.value.func) in ("np.asarray", "np.array") \
                and len(it.func.value.args) == 1 \
                and [(k.arg, ast.unparse(k.value)) for k in it.func.value.keywords] == [("dtype", "object")]:
            node = it.func.value.args[0]
        elif not isinstance(it, ast.Name):
            return None
        try:
            v = self.ex(node, env)
        except Unsupported:
            return None
        return v if v[1] == "SQ" else None

    def _bad(self, e):
        raise Unsupported("expression " + ast.unparse(e))

    def need(self, ty, want, e):
        if ty != want:
            raise Unsupported("type %s where %s expected in %s" % (ty, want, ast.unparse(e)[:80]))

    def args(self, e, env, names, defaults):
        """Positional + keyword arguments of a call against the callee's parameter names."""
        got = {}
        if len(e.args) > len(names):
            raise Unsupported("too many arguments: " + ast.unparse(e))
        for n, a in zip(names, e.args):
            got[n] = a
        for kw in e.keywords:
            if kw.arg not in names or kw.arg in got:
                raise Unsupported("keyword %s in %s" % (kw.arg, ast.unparse(e)))
            got[kw.arg] = kw.value
        out = []
        for n in names:
            if n in got:
                out.append(self.ex(got[n], env))
            elif n in defaults:
                out.append(defaults[n])
            else:
                raise Unsupported("missing argument %s in %s" % (n, ast.unparse(e)))
        return out

    def call(self, e, env):
        f = e.func
        callee = ast.unparse(f)
        if isinstance(f, ast.Name):
            callee = self.facts.label_of(callee)       # private helpers are known by role
        # ---- methods on a horizon-valued receiver
        if isinstance(f, ast.Attribute) and self.facts.label_of(f.attr) in METHODS:
            recv = self.ex(f.value, env)
            if recv[1] == "F":
                lab = self.facts.label_of(f.attr)
                m = METHODS[lab]
                self.facts.require_method(f.attr)
                pnames, dflts = m["params"], m.get("defaults", {})
                if lab in self.facts.params:           # private: its parameter names are its own
                    actual = self.facts.params[lab][1:]
                    if len(actual) != len(pnames):
                        raise Unsupported("signature of " + f.attr)
                    dflts = {a: dflts[p] for a, p in zip(actual, pnames) if p in dflts}
                    pnames = actual
                argv = self.args(e, env, pnames, dflts)
                for (t, ty, r), want in zip(argv, m["types"]):
                    if want.startswith("O") and ty == "NONE":
                        continue
                    if want == "OZ" and ty == "Z":
                        continue
                    if want in ("OL", "OB") and ty == want[1]:
                        continue
                    self.need(ty, want, e)

                def k(n):
                    a = [n[0]]
                    for term, (t, ty, r), want in zip(n[1:], argv, m["types"]):
                        if want.startswith("O") and ty not in ("NONE", want):
                            term = "(Some %s)" % term
                        a.append(term)
                    return "(%s %s)" % (m["coq"], " ".join(a)), m["ret"], m["raises"]
                return self.lift([recv] + argv, k)
        if callee == "pd.Int64Index":
            if len(e.args) != 1 or [(k.arg, ast.unparse(k.value)) for k in e.keywords] \
                    != [("dtype", "np.int")]:
                raise Unsupported("pd.Int64Index call shape: " + ast.unparse(e))
            a0 = e.args[0]
            if isinstance(a0, ast.List) and len(a0.elts) == 1:
                v = self.ex(a0.elts[0], env)
                self.need(v[1], "Z", e)
                return self.lift([v], lambda a: ("[%s]" % a[0], "L", False))
            v = self.ex(a0, env)
            self.need(v[1], "SQ", e)
            return self.lift([v], lambda a: ("(pd_int64index %s)" % a[0], "L", True))
        if isinstance(f, ast.Attribute) and f.attr in ("nunique", "sort_values") \
                and not e.args and not e.keywords:
            v = self.ex(f.value, env)
            if v[1] == "L":
                if f.attr == "nunique":
                    return self.lift([v], lambda a: ("(nunique %s)" % a[0], "Z", False))
                return self.lift([v], lambda a: ("(isort %s)" % a[0], "L", False))
        if callee == "any" and len(e.args) == 1 and not e.keywords \
                and isinstance(e.args[0], (ast.GeneratorExp, ast.ListComp)) \
                and len(e.args[0].generators) == 1 and not e.args[0].generators[0].ifs \
                and isinstance(e.args[0].generators[0].target, ast.Name):
            # any(isinstance(v, (str, bytes)) for v in <the elements of a list / array>)
            g = e.args[0].generators[0]
            seq = self.elements_of(g.iter, env)
            if seq is not None and _is_str_test(e.args[0].elt, g.target.id):
                return self.lift([seq], lambda a: ("(seq_has_str %s)" % a[0], "B", False))
        if callee == "_check_values" and len(e.args) + len(e.keywords) == 1:
            v = self.args(e, env, self.facts.params["_check_values"], {})[0]
            self.need(v[1], "IN", e)
            return self.lift([v], lambda a: ("(gen_check_values %s)" % a[0], "L", True))
        if callee == "len" and len(e.args) == 1 and not e.keywords:
            v = self.ex(e.args[0], env)
            if v[1] == "F":
                self.facts.require_delegated("__len__")
                return self.lift([v], lambda a: ("(zlen (gen_to_pandas %s))" % a[0], "Z", False))
            if v[1] == "L":
                return self.lift([v], lambda a: ("(zlen %s)" % a[0], "Z", False))
            raise Unsupported("len of " + v[1])
        if callee == "sum" and len(e.args) == 1 and not e.keywords:
            v = self.ex(e.args[0], env)
            self.need(v[1], "M", e)
            return self.lift([v], lambda a: ("(count_true %s)" % a[0], "Z", False))
        if callee in ("_check_cutoff", "_check_start") and len(e.args) + len(e.keywords) == 2:
            a, b = self.args(e, env, self.facts.params[callee], {})
            self.need(b[1], "L", e)
            if callee == "_check_cutoff":
                if a[1] == "Z":
                    a = ("(Some %s)" % a[0], "OZ", a[2])
                self.need(a[1], "OZ", e)
            else:
                self.need(a[1], "Z", e)
            return self.lift([a, b], lambda n: ("(gen%s %s %s)" % (callee, n[0], n[1]), "U", True))
        if callee == "isinstance":
            if self.static_false(e, env):
                return "false", "B", False
            raise Unsupported("isinstance: " + ast.unparse(e))
        if callee == "type(self)" and len(e.args) == 2 and not e.keywords:
            a = self.ex(e.args[0], env)
            b = self.ex(e.args[1], env)
            self.need(a[1], "L", e)
            self.need(b[1], "B", e)
            return self.lift([a, b], lambda n: ("(gen_init (IIndex %s) (RBool %s))" % (n[0], n[1]),
                                                "F", True))
        if callee == "ForecastingHorizon":
            argv = self.args(e, env, ["values", "is_relative"],
                             {"values": ("IOther", "IN", False), "is_relative": ("true", "B", False)})
            self.need(argv[0][1], "IN", e)
            self.need(argv[1][1], "B", e)
            return self.lift(argv, lambda n: ("(gen_init %s (RBool %s))" % (n[0], n[1]), "F", True))
        r = self.inline(e, env)
        if r is not None:
            return r
        raise Unsupported("call " + callee)

    def inline(self, e, env):
        """A call of a private helper (module-level function of _fh.py, or `self._m(..)`) that is
        not a translated entry point: translate the callee's body with its parameters bound to
        the translated arguments. None if `e` is not such a call."""
        f = e.func
        fn, recv = None, None
        entry = {self.facts.path(c["path"]) for c in FUNCS}
        if isinstance(f, ast.Name):
            for n in self.facts.mod.body:
                if isinstance(n, ast.FunctionDef) and n.name == f.id and f.id not in entry:
                    fn = n
        elif isinstance(f, ast.Attribute) and isinstance(f.value, ast.Name) and f.value.id == "self" \
                and env.get("self", (None, None))[1] == "F":
            cls = find(self.facts.mod, "ForecastingHorizon")
            for n in cls.body:
                if isinstance(n, ast.FunctionDef) and n.name == f.attr \
                        and "ForecastingHorizon." + f.attr not in entry:
                    fn, recv = n, env["self"]
        if fn is None:
            return None
        if fn.decorator_list:
            raise Unsupported("decorated helper " + fn.name)
        stack = self.cfg.get("_stack", ())
        if fn.name in stack or len(stack) >= 5:
            raise Unsupported("recursive helper " + fn.name)
        a = fn.args
        if a.vararg or a.kwarg or a.kwonlyargs or a.posonlyargs:
            raise Unsupported("signature of helper " + fn.name)
        names = [x.arg for x in a.args]
        if recv is not None:
            names = names[1:]
        dnodes = dict(zip(names[len(names) - len(a.defaults):], a.defaults))
        defaults = {n: self.ex(d, {}) for n, d in dnodes.items()}
        argv = self.args(e, env, names, defaults)

        def k(terms):
            env2 = {k_: v for k_, v in env.items() if k_ == "self" or k_.startswith("self.")}
            for n, term, (t, ty, r) in zip(names, terms, argv):
                env2[n] = (term, ty)
            sub = Tr(dict(self.cfg, infer=True, _stack=stack + (fn.name,)), self.facts)
            sub.n = self.n + 100 * (len(stack) + 1)
            sub.raises = True
            out = sub.block(list(fn.body), env2)
            if out[1] == "?":
                raise Unsupported("helper %s always raises" % fn.name)
            return out
        return self.lift(argv, k)

    # ---- statements --------------------------------------------------------------------------
    def finish(self, env):
        if self.cfg.get("infer"):
            return "tt", "U", False            # the helper falls off its end
        if self.ret == "U" and self.raises:
            return "(Ok tt)", "U", True
        if self.cfg.get("init"):
            v, r = env.get("@self._values"), env.get("@self._is_relative")
            if v is None or r is None or v[1] != "L" or r[1] != "B":
                raise Unsupported("__init__ does not set _values / _is_relative as expected")
            return "(mkfh %s %s)" % (v[0], r[0]), "F", False
        raise Unsupported("function falls off its end")

    def out(self, v, e):
        """Shape a returned value to the function's declared result."""
        t, ty, r = v
        if self.cfg.get("infer"):
            return v                           # inlined helper: the caller shapes the value
        self.need(ty, self.ret, e)
        if self.raises:
            return (t if r else "(Ok %s)" % t), ty, True
        if r:
            raise Unsupported("raising expression in a function configured as total: "
                              + ast.unparse(e))
        return t, ty, False

    def cond(self, test, env, then_k, else_k):
        if self.static_false(test, env):
            return else_k(env)
        if isinstance(test, ast.UnaryOp) and isinstance(test.op, ast.Not):
            return self.cond(test.operand, env, else_k, then_k)
        if isinstance(test, ast.Compare) and len(test.ops) == 1 and isinstance(test.ops[0], ast.NotIn):
            pos = ast.Compare(left=test.left, ops=[ast.In()], comparators=test.comparators)
            return self.cond(ast.copy_location(pos, test), env, else_k, then_k)
        u = ast.unparse(test)
        for x, (t, ty) in list(env.items()):
            if "." in x or not x.isidentifier():
                continue
            for pat, (before, view, suffix, after) in REFINING_TESTS.items():
                if u == pat.format(x=x):
                    if ty != before:
                        raise Unsupported("%s on a value of type %s" % (u, ty))
                    b = cname(x) + suffix
                    env2 = dict(env)
                    env2[x] = (b, after)
                    return self.join("(match %s %s with Some %s => %%s | None => %%s end)"
                                     % (view, t, b), then_k(env2), else_k(env))
            # type(x) in <tuple of index types containing the integer ones>, x an integer index
            if isinstance(test, ast.Compare) and len(test.ops) == 1 \
                    and isinstance(test.ops[0], ast.In) and ast.unparse(test.left) == "type(%s)" % x:
                try:
                    rt = self.ex(test.comparators[0], env)
                except Unsupported:
                    rt = None
                if rt is not None and rt[1] == "TS" and not rt[2]:
                    if ty != "L":
                        raise Unsupported("%s on a value of type %s" % (u, ty))
                    return self.join("(if true then %s else %s)", then_k(env), else_k(env))
        # `x is None` on an optional argument (no refinement: the value is used through oz_get)
        if isinstance(test, ast.Compare) and len(test.ops) == 1 \
                and isinstance(test.ops[0], (ast.Is, ast.IsNot)) \
                and isinstance(test.comparators[0], ast.Constant) \
                and test.comparators[0].value is None:
            t, ty, r = self.ex(test.left, env)
            if r or not ty.startswith("O"):
                raise Unsupported("`is None` on " + ty)
            none_k, some_k = then_k, else_k
            if isinstance(test.ops[0], ast.IsNot):
                none_k, some_k = else_k, then_k
            binder = "_"
            env_some = env
            if isinstance(test.left, ast.Name):
                # inside the not-None branch the variable is the wrapped value
                binder = cname(test.left.id) + "_v"
                env_some = dict(env)
                env_some[test.left.id] = (binder, ty[1:])
            a, b = none_k(env), some_k(env_some)
            if binder != "_" and binder not in b[0]:
                binder = "_"
            return self.join("(match %s with None => %%s | Some %s => %%s end)" % (t, binder), a, b)
        t, ty, r = self.ex(test, env)
        self.need(ty, "B", test)
        if r:
            raise Unsupported("raising test " + ast.unparse(test))
        return self.join("(if %s then %%s else %%s)" % t, then_k(env), else_k(env))

    def join(self, fmt, a, b):
        if a[1] == "?":                       # a branch that only raises (inlined helper)
            a = (a[0], b[1], a[2])
        if b[1] == "?":
            b = (b[0], a[1], b[2])
        if a[1] != b[1]:
            raise Unsupported("branch types differ: %s vs %s" % (a[1], b[1]))
        ta, tb = a[0], b[0]
        r = a[2] or b[2]
        if r:
            ta = ta if a[2] else "(Ok %s)" % ta
            tb = tb if b[2] else "(Ok %s)" % tb
        return fmt % (ta, tb), a[1], r

    def block(self, stmts, env):
        if not stmts:
            return self.finish(env)
        s, rest = stmts[0], stmts[1:]
        if is_docstring(s) or isinstance(s, ast.Pass):
            return self.block(rest, env)
        # `if x is None: x = <default>` on an optional argument: refine x
        if isinstance(s, ast.If) and not s.orelse and len(s.body) == 1 \
                and isinstance(s.body[0], ast.Assign) and len(s.body[0].targets) == 1 \
                and isinstance(s.body[0].targets[0], ast.Name) \
                and isinstance(s.test, ast.Compare) and len(s.test.ops) == 1 \
                and isinstance(s.test.ops[0], ast.Is) \
                and isinstance(s.test.left, ast.Name) \
                and s.test.left.id == s.body[0].targets[0].id \
                and isinstance(s.test.comparators[0], ast.Constant) \
                and s.test.comparators[0].value is None \
                and env.get(s.test.left.id, ("", ""))[1] in ("OL", "OB"):
            v = s.test.left.id
            t, ty = env[v]
            d = self.ex(s.body[0].value, env)
            self.need(d[1], ty[1], s)
            if d[2]:
                raise Unsupported("raising default for " + v)
            env2 = dict(env)
            env2[v] = (cname(v), ty[1])
            body = self.block(rest, env2)
            return ("(let %s := (match %s with None => %s | Some v_ => v_ end) in\n  %s)"
                    % (cname(v), t, d[0], body[0])), body[1], body[2]
        # `if not isinstance(fh, ForecastingHorizon): fh = ForecastingHorizon(fh, ...)`
        if isinstance(s, ast.If) and not s.orelse and len(s.body) == 1 \
                and isinstance(s.body[0], ast.Assign) and len(s.body[0].targets) == 1 \
                and isinstance(s.body[0].targets[0], ast.Name) \
                and ast.unparse(s.test) == "not isinstance(%s, ForecastingHorizon)" \
                % s.body[0].targets[0].id \
                and env.get(s.body[0].targets[0].id, ("", ""))[1] == "FI":
            v = s.body[0].targets[0].id
            t, _ = env[v]
            env_raw = dict(env)
            env_raw[v] = ("i_", "IN")
            d = self.ex(s.body[0].value, env_raw)
            self.need(d[1], "F", s)
            built = d[0] if d[2] else "(Ok %s)" % d[0]
            env2 = dict(env)
            env2[v] = (cname(v), "F")
            body = self.block(rest, env2)
            if not self.raises:
                raise Unsupported("constructor call in a total function")
            bt = body[0] if body[2] else "(Ok %s)" % body[0]
            return ("(match (match %s with InFh f_ => Ok f_ | InRaw i_ => %s end) with Err => Err "
                    "| Ok %s =>\n  %s end)" % (t, built, cname(v), bt)), body[1], True
        if isinstance(s, ast.Assign) and len(s.targets) == 1 and isinstance(s.targets[0], ast.Name) \
                and is_message_expr(s.value):
            env2 = dict(env)
            env2[s.targets[0].id] = ("tt", "MSG")
            return self.block(rest, env2)
        if isinstance(s, ast.Assign) and len(s.targets) == 1 \
                and isinstance(s.targets[0], ast.Attribute) and self.cfg.get("init") \
                and ast.unparse(s.targets[0]) in ("self._values", "self._is_relative"):
            t, ty, r = self.ex(s.value, env)
            if r or not t.replace("_", "a").isalnum():
                raise Unsupported("attribute assignment of a compound value: " + ast.unparse(s))
            env2 = dict(env)
            env2["@" + ast.unparse(s.targets[0])] = (t, ty)
            return self.block(rest, env2)
        if isinstance(s, ast.Assign) and len(s.targets) == 1 and isinstance(s.targets[0], ast.Name):
            v = s.targets[0].id
            t, ty, r = self.ex(s.value, env)
            if ty == "MSG":
                return self.block(rest, env)
            env2 = dict(env)
            if ty == "TS" and not r:
                env2[v] = ("tt", "TS")   # a choice between tuples of index types: nothing to compute
                return self.block(rest, env2)
            if t in ("true", "false"):
                env2[v] = (t, ty)   # constant alias, so that `if <name>:` can be pruned
                return self.block(rest, env2)
            env2[v] = (cname(v), ty)
            body = self.block(rest, env2)
            if r:
                if not self.raises:
                    raise Unsupported("raising assignment in a total function")
                bt = body[0] if body[2] else "(Ok %s)" % body[0]
                return ("(match %s with Err => Err | Ok %s =>\n  %s end)"
                        % (t, cname(v), bt)), body[1], True
            return "(let %s := %s in\n  %s)" % (cname(v), t, body[0]), body[1], body[2]
        if isinstance(s, ast.If):
            return self.cond(s.test, env,
                             lambda en: self.block(s.body + rest, en),
                             lambda en: self.block(s.orelse + rest, en))
        if isinstance(s, ast.Raise):
            if self.cfg.get("infer"):
                return "Err", "?", True
            if not self.raises:
                raise Unsupported("raise in a function configured as total")
            return "Err", self.ret, True
        if isinstance(s, ast.Return):
            if s.value is None:
                raise Unsupported("bare return")
            return self.out(self.ex(s.value, env), s)
        if isinstance(s, ast.For) and not s.orelse and isinstance(s.target, ast.Name) \
                and len(s.body) == 1 and isinstance(s.body[0], ast.If) and not s.body[0].orelse \
                and len(s.body[0].body) == 1 and isinstance(s.body[0].body[0], ast.Raise) \
                and _is_str_test(s.body[0].test, s.target.id):
            # for v in <elements>: if isinstance(v, (str, bytes)): raise ...
            seq = self.elements_of(s.iter, env)
            if seq is not None and not seq[2]:
                if not (self.raises or self.cfg.get("infer")):
                    raise Unsupported("raise in a function configured as total")
                body = self.block(rest, env)
                bt = body[0] if body[2] else "(Ok %s)" % body[0]
                return "(if (seq_has_str %s) then Err else %s)" % (seq[0], bt), body[1], True
        if isinstance(s, ast.Assert):
            raise Unsupported("assert reached in the integer world: " + ast.unparse(s))
        if isinstance(s, ast.Expr) and isinstance(s.value, ast.Call):
            t, ty, r = self.ex(s.value, env)
            if ty == "U" and not r:
                return self.block(rest, env)       # an inlined helper that cannot raise here
            if ty != "U" or not r:
                raise Unsupported("expression statement " + ast.unparse(s))
            if not self.raises:
                raise Unsupported("raising call in total function")
            body = self.block(rest, env)
            bt = body[0] if body[2] else "(Ok %s)" % body[0]
            return "(match %s with Err => Err | Ok _ => %s end)" % (t, bt), body[1], True
        raise Unsupported("statement " + ast.dump(s)[:120])


# methods callable on a horizon-valued expression: Coq name, parameter names / types, result
METHODS = {
    "to_pandas": dict(coq="gen_to_pandas", params=[], types=[], ret="L", raises=False),
    "_new": dict(coq="gen_new", params=["values", "is_relative"], types=["OL", "OB"],
                 defaults={"values": ("None", "NONE", False), "is_relative": ("None", "NONE", False)},
                 ret="F", raises=True),
    "to_relative": dict(coq="gen_to_relative", params=["cutoff"], types=["OZ"],
                        defaults={"cutoff": ("None", "NONE", False)}, ret="F", raises=True),
    "to_absolute": dict(coq="gen_to_absolute", params=["cutoff"], types=["OZ"], ret="F",
                        raises=True),
}

SELF = ("self", "self", "F")
CUTOFF = ("cutoff", "cutoff", "OZ")

# order matters: Coq needs callees first
FUNCS = [
    dict(src="fh", path="_check_values", coq="gen_check_values",
         params=[("values", "values", "IN")], ret="L", raises=True),
    dict(src="fh", path="ForecastingHorizon.__init__", coq="gen_init", init=True,
         params=[("self", None, None), ("values", "values", "IN"),
                 ("is_relative", "is_relative", "RF")],
         ret="F", raises=True, defaults={"values": None, "is_relative": True}),
    dict(src="fh", path="ForecastingHorizon.is_relative", coq="gen_is_relative", params=[SELF],
         ret="B", raises=False, decorators=["property"],
         env={"self._is_relative": ("(rel self)", "B")}),
    dict(src="fh", path="ForecastingHorizon.to_pandas", coq="gen_to_pandas", params=[SELF],
         ret="L", raises=False, env={"self._values": ("(vals self)", "L")}),
    dict(src="fh", path="ForecastingHorizon._new", coq="gen_new",
         params=[SELF, ("values", "values", "OL"), ("is_relative", "is_relative", "OB")],
         ret="F", raises=True, defaults={"values": None, "is_relative": None},
         env={"self._values": ("(vals self)", "L")}),
    dict(src="fh", path="_check_cutoff", coq="gen_check_cutoff",
         params=[CUTOFF, ("index", "index", "L")], ret="U", raises=True),
    dict(src="fh", path="_check_start", coq="gen_check_start",
         params=[("start", "start", "Z"), ("index", "index", "L")], ret="U", raises=True),
    dict(src="fh", path="ForecastingHorizon.to_relative", coq="gen_to_relative",
         params=[SELF, CUTOFF], ret="F", raises=True, defaults={"cutoff": None},
         decorators=["lru_cache(typed=True)"]),
    dict(src="fh", path="ForecastingHorizon.to_absolute", coq="gen_to_absolute",
         params=[SELF, CUTOFF], ret="F", raises=True, decorators=["lru_cache(typed=True)"]),
    dict(src="fh", path="ForecastingHorizon.to_absolute_int", coq="gen_to_absolute_int",
         params=[SELF, ("start", "start", "Z"), CUTOFF], ret="F", raises=True,
         defaults={"cutoff": None}),
    # the boolean masks of the in-sample / out-of-sample steps: a ROLE, not a method - the expression
    # to_in_sample / to_out_of_sample select the wrapped values with, wherever it is computed (a
    # private method of any name, inlined here like every other helper, or written in place); the
    # public methods below always get it inlined
    dict(src="fh", path="ForecastingHorizon.to_in_sample", mask=True, coq="gen_is_in_sample",
         params=[SELF, CUTOFF], ret="M", raises=True, defaults={"cutoff": None}),
    dict(src="fh", path="ForecastingHorizon.to_out_of_sample", mask=True, coq="gen_is_out_of_sample",
         params=[SELF, CUTOFF], ret="M", raises=True, defaults={"cutoff": None}),
    dict(src="fh", path="ForecastingHorizon.to_in_sample", coq="gen_to_in_sample",
         params=[SELF, CUTOFF], ret="F", raises=True, defaults={"cutoff": None}),
    dict(src="fh", path="ForecastingHorizon.to_out_of_sample", coq="gen_to_out_of_sample",
         params=[SELF, CUTOFF], ret="F", raises=True, defaults={"cutoff": None}),
    dict(src="fh", path="ForecastingHorizon.is_all_in_sample", coq="gen_is_all_in_sample",
         params=[SELF, CUTOFF], ret="B", raises=True, defaults={"cutoff": None}),
    dict(src="fh", path="ForecastingHorizon.is_all_out_of_sample", coq="gen_is_all_out_of_sample",
         params=[SELF, CUTOFF], ret="B", raises=True, defaults={"cutoff": None}),
    dict(src="fh", path="ForecastingHorizon.to_indexer", coq="gen_to_indexer",
         params=[SELF, CUTOFF, ("from_cutoff", "from_cutoff", "B")], ret="L", raises=True,
         defaults={"cutoff": None, "from_cutoff": True}),
    dict(src="val", path="check_fh", coq="gen_check_fh",
         params=[("fh", "fh", "FI"), ("enforce_relative", "enforce_relative", "B")], ret="F",
         raises=True, defaults={"enforce_relative": False},
         skip_imports=["from sktime.forecasting.base import ForecastingHorizon"]),
]


class Facts:
    """Module-level facts the translation relies on, checked against the source."""

    def __init__(self, mod):
        self.mod = mod
        self.delegated = None
        for n in mod.body:
            if isinstance(n, ast.Assign) and len(n.targets) == 1 \
                    and ast.unparse(n.targets[0]) == "DELEGATED_METHODS":
                if not isinstance(n.value, ast.Tuple) or not all(
                        isinstance(x, ast.Constant) and isinstance(x.value, str)
                        for x in n.value.elts):
                    raise Unsupported("DELEGATED_METHODS shape")
                self.delegated = [x.value for x in n.value.elts]
        if self.delegated is None:
            raise Unsupported("DELEGATED_METHODS not found")
        cls = find(mod, "ForecastingHorizon")
        # __new__ installs the delegators: for method in DELEGATED_METHODS: setattr(cls, ...)
        # (compared up to the names of locals and of the private delegator factory)
        new = find(mod, "ForecastingHorizon.__new__")
        keep = {"DELEGATED_METHODS", "setattr", "getattr", "object"}
        if len(new.args.args) < 1:
            raise Unsupported("ForecastingHorizon.__new__ signature")
        body = [s for s in new.body if not is_docstring(s)]
        want = ("for v1 in DELEGATED_METHODS:\n    setattr(v0, v1, v2(v1))",
                "return object.__new__(v0)")
        names = {new.args.args[0].arg: "v0"}
        if [_alpha(s, keep, names) for s in body] != list(want):
            raise Unsupported("ForecastingHorizon.__new__ shape")
        factory = [k for k, v in names.items() if v == "v2"][0]
        dele = find(mod, factory)
        if not isinstance(dele, ast.FunctionDef) or dele.decorator_list:
            raise Unsupported("delegator factory " + factory)
        inner = [s for s in dele.body if not is_docstring(s)]
        shape = ("def v0(v1):\n    def v2(v3, *v4, **v5):\n        "
                 "return getattr(v3.to_pandas(), v1)(*v4, **v5)\n    return v2")
        stripped = ast.FunctionDef(name=dele.name, args=dele.args, body=[
            ast.FunctionDef(name=x.name, args=x.args, decorator_list=x.decorator_list,
                            body=[y for y in x.body if not is_docstring(y)], lineno=0)
            if isinstance(x, ast.FunctionDef) else x for x in inner], decorator_list=[], lineno=0)
        text = "\n".join(x for x in _alpha(stripped, keep, {}).splitlines() if x.strip())
        if text != shape:
            raise Unsupported("delegator factory shape")
        self.methods = {n.name for n in cls.body if isinstance(n, ast.FunctionDef)}
        self.resolve_roles(mod, cls)

    # ---- private helpers that are regenerated on their own: found BY ROLE (call graph from the
    # public methods), not by name; the keys below are just the labels they have in sktime 0.6.0
    def resolve_roles(self, mod, cls):
        modfuns = {n.name: n for n in mod.body if isinstance(n, ast.FunctionDef)}
        meths = {n.name: n for n in cls.body if isinstance(n, ast.FunctionDef)}

        def private(n):
            return n.startswith("_") and not n.startswith("__")

        def root(name):
            if name not in meths:
                raise Unsupported("method %s missing" % name)
            return meths[name]

        def fun_calls(fn, stmt_only=False, first_arg=None):
            out = []
            for n in ast.walk(fn):
                c = n.value if isinstance(n, ast.Expr) else (None if stmt_only else n)
                if isinstance(c, ast.Call) and isinstance(c.func, ast.Name) \
                        and c.func.id in modfuns and private(c.func.id):
                    if first_arg is not None and not (
                            c.args and isinstance(c.args[0], ast.Name) and c.args[0].id == first_arg):
                        continue
                    if c.func.id not in out:
                        out.append(c.func.id)
            return out

        def meth_calls(fn, recv):
            out = []
            for c in ast.walk(fn):
                if isinstance(c, ast.Call) and isinstance(c.func, ast.Attribute) \
                        and isinstance(c.func.value, ast.Name) and c.func.value.id == recv \
                        and c.func.attr in meths and private(c.func.attr) \
                        and c.func.attr not in out:
                    out.append(c.func.attr)
            return out

        def one(label, cands):
            if len(cands) != 1:
                raise Unsupported("role %s: candidates %s" % (label, cands))
            return cands[0]

        def recv_of(fn):
            if not fn.args.args:
                raise Unsupported("signature of " + fn.name)
            return fn.args.args[0].arg

        init = root("__init__")
        if len(init.args.args) < 2:
            raise Unsupported("__init__ signature")
        roles = {}
        # the module-level function applied to the raw `values` parameter of the constructor
        roles["_check_values"] = one("_check_values", fun_calls(init, first_arg=init.args.args[1].arg))
        # the module-level procedures (called for their exception only) of the conversions
        a = fun_calls(root("to_relative"), stmt_only=True)
        b = fun_calls(root("to_absolute"), stmt_only=True)
        if a != b:
            raise Unsupported("role _check_cutoff: %s / %s" % (a, b))
        roles["_check_cutoff"] = one("_check_cutoff", a)
        roles["_check_start"] = one("_check_start", fun_calls(root("to_absolute_int"), stmt_only=True))
        # the private copy-constructor: the private method every conversion builds its result with
        cands = None
        for name in ("to_relative", "to_absolute", "to_absolute_int"):
            r = root(name)
            got = meth_calls(r, recv_of(r))
            cands = got if cands is None else [m for m in cands if m in got]
        roles["_new"] = one("_new", cands)
        if len(set(roles.values())) != len(roles):
            raise Unsupported("roles not distinct: %s" % roles)
        self.actual = roles                                   # label -> name in this tree
        self.label = {v: k for k, v in roles.items()}         # name in this tree -> label
        self.params = {}                                      # label -> declared parameter names
        for lab, name in roles.items():
            fn = meths[name] if name in meths else modfuns[name]
            self.params[lab] = [x.arg for x in fn.args.args]

    def label_of(self, name):
        """Role label of a private callee; a name that merely coincides with a label is not one."""
        if name in self.label:
            return self.label[name]
        if name in self.actual:
            return name + "#other"
        return name

    def path(self, path):
        """FUNCS path (written with the labels) -> path in this tree."""
        head, _, last = path.rpartition(".")
        if last in self.actual:
            return (head + "." if head else "") + self.actual[last]
        return path

    def constant(self, e):
        """A name bound exactly once, at module level, to a tuple of dotted names: its value
        (module-level constants for repeated type tuples are resolved by value)."""
        if isinstance(e, ast.Name) and e.id not in TYPE_SETS:
            hits = [n for n in ast.walk(self.mod)
                    if isinstance(n, (ast.Assign, ast.AugAssign, ast.AnnAssign, ast.For,
                                      ast.FunctionDef, ast.ClassDef, ast.arg, ast.alias))
                    and e.id in _bound_names(n)]
            if len(hits) == 1 and isinstance(hits[0], ast.Assign) and hits[0] in self.mod.body \
                    and isinstance(hits[0].value, ast.Tuple) and all(
                        isinstance(x, (ast.Name, ast.Attribute)) for x in hits[0].value.elts):
                return hits[0].value
        return e

    def require_delegated(self, name):
        if name not in self.delegated:
            raise Unsupported("%s is no longer delegated to the wrapped index" % name)
        if name in self.methods:
            raise Unsupported("%s is now defined on the class itself" % name)

    def require_method(self, name):
        if name not in self.methods:
            raise Unsupported("method %s missing" % name)


def _mask_expr(fn, cls, depth=0):
    """The boolean mask the method `fn` selects the wrapped values with, as an expression over the
    parameters of `fn`: the slice of the one subscript `<values>[<mask>]` in its body - or in the
    private method of the class it hands the mask to - with the single-assignment temporaries
    substituted."""
    import copy
    counts, value = {}, {}
    for st in fn.body:
        for x in ast.walk(st):
            if isinstance(x, ast.Name) and isinstance(x.ctx, ast.Store):
                counts[x.id] = counts.get(x.id, 0) + 1
    for st in fn.body:                      # top-level single assignments only
        if isinstance(st, ast.Assign) and len(st.targets) == 1 \
                and isinstance(st.targets[0], ast.Name) and counts[st.targets[0].id] == 1:
            value[st.targets[0].id] = st.value
    params = [a.arg for a in fn.args.args]

    class Sub(ast.NodeTransformer):
        def __init__(self, table, recursive=True):
            self.table, self.depth, self.recursive = table, 0, recursive

        def visit_Name(self, n):
            if isinstance(n.ctx, ast.Load) and n.id in self.table:
                if not self.recursive:      # arguments live in the caller's namespace
                    return copy.deepcopy(self.table[n.id])
                if self.depth > 10:
                    raise Unsupported("cyclic temporaries in " + fn.name)
                self.depth += 1
                r = self.visit(copy.deepcopy(self.table[n.id]))
                self.depth -= 1
                return r
            return n
    found = []
    for st in fn.body:
        for n in ast.walk(st):
            if isinstance(n, ast.Subscript):
                found.append(n.slice)
            elif depth < 3 and isinstance(n, ast.Call) and isinstance(n.func, ast.Attribute) \
                    and isinstance(n.func.value, ast.Name) and params \
                    and n.func.value.id == params[0] and n.func.attr.startswith("_") \
                    and not n.func.attr.startswith("__"):
                m = [x for x in cls.body if isinstance(x, ast.FunctionDef) and x.name == n.func.attr]
                if not m or m[0].decorator_list:
                    continue
                a = m[0].args
                if a.vararg or a.kwarg or a.kwonlyargs or a.posonlyargs:
                    continue
                try:
                    inner = _mask_expr(m[0], cls, depth + 1)
                except Unsupported:
                    continue
                names = [x.arg for x in a.args][1:]
                if len(n.args) > len(names) or any(k.arg not in names for k in n.keywords):
                    continue
                given = dict(zip(names, n.args))
                given.update({k.arg: k.value for k in n.keywords})
                dflt = dict(zip(names[len(names) - len(a.defaults):], a.defaults))
                table = {x: given.get(x, dflt.get(x)) for x in names}
                if any(v is None for v in table.values()):
                    continue
                table[[x.arg for x in a.args][0]] = ast.Name(id=params[0], ctx=ast.Load())
                found.append(Sub(table, recursive=False).visit(copy.deepcopy(inner)))
    if len(found) != 1:
        raise Unsupported("%s: %d selections, expected one" % (fn.name, len(found)))
    mask = Sub({k: v for k, v in value.items() if k not in params}).visit(copy.deepcopy(found[0]))
    free = {n.id for n in ast.walk(mask) if isinstance(n, ast.Name)} - set(params)
    if free & set(counts):
        raise Unsupported("%s: the selection mask depends on %s" % (fn.name, sorted(free & set(counts))))
    return mask


def selection_mask(fn, cls):
    """`def f(<parameters of fn>): return <mask>` for the mask of `_mask_expr`."""
    out = ast.FunctionDef(name=fn.name + "<mask>", args=fn.args,
                          body=[ast.Return(value=_mask_expr(fn, cls))],
                          decorator_list=[], lineno=fn.lineno)
    return ast.fix_missing_locations(out)


def translate_function(mod, cfg, facts):
    label = cfg["path"].rpartition(".")[2]
    private = cfg["src"] == "fh" and label in facts.actual
    fn = find(mod, facts.path(cfg["path"]) if cfg["src"] == "fh" else cfg["path"])
    if not isinstance(fn, ast.FunctionDef):
        raise Unsupported(cfg["path"] + " is not a function")
    if cfg.get("mask"):
        if [ast.unparse(d) for d in fn.decorator_list] != cfg.get("decorators", []):
            raise Unsupported("%s: decorators" % cfg["path"])
        fn = selection_mask(fn, find(mod, cfg["path"].rpartition(".")[0]))
    if private:
        # the parameter names of a private helper are its own: bound by position
        declared = [x.arg for x in fn.args.args]
        if len(declared) != len(cfg["params"]):
            raise Unsupported("%s: parameters %s" % (cfg["path"], declared))
        ren = {p[0]: d for p, d in zip(cfg["params"], declared)}
        cfg = dict(cfg)
        cfg["params"] = [(ren[py], coq, ty) for py, coq, ty in cfg["params"]]
        if "defaults" in cfg:
            cfg["defaults"] = {ren[k]: v for k, v in cfg["defaults"].items()}
    decos = [ast.unparse(d) for d in fn.decorator_list]
    if decos != cfg.get("decorators", []):
        raise Unsupported("%s: decorators %s" % (cfg["path"], decos))
    a = fn.args
    if a.vararg or a.kwarg or a.kwonlyargs or a.posonlyargs:
        raise Unsupported(cfg["path"] + ": signature")
    declared = [x.arg for x in a.args]
    if declared != [p[0] for p in cfg["params"]]:
        raise Unsupported("%s: parameters %s" % (cfg["path"], declared))
    dflt = dict(zip(declared[len(declared) - len(a.defaults):],
                    [ast.literal_eval(d) for d in a.defaults]))
    if dflt != cfg.get("defaults", {}):
        raise Unsupported("%s: defaults %s" % (cfg["path"], dflt))
    env = {py: (cname(coq), ty) for py, coq, ty in cfg["params"] if ty is not None}
    env.update(cfg.get("env", {}))
    body = list(fn.body)
    for imp in cfg.get("skip_imports", []):
        k = [i for i, s in enumerate(body) if isinstance(s, ast.ImportFrom)]
        if not k or ast.unparse(body[k[0]]) != imp:
            raise Unsupported("%s: expected `%s`" % (cfg["path"], imp))
        del body[k[0]]
    tr = Tr(cfg, facts)
    term, ty, r = tr.block(body, env)
    if ty != cfg["ret"]:
        raise Unsupported("%s: result type %s" % (cfg["path"], ty))
    if cfg["raises"] and not r:
        term = "(Ok %s)" % term
    sig = " ".join("(%s : %s)" % (cname(coq), COQTY[t]) for _, coq, t in cfg["params"]
                   if t is not None)
    rty = COQTY[cfg["ret"]]
    if cfg["raises"]:
        rty = "res (%s)" % rty if " " in rty else "res %s" % rty
    return "Definition %s %s : %s :=\n  %s.\n" % (cfg["coq"], sig, rty, term)


HEADER = """(* GENERATED by /verif/translator/fh.py from %s and %s -- do not edit, never committed *)
From Coq Require Import ZArith List Bool.
Require Import SkV.Lib.Base SkV.Lib.ZRange SkV.C02.Model.
Import ListNotations.
Open Scope Z_scope.

(* cutoff=None used in index arithmetic raises TypeError; x[0] on an empty index raises IndexError *)
Definition oz_get (o : option Z) : res Z := match o with Some z => Ok z | None => Err end.
Definition l_first (l : list Z) : res Z := match l with x :: _ => Ok x | [] => Err end.

"""


def check_type_constants(mod):
    """RELATIVE_TYPES / ABSOLUTE_TYPES must both contain the two integer index types (the model's
    fh_init accepts an integer index under either flag)."""
    want = {"RELATIVE_TYPES": {"pd.Int64Index", "pd.RangeIndex"},
            "ABSOLUTE_TYPES": {"pd.Int64Index", "pd.RangeIndex", "pd.DatetimeIndex",
                               "pd.PeriodIndex"}}
    seen = {}
    for n in mod.body:
        if isinstance(n, ast.Assign) and len(n.targets) == 1 \
                and ast.unparse(n.targets[0]) in want and isinstance(n.value, ast.Tuple):
            seen[ast.unparse(n.targets[0])] = {ast.unparse(x) for x in n.value.elts}
    if seen != want:
        raise Unsupported("RELATIVE_TYPES / ABSOLUTE_TYPES changed: %s" % seen)


def translate(repo):
    mods = {}
    for key, rel in (("fh", SRC_FH), ("val", SRC_VAL)):
        with open(os.path.join(repo, rel)) as f:
            mods[key] = ast.parse(f.read())
    facts = Facts(mods["fh"])
    check_type_constants(mods["fh"])
    out = [HEADER % (SRC_FH, SRC_VAL)]
    for cfg in FUNCS:
        out.append(translate_function(mods[cfg["src"]], cfg, facts))
    return {"C02/Gen.v": "\n".join(out)}


if __name__ == "__main__":
    import sys
    print(translate(sys.argv[1] if len(sys.argv) > 1 else "/repo")["C02/Gen.v"])
