"""Fail-closed translator for sktime/performance_metrics/forecasting/_functions.py (property C06).

Emits build/coq/C06/Gen.v with

  gen_percentage_error / gen_relative_error / gen_asymmetric_error
      the three private helpers, translated expression by expression into Q arithmetic
      (numpy element-wise operations become the scalar operation applied per horizon step);
  gen_struct : mname -> opts -> metric
      for each of the 18 public functions, WHICH helper it calls with WHICH arguments, which
      point loss (np.abs / np.square / asymmetric), which aggregate (np.average / np.mean ->
      mean, np.median + _weighted_percentile -> median, gmean + _weighted_geometric_mean with
      the `== 0 -> EPS` replacement -> geometric mean), whether and where np.sqrt is applied, how
      multioutput is handled, and for scaled / relative losses which inner metric is divided by
      which clamped denominator;
  gen_defaults : mname -> opts
      the default values of the option parameters.

coq/C06/Bridge.v proves each of them equal to the hand-written textbook model for ALL arguments.
Anything the translator does not recognise raises Unsupported (the harness reports a broken tie).
"""
import ast
import os

SRC = "sktime/performance_metrics/forecasting/_functions.py"


class Unsupported(Exception):
    pass


def _need(cond, what, node=None):
    if not cond:
        where = " at line %s" % getattr(node, "lineno", "?") if node is not None else ""
        raise Unsupported(what + where)


def _strip_doc(fn):
    body = list(fn.body)
    if body and isinstance(body[0], ast.Expr) and isinstance(body[0].value, ast.Constant) \
            and isinstance(body[0].value.value, str):
        body = body[1:]
    return body


def _u(e):
    return ast.unparse(e)


# ------------------------------------------------------------------------------------------------
# part 1: element-wise helpers -> Q expressions


class Helper:
    """statements: Assign / tuple-Assign of dict lookups / If on a bool parameter / Return."""

    def __init__(self, fn, qparams, bparams, fparams):
        self.fn = fn
        self.q = set(qparams)       # rational parameters
        self.b = set(bparams)       # bool parameters
        self.f = set(fparams)       # 'squared' / 'absolute' selector parameters (pw0)
        self.locals = set()
        self.fdict = None           # name of the {'squared': np.square, 'absolute': np.abs} dict
        self.fvars = {}             # local function variable -> selector parameter

    def expr(self, e):
        if isinstance(e, ast.Constant):
            v = e.value
            _need(isinstance(v, (int, float)) and not isinstance(v, bool) and float(v).is_integer(),
                  "constant %r" % (v,), e)
            return "(%d)" % int(v) if v < 0 else "%d" % int(v)
        if isinstance(e, ast.Name):
            if e.id == "EPS":
                return "EPS"
            _need(e.id in self.q or e.id in self.locals, "name " + e.id, e)
            return e.id
        if isinstance(e, ast.UnaryOp) and isinstance(e.op, ast.USub):
            return "(- %s)" % self.expr(e.operand)
        if isinstance(e, ast.BinOp):
            ops = {ast.Add: "+", ast.Sub: "-", ast.Mult: "*", ast.Div: "/"}
            _need(type(e.op) in ops, "operator " + _u(e), e)
            return "(%s %s %s)" % (self.expr(e.left), ops[type(e.op)], self.expr(e.right))
        if isinstance(e, ast.Call):
            _need(not e.keywords, "keywords in " + _u(e), e)
            fn = _u(e.func)
            a = e.args
            if fn == "np.abs" and len(a) == 1:
                return "(Qabs %s)" % self.expr(a[0])
            if fn == "np.square" and len(a) == 1:
                x = self.expr(a[0])
                return "(%s * %s)" % (x, x)
            if fn == "np.maximum" and len(a) == 2:
                return "(qmax %s %s)" % (self.expr(a[0]), self.expr(a[1]))
            if fn == "np.minimum" and len(a) == 2:
                return "(qmin %s %s)" % (self.expr(a[0]), self.expr(a[1]))
            if fn == "np.where" and len(a) == 3:
                return "(if %s then %s else %s)" % (self.cond(a[0]), self.expr(a[1]),
                                                     self.expr(a[2]))
            if fn in self.fvars and len(a) == 1:
                return "(pwf0 %s %s)" % (self.fvars[fn], self.expr(a[0]))
            raise Unsupported("call %s at line %d" % (_u(e), e.lineno))
        raise Unsupported("expression %s at line %d" % (_u(e), e.lineno))

    def cond(self, e):
        if isinstance(e, ast.Name):
            _need(e.id in self.b, "condition on " + e.id, e)
            return e.id
        _need(isinstance(e, ast.Compare) and len(e.ops) == 1, "condition " + _u(e), e)
        a, b = self.expr(e.left), self.expr(e.comparators[0])
        op = e.ops[0]
        if isinstance(op, ast.GtE):
            return "(Qle_bool %s %s)" % (b, a)
        if isinstance(op, ast.LtE):
            return "(Qle_bool %s %s)" % (a, b)
        if isinstance(op, ast.Lt):
            return "(qltb %s %s)" % (a, b)
        if isinstance(op, ast.Gt):
            return "(qltb %s %s)" % (b, a)
        raise Unsupported("comparison %s at line %d" % (_u(e), e.lineno))

    def stmts(self, body):
        _need(body, "function falls off its end", self.fn)
        s, rest = body[0], body[1:]
        if isinstance(s, ast.Return):
            _need(not rest and s.value is not None, "code after return", s)
            return self.expr(s.value)
        if isinstance(s, ast.If):
            saved = (set(self.locals), dict(self.fvars))
            t = self.cond(s.test)
            a = self.stmts(list(s.body) + rest)
            self.locals, self.fvars = set(saved[0]), dict(saved[1])
            _need(s.orelse, "if without else", s)
            b = self.stmts(list(s.orelse) + rest)
            return "(if %s then %s else %s)" % (t, a, b)
        _need(isinstance(s, ast.Assign) and len(s.targets) == 1, "statement " + _u(s), s)
        tg = s.targets[0]
        if isinstance(tg, ast.Name) and isinstance(s.value, ast.Dict):
            keys = [k.value if isinstance(k, ast.Constant) else None for k in s.value.keys]
            vals = [_u(v) for v in s.value.values]
            _need(dict(zip(keys, vals)) == {"squared": "np.square", "absolute": "np.abs"}
                  and len(keys) == 2, "function table " + _u(s), s)
            self.fdict = tg.id
            return self.stmts(rest)
        if isinstance(tg, ast.Tuple):
            _need(isinstance(s.value, ast.Tuple) and len(tg.elts) == len(s.value.elts),
                  "tuple assignment " + _u(s), s)
            for t, v in zip(tg.elts, s.value.elts):
                _need(isinstance(t, ast.Name) and isinstance(v, ast.Subscript)
                      and _u(v.value) == self.fdict and isinstance(v.slice, ast.Name)
                      and v.slice.id in self.f, "function lookup " + _u(s), s)
                self.fvars[t.id] = v.slice.id
            return self.stmts(rest)
        _need(isinstance(tg, ast.Name), "assignment target " + _u(s), s)
        v = self.expr(s.value)
        self.locals.add(tg.id)
        return "(let %s := %s in %s)" % (tg.id, v, self.stmts(rest))


def _params(fn):
    a = fn.args
    _need(not (a.vararg or a.kwarg or a.kwonlyargs or a.posonlyargs), "signature of " + fn.name, fn)
    names = [x.arg for x in a.args]
    defaults = [None] * (len(names) - len(a.defaults)) + list(a.defaults)
    return names, dict(zip(names, defaults))


def gen_helpers(funcs):
    out = []
    fn = funcs["_percentage_error"]
    names, _ = _params(fn)
    _need(names == ["y_true", "y_pred", "symmetric"], "_percentage_error signature", fn)
    h = Helper(fn, ["y_true", "y_pred"], ["symmetric"], [])
    out.append("Definition gen_percentage_error (y_true y_pred : Q) (symmetric : bool) : Q :=\n  %s."
               % h.stmts(_strip_doc(fn)))
    fn = funcs["_relative_error"]
    names, _ = _params(fn)
    _need(names == ["y_true", "y_pred", "y_pred_benchmark"], "_relative_error signature", fn)
    h = Helper(fn, names, [], [])
    out.append("Definition gen_relative_error (y_true y_pred y_pred_benchmark : Q) : Q :=\n  %s."
               % h.stmts(_strip_doc(fn)))
    fn = funcs["_asymmetric_error"]
    names, _ = _params(fn)
    _need(names == ["y_true", "y_pred", "asymmetric_threshold", "left_error_function",
                    "right_error_function"], "_asymmetric_error signature", fn)
    h = Helper(fn, ["y_true", "y_pred", "asymmetric_threshold"], [],
               ["left_error_function", "right_error_function"])
    out.append("Definition gen_asymmetric_error (y_true y_pred asymmetric_threshold : Q)\n"
               "    (left_error_function right_error_function : pw0) : Q :=\n  %s."
               % h.stmts(_strip_doc(fn)))
    return out


# ------------------------------------------------------------------------------------------------
# part 2: structure of the 18 public functions

COQ_NAME = {
    "mean_absolute_error": "MAE", "mean_squared_error": "MSE", "median_absolute_error": "MdAE",
    "median_squared_error": "MdSE", "mean_absolute_percentage_error": "MAPE",
    "median_absolute_percentage_error": "MdAPE", "mean_squared_percentage_error": "MSPE",
    "median_squared_percentage_error": "MdSPE", "mean_relative_absolute_error": "MRAE",
    "median_relative_absolute_error": "MdRAE", "geometric_mean_relative_absolute_error": "GMRAE",
    "geometric_mean_relative_squared_error": "GMRSE", "mean_absolute_scaled_error": "MASE",
    "median_absolute_scaled_error": "MdASE", "mean_squared_scaled_error": "MSSE",
    "median_squared_scaled_error": "MdSSE", "mean_asymmetric_error": "MAsym",
    "relative_loss": "RelLoss",
}
ORDER = ["MAE", "MSE", "MdAE", "MdSE", "MAPE", "MdAPE", "MSPE", "MdSPE", "MRAE", "MdRAE", "GMRAE",
         "GMRSE", "MASE", "MdASE", "MSSE", "MdSSE", "MAsym", "RelLoss"]
OPT = {"symmetric": "o_symmetric o", "square_root": "o_square_root o", "sp": "o_sp o",
       "asymmetric_threshold": "o_thr o", "left_error_function": "o_left o",
       "right_error_function": "o_right o"}

# the multioutput tail every explicit function ends with
TAIL = ("if isinstance(multioutput, str):\n"
        "    if multioutput == 'raw_values':\n"
        "        return output_errors\n"
        "    elif multioutput == 'uniform_average':\n"
        "        multioutput = None\n")
TAIL_RET = "return np.average(output_errors, weights=multioutput)"


def _kw(call):
    d = {}
    for k in call.keywords:
        _need(k.arg is not None, "**kwargs in " + _u(call), call)
        d[k.arg] = k.value
    return d


def _is_name(e, n):
    return isinstance(e, ast.Name) and e.id == n


class Struct:
    """Symbolic reading of one public function."""

    def __init__(self, fn, funcs, done):
        self.fn = fn
        self.funcs = funcs
        self.done = done            # already classified public functions: name -> dict
        self.names, self.defaults = _params(fn)
        self.env = {}               # local -> inlined ast expression

    # ---- inlining of locals
    def inline(self, e):
        env = self.env

        class T(ast.NodeTransformer):
            def visit_Name(self, n):
                if isinstance(n.ctx, ast.Load) and n.id in env:
                    return env[n.id]
                return n
        import copy
        return T().visit(copy.deepcopy(e))

    # ---- point losses:  (base, pw) as Coq text
    def point(self, e):
        e = self.inline(e)
        _need(isinstance(e, ast.Call), "point loss " + _u(e), e)
        fn = _u(e.func)
        if fn == "_asymmetric_error":
            kw = _kw(e)
            _need(len(e.args) == 2 and _is_name(e.args[0], "y_true") and _is_name(e.args[1], "y_pred")
                  and sorted(kw) == ["asymmetric_threshold", "left_error_function",
                                     "right_error_function"]
                  and all(_is_name(v, k) for k, v in kw.items()),
                  "arguments of " + _u(e), e)
            return "BPlain", "(PAsym (o_thr o) (o_left o) (o_right o))"
        _need(fn in ("np.abs", "np.square") and len(e.args) == 1 and not e.keywords,
              "point loss " + _u(e), e)
        pw = "(P0 PAbs)" if fn == "np.abs" else "(P0 PSq)"
        return self.base(e.args[0]), pw

    def base(self, x):
        if isinstance(x, ast.BinOp) and isinstance(x.op, ast.Sub):
            # |.| and (.)^2 are even: y_pred - y_true and y_true - y_pred are the same loss
            l, r = _u(x.left), _u(x.right)
            _need({l, r} == {"y_true", "y_pred"}, "error term " + _u(x), x)
            return "BPlain"
        _need(isinstance(x, ast.Call), "error term " + _u(x), x)
        fn = _u(x.func)
        if fn == "_percentage_error":
            kw = _kw(x)
            _need(len(x.args) == 2 and _is_name(x.args[0], "y_true") and _is_name(x.args[1], "y_pred")
                  and list(kw) == ["symmetric"] and _is_name(kw["symmetric"], "symmetric"),
                  "arguments of " + _u(x), x)
            return "(BPct (o_symmetric o))"
        if fn == "_relative_error":
            _need(not x.keywords and [_u(a) for a in x.args] == ["y_true", "y_pred",
                                                                 "y_pred_benchmark"],
                  "arguments of " + _u(x), x)
            return "BRel"
        raise Unsupported("error term %s at line %d" % (_u(x), x.lineno))

    # ---- aggregates over the horizon: returns (point expr, aggregate) for the given weighting
    def agg_unweighted(self, e):
        e = self.inline(e)
        _need(isinstance(e, ast.Call), "aggregate " + _u(e), e)
        fn, kw = _u(e.func), _kw(e)
        _need(len(e.args) == 1, "aggregate " + _u(e), e)
        if fn in ("np.mean", "np.median", "gmean"):
            _need(list(kw) == ["axis"] and _u(kw["axis"]) == "0", "axis of " + _u(e), e)
            a = {"np.mean": "Mean", "np.median": "Median", "gmean": "GMean"}[fn]
            return e.args[0], a
        raise Unsupported("unweighted aggregate %s at line %d" % (_u(e), e.lineno))

    def agg_weighted(self, e):
        e = self.inline(e)
        _need(isinstance(e, ast.Call), "aggregate " + _u(e), e)
        fn, kw = _u(e.func), _kw(e)
        _need(len(e.args) == 1, "aggregate " + _u(e), e)
        if fn == "np.average":
            _need(sorted(kw) == ["axis", "weights"] and _u(kw["axis"]) == "0"
                  and _is_name(kw["weights"], "horizon_weight"), "arguments of " + _u(e), e)
            return e.args[0], "Mean"
        if fn == "_weighted_percentile":
            _need(list(kw) == ["sample_weight"] and _is_name(kw["sample_weight"], "horizon_weight"),
                  "arguments of " + _u(e), e)
            return e.args[0], "Median"
        if fn == "_weighted_geometric_mean":
            _need(sorted(kw) == ["axis", "sample_weight"] and _u(kw["axis"]) == "0"
                  and _is_name(kw["sample_weight"], "horizon_weight"), "arguments of " + _u(e), e)
            return e.args[0], "GMean"
        raise Unsupported("weighted aggregate %s at line %d" % (_u(e), e.lineno))

    def gm_floor(self, x):
        """np.where(R == 0.0, EPS, R) -> R"""
        _need(isinstance(x, ast.Call) and _u(x.func) == "np.where" and len(x.args) == 3
              and not x.keywords, "geometric mean argument " + _u(x), x)
        c, a, b = x.args
        _need(isinstance(c, ast.Compare) and len(c.ops) == 1 and isinstance(c.ops[0], ast.Eq)
              and isinstance(c.comparators[0], ast.Constant) and c.comparators[0].value == 0
              and _u(a) == "EPS" and ast.dump(c.left) == ast.dump(b),
              "zero replacement " + _u(x), x)
        return b

    def explicit(self, body):
        """the functions that compute output_errors themselves."""
        i = 0
        n_checks = 0
        both = None     # (unweighted expr, weighted expr) of output_errors
        while i < len(body):
            s = body[i]
            src = _u(s)
            if src in ("_, y_true, y_pred, multioutput = _check_reg_targets(y_true, y_pred, multioutput)",
                       "_, y_true, y_pred_benchmark, multioutput = _check_reg_targets(y_true, "
                       "y_pred_benchmark, multioutput)"):
                n_checks += 1
            elif src == "if horizon_weight is not None:\n    check_consistent_length(y_true, horizon_weight)":
                pass
            elif isinstance(s, ast.Assign) and len(s.targets) == 1 and \
                    isinstance(s.targets[0], ast.Name) and s.targets[0].id != "output_errors":
                _need(s.targets[0].id not in self.names, "parameter reassigned: " + src, s)
                self.env[s.targets[0].id] = self.inline(s.value)
            else:
                break
            i += 1
        _need(n_checks >= 1, "no _check_reg_targets in " + self.fn.name, self.fn)
        s = body[i]
        if isinstance(s, ast.Assign) and _u(s.targets[0]) == "output_errors":
            x, a = self.agg_weighted(s.value)       # np.average(weights=None) is the plain mean
            _need(a == "Mean", "single-statement aggregate must be np.average", s)
            both = (x, x, a)
        else:
            _need(isinstance(s, ast.If) and _u(s.test) == "horizon_weight is None"
                  and len(s.body) == 1 and len(s.orelse) == 2
                  and _u(s.orelse[0]) == "check_consistent_length(y_true, horizon_weight)",
                  "aggregation statement " + _u(s), s)
            s0, s1 = s.body[0], s.orelse[1]
            _need(all(isinstance(t, ast.Assign) and _u(t.targets[0]) == "output_errors"
                      for t in (s0, s1)), "aggregation statement " + _u(s), s)
            x0, a0 = self.agg_unweighted(s0.value)
            x1, a1 = self.agg_weighted(s1.value)
            _need(a0 == a1, "weighted and unweighted aggregates differ (%s / %s)" % (a0, a1), s)
            both = (x0, x1, a0)
        i += 1
        x0, x1, a = both
        if a == "GMean":
            x0, x1 = self.gm_floor(self.inline(x0)), self.gm_floor(self.inline(x1))
        p0, p1 = self.point(x0), self.point(x1)
        _need(p0 == p1, "weighted and unweighted branches use different losses: %s / %s"
              % (_u(x0), _u(x1)), s)
        rooted = "false"
        if i < len(body) and _u(body[i]) == "if square_root:\n    output_errors = np.sqrt(output_errors)":
            _need("square_root" in self.names, "square_root is not a parameter", body[i])
            rooted = "(o_square_root o)"
            i += 1
        _need(i + 2 == len(body) and _u(body[i]) + "\n" == TAIL and _u(body[i + 1]) == TAIL_RET,
              "multioutput tail of " + self.fn.name, body[min(i, len(body) - 1)])
        return {"fam": "FSimple %s %s %s" % (p0[0], p0[1], a), "rooted": rooted,
                "simple": (p0[0], p0[1], a)}

    def sklearn_wrapper(self, body):
        _need(len(body) in (1, 2), "body of " + self.fn.name, self.fn)
        rooted = "false"
        if len(body) == 2:
            _need(_u(body[0]) == "squared = not square_root", "statement " + _u(body[0]), body[0])
        r = body[-1]
        _need(isinstance(r, ast.Return) and isinstance(r.value, ast.Call), "return " + _u(r), r)
        c = r.value
        fn, kw = _u(c.func), _kw(c)
        table = {"_mean_absolute_error": ("(P0 PAbs)", "Mean"), "_mean_squared_error": ("(P0 PSq)", "Mean"),
                 "_median_absolute_error": ("(P0 PAbs)", "Median")}
        _need(fn in table and [_u(a) for a in c.args] == ["y_true", "y_pred"], "call " + _u(c), c)
        want = {"sample_weight": "horizon_weight", "multioutput": "multioutput"}
        if fn == "_mean_squared_error":
            _need(len(body) == 2, "mean_squared_error without `squared`", c)
            want["squared"] = "squared"
            rooted = "(o_square_root o)"
        else:
            _need(len(body) == 1, "unexpected statement in " + self.fn.name, c)
        _need({k: _u(v) for k, v in kw.items()} == want, "keywords of " + _u(c), c)
        # the imported names must be sklearn's
        pw, a = table[fn]
        return {"fam": "FSimple BPlain %s %s" % (pw, a), "rooted": rooted,
                "simple": ("BPlain", pw, a)}

    def scaled(self, body):
        srcs = [_u(s) for s in body]
        try:
            i = srcs.index("y_pred_naive = y_train[:-sp]")
        except ValueError:
            raise Unsupported("no seasonal naive forecast in " + self.fn.name)
        _need(srcs[i - 1] == "y_train = np.asarray(y_train)", "statement before naive forecast",
              body[i])
        s1, s2 = body[i + 1], body[i + 2]
        for s in (s1, s2):
            _need(isinstance(s, ast.Assign) and isinstance(s.targets[0], ast.Name)
                  and isinstance(s.value, ast.Call), "statement " + _u(s), s)
        den, num = s1.targets[0].id, s2.targets[0].id
        c1, c2 = s1.value, s2.value
        inner = _u(c1.func)
        _need(inner == _u(c2.func) and inner in self.done and self.done[inner].get("simple")
              and self.done[inner]["simple"][0] == "BPlain", "inner metric " + inner, s1)
        _need([_u(a) for a in c1.args] == ["y_train[sp:]", "y_pred_naive"]
              and {k: _u(v) for k, v in _kw(c1).items()} == {"multioutput": "multioutput"},
              "naive error call " + _u(c1), c1)
        _need([_u(a) for a in c2.args] == ["y_true", "y_pred"]
              and {k: _u(v) for k, v in _kw(c2).items()} ==
              {"horizon_weight": "horizon_weight", "multioutput": "multioutput"},
              "forecast error call " + _u(c2), c2)
        ratio = "%s / np.maximum(%s, EPS)" % (num, den)
        rest = srcs[i + 3:]
        if rest == ["return " + ratio]:
            rooted = "false"
        else:
            _need(rest == ["if square_root:\n    loss = np.sqrt(%s)\nelse:\n    loss = %s" % (ratio, ratio),
                           "return loss"], "result of " + self.fn.name, body[i + 3])
            rooted = "(o_square_root o)"
        pw, a = self.done[inner]["simple"][1], self.done[inner]["simple"][2]
        _need(pw in ("(P0 PAbs)", "(P0 PSq)"), "inner loss " + pw, s1)
        # the part before: input checks only (no arithmetic on the data)
        for s in body[:i - 1]:
            self.check_only(s)
        return {"fam": "FScaled %s %s (o_sp o)" % (pw[4:-1], a), "rooted": rooted}

    def check_only(self, s):
        """statements allowed before the arithmetic: validation that does not change values."""
        src = _u(s)
        ok = (
            src == "_, y_true, y_pred, multioutput = _check_reg_targets(y_true, y_pred, multioutput)"
            or src == "if horizon_weight is not None:\n    check_consistent_length(y_true, horizon_weight)"
            or src == "y_train = check_series(y_train, enforce_univariate=False)"
            or src == "if y_train.ndim == 1:\n    y_train = np.expand_dims(y_train, 1)"
            or (isinstance(s, ast.If) and all(isinstance(b, (ast.Raise, ast.Expr, ast.If))
                                              for b in ast.walk(s) if isinstance(b, ast.stmt)
                                              and b is not s)
                and not s.orelse))
        _need(ok, "statement before the arithmetic: " + src.split("\n")[0], s)

    def relloss(self, body):
        srcs = [_u(s) for s in body]
        want = [
            "_, y_true, y_pred, multioutput = _check_reg_targets(y_true, y_pred, multioutput)",
            "if horizon_weight is not None:\n    check_consistent_length(y_true, horizon_weight)",
            "loss_preds = relative_loss_function(y_true, y_pred, horizon_weight=horizon_weight, "
            "multioutput=multioutput)",
            "loss_benchmark = relative_loss_function(y_true, y_pred_benchmark, "
            "horizon_weight=horizon_weight, multioutput=multioutput)",
            "return np.divide(loss_preds, np.maximum(loss_benchmark, EPS))"]
        _need(srcs == want, "body of relative_loss", self.fn)
        return {"fam": "FRelLoss (o_rl_k o) (o_rl_a o)", "rooted": "false"}

    def read(self):
        body = _strip_doc(self.fn)
        name = self.fn.name
        if "scaled" in name:
            return self.scaled(body)
        if name == "relative_loss":
            return self.relloss(body)
        if len(body) <= 2:
            return self.sklearn_wrapper(body)
        return self.explicit(body)


def _default_opts(funcs):
    """gen_defaults: the option defaults of each function as an `opts` record."""
    rows = []
    for fname, cn in sorted(COQ_NAME.items(), key=lambda kv: ORDER.index(kv[1])):
        _, d = _params(funcs[fname])

        def const(nm, fallback):
            if nm not in d:
                return fallback
            _need(d[nm] is not None, "%s of %s has no default" % (nm, fname), funcs[fname])
            return d[nm]
        sym = const("symmetric", None)
        rt = const("square_root", None)
        sp = const("sp", None)
        thr = const("asymmetric_threshold", None)
        lf = const("left_error_function", None)
        rf = const("right_error_function", None)
        rl = const("relative_loss_function", None)

        def cb(x, dflt):
            if x is None:
                return dflt
            _need(isinstance(x, ast.Constant) and isinstance(x.value, bool), "bool default", x)
            return "true" if x.value else "false"

        def cpw(x, dflt):
            if x is None:
                return dflt
            _need(isinstance(x, ast.Constant) and x.value in ("squared", "absolute"),
                  "loss default", x)
            return "PSq" if x.value == "squared" else "PAbs"
        if sp is not None:
            _need(isinstance(sp, ast.Constant) and isinstance(sp.value, int) and sp.value >= 1,
                  "sp default", sp)
        if thr is not None:
            _need(isinstance(thr, ast.Constant) and float(thr.value).is_integer(), "threshold", thr)
        rlk, rla = "PAbs", "Mean"
        if rl is not None:
            _need(isinstance(rl, ast.Name) and rl.id in ("mean_absolute_error", "mean_squared_error",
                                                         "median_absolute_error",
                                                         "median_squared_error"),
                  "relative_loss_function default", rl)
            rlk = "PAbs" if "absolute" in rl.id else "PSq"
            rla = "Median" if rl.id.startswith("median") else "Mean"
        rows.append("  | %s => mkopts %s %s %d%%nat (%d) %s %s %s %s" % (
            cn, cb(sym, "true"), cb(rt, "false"), sp.value if sp is not None else 1,
            int(thr.value) if thr is not None else 0, cpw(lf, "PSq"), cpw(rf, "PAbs"), rlk, rla))
    return rows


def _check_module(mod):
    """module-level facts the translation relies on."""
    want = {
        "EPS = np.finfo(np.float64).eps": False,
        "from sklearn.metrics import mean_absolute_error as _mean_absolute_error": False,
        "from sklearn.metrics import mean_squared_error as _mean_squared_error": False,
        "from sklearn.metrics import median_absolute_error as _median_absolute_error": False,
        "from sklearn.utils.stats import _weighted_percentile": False,
        "from scipy.stats import gmean": False,
        "import numpy as np": False,
    }
    for n in mod.body:
        s = _u(n)
        if s in want:
            want[s] = True
    missing = [k for k, v in want.items() if not v]
    _need(not missing, "module-level definitions changed: missing %s" % missing)
    names = {}
    for n in mod.body:
        for t in (n.targets if isinstance(n, ast.Assign) else []):
            if isinstance(t, ast.Name):
                names[t.id] = names.get(t.id, 0) + 1
        if isinstance(n, ast.FunctionDef):
            names[n.name] = names.get(n.name, 0) + 1
    dup = [k for k, v in names.items() if v > 1]
    _need(not dup, "names bound more than once at module level: %s" % dup)


def _gm_helper(funcs):
    """_weighted_geometric_mean must be exp(np.average(log x, weights=w, axis=axis)): np.average
    applies 1-D weights along `axis` (its documented meaning, which is what the model's weighted
    geometric mean is).  Anything else - in particular the 0.6.0 body
    exp(sum(w * log x, axis) / sum(w, axis)), whose `w * log x` broadcasts the (fh,) weights along
    the OUTPUT axis of the (fh, n_outputs) errors - is refused: numpy broadcasting is not
    modelled."""
    fn = funcs["_weighted_geometric_mean"]
    names, _ = _params(fn)
    _need(names == ["x", "sample_weight", "axis"], "_weighted_geometric_mean signature", fn)
    body = [_u(s) for s in _strip_doc(fn)]
    _need(len(body) == 2 and body[0] == "check_consistent_length(x, sample_weight)"
          and body[1] == "return np.exp(np.average(np.log(x), weights=sample_weight, axis=axis))",
          "_weighted_geometric_mean body (expected exp of np.average of logs along `axis`)", fn)


def translate(repo):
    path = os.path.join(repo, SRC)
    with open(path) as f:
        mod = ast.parse(f.read())
    _check_module(mod)
    funcs = {n.name: n for n in mod.body if isinstance(n, ast.FunctionDef)}
    missing = [f for f in list(COQ_NAME) + ["_percentage_error", "_relative_error",
                                            "_asymmetric_error", "_weighted_geometric_mean"]
               if f not in funcs]
    _need(not missing, "functions missing from _functions.py: %s" % missing)
    _gm_helper(funcs)
    helpers = gen_helpers(funcs)
    done = {}
    # simple functions first: the scaled ones refer to them
    order = [f for f in COQ_NAME if "scaled" not in f] + [f for f in COQ_NAME if "scaled" in f]
    for fname in order:
        st = Struct(funcs[fname], funcs, done)
        names = st.names
        _need(names[:2] == ["y_true", "y_pred"], "signature of " + fname, funcs[fname])
        done[fname] = st.read()
    rows = []
    for cn in ORDER:
        fname = [f for f, c in COQ_NAME.items() if c == cn][0]
        rows.append("  | %s => mkmetric (%s) %s" % (cn, done[fname]["fam"], done[fname]["rooted"]))
    text = ["(* GENERATED by translator/metricq.py from %s - do not edit *)" % SRC,
            "From Coq Require Import QArith Qabs List Bool ZArith String.",
            "Require Import SkV.C06.Model.",
            "Import ListNotations.",
            "Open Scope Q_scope.",
            ""]
    text += helpers
    text += ["", "Definition gen_struct (n : mname) (o : opts) : metric :=", "  match n with"]
    text += rows + ["  end.", ""]
    text += ["Definition gen_defaults (n : mname) : opts :=", "  match n with"]
    text += _default_opts(funcs) + ["  end.", ""]
    text += ["(* which python function each row above was read from *)",
             "Definition gen_fname (n : mname) : string :=", "  match n with"]
    text += ['  | %s => "%s"' % (cn, [f for f, c in COQ_NAME.items() if c == cn][0]) for cn in ORDER]
    text += ["  end.", ""]
    return {"C06/Gen.v": "\n".join(text)}


if __name__ == "__main__":
    import sys
    print(translate(sys.argv[1] if len(sys.argv) > 1 else "/repo")["C06/Gen.v"])


# ------------------------------------------------------------------------------------------------
# part 3: the metric classes as wrappers (facts for coq/C06/Wrap.v)

CLS_SRC = "sktime/performance_metrics/forecasting/_classes.py"
BASE_PARAMS = ["func", "name", "greater_is_better"]
SERIES = ("y_train", "y_pred_benchmark")
NOT_OPTIONS = ("y_true", "y_pred", "horizon_weight", "multioutput") + SERIES


def func_sigs(repo):
    with open(os.path.join(repo, SRC)) as f:
        mod = ast.parse(f.read())
    sigs = {}
    for n in mod.body:
        if isinstance(n, ast.FunctionDef) and n.name in COQ_NAME:
            names, d = _params(n)
            sigs[n.name] = {"opts": [p for p in names if p not in NOT_OPTIONS],
                            "series": [p for p in names if p in SERIES and d[p] is None]}
    return sigs


def _methods(cls):
    return {n.name: n for n in cls.body if isinstance(n, ast.FunctionDef)}


def _read_call(fn):
    """__call__: (accepts **kwargs?, [(keyword, attribute)]) from `return self._func(y_true, y_pred, ...)`."""
    a = fn.args
    _need([x.arg for x in a.args] == ["self", "y_true", "y_pred"] and not a.vararg
          and not a.kwonlyargs and not a.defaults, "signature of __call__", fn)
    kwargs = a.kwarg.arg if a.kwarg else None
    body = _strip_doc(fn)
    _need(len(body) == 1 and isinstance(body[0], ast.Return) and isinstance(body[0].value, ast.Call),
          "body of __call__", fn)
    c = body[0].value
    _need(_u(c.func) == "self._func" and [_u(x) for x in c.args] == ["y_true", "y_pred"],
          "call in __call__: " + _u(c), c)
    fw, forwards_kwargs = [], False
    for k in c.keywords:
        if k.arg is None:
            _need(kwargs is not None and _is_name(k.value, kwargs), "** in " + _u(c), c)
            forwards_kwargs = True
            continue
        v = k.value
        _need(isinstance(v, ast.Attribute) and _is_name(v.value, "self"), "keyword value " + _u(v), c)
        fw.append((k.arg, v.attr))
    _need((kwargs is None) == (not forwards_kwargs), "**kwargs accepted but not forwarded", fn)
    return forwards_kwargs, fw


def _read_base_init(fn):
    """wrapper base __init__: params, {attribute: param}; must hand func/name/greater_is_better on."""
    names, _ = _params(fn)
    _need(names[:4] == ["self"] + BASE_PARAMS, "signature of " + fn.name, fn)
    attrs = {}
    saw_super = False
    for s in _strip_doc(fn):
        if isinstance(s, ast.Assign) and len(s.targets) == 1 and \
                isinstance(s.targets[0], ast.Attribute) and _is_name(s.targets[0].value, "self") \
                and isinstance(s.value, ast.Name) and s.value.id in names:
            attrs[s.targets[0].attr] = s.value.id
        elif _u(s) == "super().__init__(func=func, name=name, greater_is_better=greater_is_better)":
            saw_super = True
        else:
            raise Unsupported("statement in wrapper __init__: " + _u(s))
    _need(saw_super, "wrapper __init__ does not call super().__init__", fn)
    return names[4:], attrs


RL_FUNCS = ("mean_absolute_error", "mean_squared_error", "median_absolute_error",
            "median_squared_error")


def _ctor_default(cls, p, d, node):
    """default of a constructor parameter as a Coq `oval`."""
    _need(d is not None, "%s(%s) has no default" % (cls, p), node)
    if isinstance(d, ast.Constant):
        v = d.value
        if isinstance(v, bool):
            return "VBool %s" % ("true" if v else "false")
        if isinstance(v, int) and v >= 0 and p == "sp":
            return "VNat %d" % v
        if isinstance(v, (int, float)):
            a, b = float(v).as_integer_ratio()
            return "VQ (%s # %d)" % ("(%d)" % a if a < 0 else "%d" % a, b)
        if v in ("squared", "absolute"):
            return "VPw %s" % ("PSq" if v == "squared" else "PAbs")
    if isinstance(d, ast.Name) and d.id in RL_FUNCS:
        return "VLoss %s %s" % ("PAbs" if "absolute" in d.id else "PSq",
                                "Median" if d.id.startswith("median") else "Mean")
    raise Unsupported("default of %s(%s): %s" % (cls, p, _u(d)))


def class_facts(repo):
    with open(os.path.join(repo, CLS_SRC)) as f:
        mod = ast.parse(f.read())
    classes = {n.name: n for n in mod.body if isinstance(n, ast.ClassDef)}
    _need("_MetricFunctionWrapper" in classes, "_MetricFunctionWrapper missing")
    root = classes["_MetricFunctionWrapper"]
    rm = _methods(root)
    _need("__init__" in rm and "__call__" in rm, "_MetricFunctionWrapper methods", root)
    body = [_u(s) for s in _strip_doc(rm["__init__"])]
    _need(_params(rm["__init__"])[0] == ["self"] + BASE_PARAMS and body[0] == "self._func = func",
          "_MetricFunctionWrapper.__init__", rm["__init__"])
    sigs = func_sigs(repo)
    out = {}
    for fname in COQ_NAME:
        pass
    public = [c for c in classes.values() if not c.name.startswith("_")]
    for c in public:
        _need(len(c.bases) == 1 and isinstance(c.bases[0], ast.Name) and c.bases[0].id in classes,
              "bases of " + c.name, c)
        base = classes[c.bases[0].id]
        m = _methods(c)
        _need(set(m) == {"__init__"}, "methods of " + c.name, c)
        ctor, ctor_d = _params(m["__init__"])
        _need(ctor[0] == "self", "constructor of " + c.name, c)
        ctor = ctor[1:]
        ctor_defaults = [(p_, _ctor_default(c.name, p_, ctor_d[p_], m["__init__"])) for p_ in ctor]
        local = {}
        sup = None
        for s in _strip_doc(m["__init__"]):
            if isinstance(s, ast.Assign) and len(s.targets) == 1 and isinstance(s.targets[0], ast.Name) \
                    and isinstance(s.value, (ast.Constant, ast.Name)):
                local[s.targets[0].id] = s.value
            elif isinstance(s, ast.Expr) and isinstance(s.value, ast.Call) and \
                    _u(s.value.func) == "super().__init__" and not s.value.args:
                sup = _kw(s.value)
            else:
                raise Unsupported("statement in %s.__init__: %s" % (c.name, _u(s)))
        _need(sup is not None and "func" in sup, "%s does not call super().__init__" % c.name, c)
        fv = sup["func"]
        fv = local.get(fv.id, fv) if isinstance(fv, ast.Name) else fv
        _need(isinstance(fv, ast.Name) and fv.id in sigs, "wrapped function of " + c.name, c)
        # the wrapper base: own __init__ or the root's; MRO = base, its bases left to right
        chain = [base] + [classes[b.id] for b in base.bases
                          if isinstance(b, ast.Name) and b.id in classes]
        _need(all(isinstance(b, ast.Name) for b in base.bases), "bases of " + base.name, base)
        # the method lookup below is python's only if the MRO is base, then its bases left to
        # right, and none of those inherits a method from a class of this module
        for k in chain[1:]:
            _need(all(isinstance(b, ast.Name) and b.id not in classes for b in k.bases),
                  "bases of " + k.name, k)
        _need(all(b.id in classes for b in base.bases) or base is root, "bases of " + base.name, base)
        init = next((_methods(k)["__init__"] for k in chain if "__init__" in _methods(k)), None)
        call = next((_methods(k)["__call__"] for k in chain if "__call__" in _methods(k)), None)
        _need(init is not None and call is not None, "methods of " + base.name, base)
        if init is rm["__init__"]:
            extra_params, attr_of = [], {}
        else:
            extra_params, attr_of = _read_base_init(init)
        _need(set(sup) <= set(BASE_PARAMS) | set(extra_params), "keywords of super().__init__ in "
              + c.name, c)
        attrs = {}
        for attr, p in attr_of.items():
            if p in sup:
                v = sup[p]
                attrs[attr] = ("arg", v.id) if (isinstance(v, ast.Name) and v.id in ctor
                                                and v.id not in local) else ("fixed",)
            else:
                attrs[attr] = ("fixed",)       # the wrapper's own default
        kwargs, fw = _read_call(call)
        out[c.name] = {"func": fv.id, "ctor": ctor, "attrs": attrs, "call_kwargs": kwargs,
                       "forwards": fw, "ctor_defaults": ctor_defaults}
    missing = [f for f in sigs if f not in {v["func"] for v in out.values()}]
    _need(not missing, "functions without a class: %s" % missing)
    return out, sigs


def _cs(s):
    return '"%s"' % s


def _clist(xs):
    return "[" + "; ".join(xs) + "]"


def coq_wrapper(name, w):
    attrs = _clist(["(%s, %s)" % (_cs(a), "FromArg " + _cs(v[1]) if v[0] == "arg" else "Fixed")
                    for a, v in sorted(w["attrs"].items())])
    fw = _clist(["(%s, %s)" % (_cs(k), _cs(a)) for k, a in w["forwards"]])
    return "(mkwrapper %s %s %s %s %s %s)" % (
        _cs(name), _cs(w["func"]), _clist([_cs(p) for p in w["ctor"]]), attrs,
        "true" if w["call_kwargs"] else "false", fw)


def coq_fsig(fname, s):
    return "(mkfsig %s %s %s)" % (_cs(fname), _clist([_cs(p) for p in s["opts"]]),
                                  _clist([_cs(p) for p in s["series"]]))


def translate_classes(repo):
    facts, sigs = class_facts(repo)
    rows = ["  (%s,\n   %s)" % (coq_wrapper(n, w), coq_fsig(w["func"], sigs[w["func"]]))
            for n, w in sorted(facts.items())]
    text = ["(* GENERATED by translator/metricq.py from %s - do not edit *)" % CLS_SRC,
            "From Coq Require Import QArith String List Bool.",
            "Require Import SkV.C06.Model SkV.C06.Wrap SkV.C06.WrapSem.",
            "Import ListNotations.",
            "Open Scope string_scope.",
            "",
            "Definition gen_wrappers : list (wrapper * fsig) := [",
            ";\n".join(rows), "].", "",
            "(* class, wrapped function, defaults of the constructor parameters *)",
            "Definition gen_ctor_defaults : list (string * string * list (string * oval)) := [",
            ";\n".join("  (%s, %s, %s)" % (_cs(n), _cs(w["func"]), _clist(
                ["(%s, %s)" % (_cs(p_), v) for p_, v in w["ctor_defaults"]]))
                for n, w in sorted(facts.items())),
            "].", ""]
    return {"C06/GenWrap.v": "\n".join(text)}
