"""Fail-closed translator for sktime/performance_metrics/forecasting (property C06).

Emits build/coq/C06/Gen.v with

  gen_point : mname -> opts -> Q -> Q -> Q -> option Q
      for each function that computes its per-step loss itself, that loss as a Q expression of
      y_true / y_pred / y_pred_benchmark and the options, with ALL private helpers inlined (numpy
      element-wise operations become the scalar operation applied per horizon step);
  gen_struct : mname -> opts -> metric
      for each of the 18 public functions, WHICH helper it calls with WHICH arguments, which
      point loss (np.abs / np.square / asymmetric), which aggregate (np.average / np.mean ->
      mean, np.median + _weighted_percentile -> median, gmean + _weighted_geometric_mean with
      the `== 0 -> EPS` replacement -> geometric mean), whether and where np.sqrt is applied, how
      multioutput is handled, and for scaled / relative losses which inner metric is divided by
      which clamped denominator;
  gen_defaults, gen_fname
      the default values of the option parameters; the python name each row was read from;

and build/coq/C06/GenWrap.v with the wrapper facts of the 18 metric classes.

Nothing here looks at the TEXT of a statement.  Every function / method is executed symbolically
(translator/metricsym.py: calls of same-module helpers inlined, guard clauses, temporaries, renamed
locals, conditional expressions, shared sub-expressions all vanish in the term) and the readers
below inspect the term the function computes in each MODE (horizon_weight None / array,
multioutput 'raw_values' / 'uniform_average' / array, square_root False / True):

  simple metric   raw = [sqrt] AGG(POINT(BASE))            with the same POINT weighted and unweighted,
                  uniform = np.mean(raw), weights = np.average(raw, weights=multioutput)
  scaled metric   [sqrt] (f(y_true, y_pred, horizon_weight, multioutput)
                          / np.maximum(f(y_train[sp:], y_train[:-sp], multioutput), EPS))
  relative_loss   L(y_true, y_pred, ...) / np.maximum(L(y_true, y_pred_benchmark, ...), EPS)

coq/C06/Bridge.v proves each generated definition equal to the hand-written textbook model for ALL
arguments.  Anything the readers do not recognise raises Unsupported (a broken tie).
"""
import ast
import os

from translator.metricsym import (ARR, FALSE, K, NONE, P, N, TRUE, Module, Unsupported, call,
                                  construct, contains, evaluate, external_bases, is_k, kval, kwd,
                                  method_term, mro, show, signature, strip_raise, subst)
from translator.metricsym import _need      # noqa: F401  (re-exported for readers below)

SRC = "sktime/performance_metrics/forecasting/_functions.py"

COQ_NAME = {
    "mean_absolute_error": "MAE", "mean_squared_error": "MSE", "median_absolute_error": "MdAE",
    "median_squared_error": "MdSE", "mean_absolute_percentage_error": "MAPE",
    "median_absolute_percentage_error": "MdAPE", "mean_squared_percentage_error": "MSPE",
    "median_squared_percentage_error": "MdSPE", "mean_relative_absolute_error": "MRAE",
    "median_relative_absolute_error": "MdRAE", "geometric_mean_relative_absolute_error": "GMRAE",
    "geometric_mean_relative_squared_error": "GMRSE", "mean_absolute_scaled_error": "MASE",
    "median_absolute_scaled_error": "MdASE", "mean_squared_scaled_error": "MSSE",
    "median_squared_scaled_error": "MdSSE", "mean_asymmetric_error": "MAsym",
    "relative_loss": "RelLoss",
}
ORDER = ["MAE", "MSE", "MdAE", "MdSE", "MAPE", "MdAPE", "MSPE", "MdSPE", "MRAE", "MdRAE", "GMRAE",
         "GMRSE", "MASE", "MdASE", "MSSE", "MdSSE", "MAsym", "RelLoss"]

YT, YP, YB, YTR = P("y_true"), P("y_pred"), P("y_pred_benchmark"), P("y_train")
# numpy's float64 machine epsilon, however the module names it (constants are resolved by value)
EPS_T = ("ATTR", call(N("np.finfo"), (N("np.float64"),)), "eps")


def _load(repo, rel):
    return Module.load(repo, rel)


def _functions_module(repo):
    mod = _load(repo, SRC)
    missing = [f for f in COQ_NAME if f not in mod.funcs]
    _need(not missing, "functions missing from _functions.py: %s" % missing)
    return mod


def _ev_kw(mod):
    """private names are not semantic: every function of the module that is not one of the 18
    public metrics is inlined at its call sites, wherever it is defined and whatever it is
    called; calls of the public metrics stay calls (arguments normalised to keywords)."""
    return {"opaque": set(COQ_NAME)}


# ------------------------------------------------------------------------------------------------
# part 1: element-wise terms -> Q expressions

FTABLE = {(K("squared"), N("np.square")), (K("absolute"), N("np.abs"))}


class Emit:
    def __init__(self, q, b, f):
        self.q, self.b, self.f = set(q), set(b), set(f)

    def expr(self, t):
        h = t[0]
        if h == "K":
            v = kval(t)
            _need(isinstance(v, (int, float)) and not isinstance(v, bool) and float(v).is_integer(),
                  "constant %r in a helper" % (v,))
            return "(%d)" % int(v) if v < 0 else "%d" % int(v)
        if h == "P":
            _need(t[1] in self.q, "helper uses %s as a number" % t[1])
            return t[1]
        if t == EPS_T:
            return "EPS"
        if h == "U" and t[1] == "-":
            return "(- %s)" % self.expr(t[2])
        if h == "B":
            _need(t[1] in "+-*/", "operator %s in a helper" % t[1])
            return "(%s %s %s)" % (self.expr(t[2]), t[1], self.expr(t[3]))
        if h == "ITE":
            return "(if %s then %s else %s)" % (self.cond(t[1]), self.expr(t[2]), self.expr(t[3]))
        if h == "C":
            f, a, kw = t[1], t[2], t[3]
            _need(not kw, "keywords in " + show(t))
            if f == N("np.abs") and len(a) == 1:
                return "(Qabs %s)" % self.expr(a[0])
            if f == N("np.square") and len(a) == 1:
                x = self.expr(a[0])
                return "(%s * %s)" % (x, x)
            if f == N("np.maximum") and len(a) == 2:
                return "(qmax %s %s)" % (self.expr(a[0]), self.expr(a[1]))
            if f == N("np.minimum") and len(a) == 2:
                return "(qmin %s %s)" % (self.expr(a[0]), self.expr(a[1]))
            if f == N("np.where") and len(a) == 3:
                return "(if %s then %s else %s)" % (self.cond(a[0]), self.expr(a[1]),
                                                     self.expr(a[2]))
            # functions[selector](x) with the table {'squared': np.square, 'absolute': np.abs}
            if f[0] == "SUB" and f[1][0] == "D" and set(f[1][1]) == FTABLE and len(f[1][1]) == 2 \
                    and f[2][0] == "P" and f[2][1] in self.f and len(a) == 1:
                return "(pwf0 %s %s)" % (f[2][1], self.expr(a[0]))
        raise Unsupported("helper expression " + show(t))

    def cond(self, c):
        h = c[0]
        if h == "P":
            _need(c[1] in self.b, "helper branches on " + c[1])
            return c[1]
        if h == "NOT":
            return "(negb %s)" % self.cond(c[1])
        if h == "CMP" and c[1] == "<":
            return "(qltb %s %s)" % (self.expr(c[2]), self.expr(c[3]))
        if h == "CMP" and c[1] == "<=":
            return "(Qle_bool %s %s)" % (self.expr(c[2]), self.expr(c[3]))
        raise Unsupported("helper condition " + show(c))


QPARAMS = ["y_true", "y_pred", "y_pred_benchmark", "asymmetric_threshold"]
BPARAMS = ["symmetric"]
FPARAMS = ["left_error_function", "right_error_function"]
OPT_OF = {"symmetric": "o_symmetric o", "asymmetric_threshold": "o_thr o",
          "left_error_function": "o_left o", "right_error_function": "o_right o"}


def emit_point(x, names):
    """the point loss of one horizon step as a Q expression over y_true / y_pred /
    y_pred_benchmark and the options of the function (bound from the `opts` record)."""
    used = set()

    def note(t):
        if t[0] == "P":
            used.add(t[1])
        return False
    contains(x, note)
    _need(used <= set(names), "point loss uses %s" % sorted(used - set(names)))
    e = Emit(QPARAMS, BPARAMS, FPARAMS).expr(x)
    for o_, f_ in OPT_OF.items():
        if o_ in used:
            e = "(let %s := %s in %s)" % (o_, f_, e)
    return e


# ------------------------------------------------------------------------------------------------
# part 2: structure of the 18 public functions

HW_MODES = [NONE, ARR("horizon_weight")]
MO_MODES = [K("raw_values"), K("uniform_average"), ARR("multioutput")]


def _is_ite(x):
    """a leftover branch that is not an element-wise switch on an option of the point loss."""
    if x[0] == "RAISE":
        return True
    if x[0] != "ITE":
        return False
    return contains(x[1], lambda t: t[0] == "ARR" or (t[0] == "P" and t[1] not in
                                                       QPARAMS + BPARAMS))


class Reader:
    def __init__(self, mod, fname, done):
        self.mod, self.fname, self.done = mod, fname, done
        self.fn = mod.funcs[fname]
        self.names, self.defaults, kwarg = signature(self.fn)
        _need(kwarg is None and self.names[:2] == ["y_true", "y_pred"], "signature of " + fname,
              self.fn)
        self.term = evaluate(mod, self.fn, {}, **_ev_kw(mod))
        self.has_sq = "square_root" in self.names

    def mode(self, hw, mo, sq=False):
        m = {"horizon_weight": hw, "multioutput": mo}
        if self.has_sq:
            m["square_root"] = K(bool(sq))
        t = strip_raise(subst(self.term, m))
        _need(not contains(t, _is_ite), "%s: the value for horizon_weight=%s, multioutput=%s still "
              "depends on a condition: %s" % (self.fname, show(hw), show(mo), show(t)[:300]))
        return t

    def sq_modes(self):
        return [False, True] if self.has_sq else [False]

    # ---- pieces
    def point(self, x):
        """(claimed base, claimed loss, Q expression) of the per-step loss term x.

        The private helpers are inlined, so x is an element-wise expression.  Which (base, loss)
        of the model it is supposed to be is only GUESSED here from its shape; Bridge.gen_point_eq
        proves the emitted expression equal to that model loss for all arguments."""
        def has(n_):
            return contains(x, lambda t: t == P(n_))
        inner, k = None, None
        if x[0] == "C" and x[1] == N("np.abs") and len(x[2]) == 1 and not x[3]:
            inner, k, wrap = x[2][0], "PAbs", lambda e: call(N("np.abs"), (e,))
        elif x[0] == "C" and x[1] == N("np.square") and len(x[2]) == 1 and not x[3]:
            inner, k, wrap = x[2][0], "PSq", lambda e: call(N("np.square"), (e,))
        elif x[0] == "B" and ((x[1] == "**" and x[3] in (K(2), K(2.0))) or
                              (x[1] == "*" and x[2] == x[3])):
            inner, k, wrap = x[2], "PSq", lambda e: call(N("np.square"), (e,))
        if inner is not None and inner in (("B", "-", YT, YP), ("B", "-", YP, YT)):
            # |.| and (.)^2 are even: y_pred - y_true and y_true - y_pred are the same loss
            return "BPlain", "(P0 %s)" % k, emit_point(wrap(("B", "-", YT, YP)), self.names)
        if inner is not None:
            b = "BRel" if has("y_pred_benchmark") else "(BPct (o_symmetric o))" \
                if has("symmetric") else None
            _need(b is not None, "%s: error term %s" % (self.fname, show(inner)))
            return b, "(P0 %s)" % k, emit_point(wrap(inner), self.names)
        _need(has("asymmetric_threshold"), "%s: point loss %s" % (self.fname, show(x)))
        return "BPlain", "(PAsym (o_thr o) (o_left o) (o_right o))", emit_point(x, self.names)

    @staticmethod
    def _axis0(t, npos):
        """the single data argument of an aggregation along axis 0."""
        a, d = t[2], kwd(t)
        if len(a) == npos + 1 and "axis" not in d:
            ax = a[npos]
        else:
            ax = d.pop("axis", None)
        _need(len(a) >= 1 and ax in (K(0),), "axis of " + show(t))
        return a[0], d

    def agg_unweighted(self, t):
        table = {N("np.mean"): "Mean", N("np.median"): "Median", N("gmean"): "GMean"}
        _need(t[0] == "C" and t[1] in table, "%s: unweighted aggregate %s" % (self.fname, show(t)))
        x, d = self._axis0(t, 1)
        _need(not d and len(t[2]) <= 2, "arguments of " + show(t))
        return x, table[t[1]]

    def agg_weighted(self, t):
        hw = ARR("horizon_weight")
        _need(t[0] == "C", "%s: weighted aggregate %s" % (self.fname, show(t)))
        if t[1] == N("np.average"):
            x, d = self._axis0(t, 1)
            _need(d == {"weights": hw} and len(t[2]) == 1, "arguments of " + show(t))
            return x, "Mean"
        if t[1] == N("_weighted_percentile"):
            # sklearn: _weighted_percentile(array, sample_weight, percentile=50), along axis 0
            a, d = list(t[2]), kwd(t)
            for n_, v in zip(["array", "sample_weight", "percentile"], a):
                _need(n_ not in d, "arguments of " + show(t))
                d[n_] = v
            _need(set(d) <= {"array", "sample_weight", "percentile"} and d.get("sample_weight") == hw
                  and d.get("percentile", K(50)) in (K(50), K(50.0)) and "array" in d,
                  "arguments of " + show(t))
            return d["array"], "Median"
        if t[1] == N("np.exp") and len(t[2]) == 1 and not t[3]:
            # exp(np.average(log x, weights=w, axis=0)): np.average applies 1-D weights along
            # `axis` (its documented meaning: the model's weighted geometric mean).  A hand-written
            # `w * np.log(x)` product, whose broadcasting is not modelled (the repaired F-C06-6),
            # is not of this form and is refused.
            a = t[2][0]
            _need(a[0] == "C" and a[1] == N("np.average"), "%s: weighted aggregate %s"
                  % (self.fname, show(t)))
            lg, d = self._axis0(a, 1)
            _need(d == {"weights": hw} and len(a[2]) == 1 and lg[0] == "C" and lg[1] == N("np.log")
                  and len(lg[2]) == 1 and not lg[3], "arguments of " + show(t))
            return lg[2][0], "GMean"
        raise Unsupported("%s: weighted aggregate %s" % (self.fname, show(t)))

    def gm_floor(self, x):
        """np.where(R == 0, EPS, R) -> R"""
        _need(x[0] == "C" and x[1] == N("np.where") and len(x[2]) == 3 and not x[3],
              "%s: geometric mean argument %s" % (self.fname, show(x)))
        c, a, b = x[2]
        _need(a == EPS_T and c in (("CMP", "==", b, K(0.0)), ("CMP", "==", b, K(0)),
                                   ("CMP", "==", K(0.0), b), ("CMP", "==", K(0), b)),
              "%s: zero replacement %s" % (self.fname, show(x)))
        return b

    # ---- the three families
    def sklearn_wrapper(self, f):
        table = {N("_mean_absolute_error"): ("(P0 PAbs)", "Mean", False),
                 N("_mean_squared_error"): ("(P0 PSq)", "Mean", True),
                 N("_median_absolute_error"): ("(P0 PAbs)", "Median", False)}
        pw, a, rootable = table[f]
        _need(self.has_sq == rootable, "%s: square_root option" % self.fname)
        for hw in HW_MODES:
            for mo in MO_MODES:
                for sq in self.sq_modes():
                    t = self.mode(hw, mo, sq)
                    _need(t[0] == "C" and t[1] == f, "%s: %s" % (self.fname, show(t)))
                    d = kwd(t)
                    for n_, v in zip(["y_true", "y_pred"], t[2]):
                        _need(n_ not in d, "arguments of " + show(t))
                        d[n_] = v
                    want = {"y_true": YT, "y_pred": YP}
                    _need(len(t[2]) <= 2 and {k: d.pop(k, None) for k in want} == want
                          and d.pop("sample_weight", NONE) == hw
                          and d.pop("multioutput", K("uniform_average")) == mo,
                          "arguments of " + show(t))
                    if rootable:        # sklearn: squared=True -> MSE, False -> RMSE
                        _need(d.pop("squared", TRUE) == K(not sq), "`squared` in " + show(t))
                    _need(not d, "arguments of " + show(t))
        return {"fam": "FSimple BPlain %s %s" % (pw, a),
                "rooted": "(o_square_root o)" if rootable else "false",
                "simple": ("BPlain", pw, a)}

    def simple(self):
        t0 = self.mode(NONE, MO_MODES[0])
        if t0[0] == "C" and t0[1] in (N("_mean_absolute_error"), N("_mean_squared_error"),
                                      N("_median_absolute_error")):
            return self.sklearn_wrapper(t0[1])
        raw = {}
        for hw in HW_MODES:
            for sq in self.sq_modes():
                r = self.mode(hw, MO_MODES[0], sq)
                _need(self.mode(hw, MO_MODES[1], sq) == call(N("np.mean"), (r,)),
                      "%s: uniform_average is not the mean of the raw values" % self.fname)
                _need(self.mode(hw, MO_MODES[2], sq) ==
                      call(N("np.average"), (r,), [("weights", MO_MODES[2])]),
                      "%s: multioutput weights are not np.average(raw values, weights=)" % self.fname)
                raw[(hw, sq)] = r
            if self.has_sq:
                _need(raw[(hw, True)] == call(N("np.sqrt"), (raw[(hw, False)],)),
                      "%s: square_root=True is not the square root of the per-output values"
                      % self.fname)
        x0, a0 = self.agg_unweighted(raw[(HW_MODES[0], False)])
        x1, a1 = self.agg_weighted(raw[(HW_MODES[1], False)])
        _need(a0 == a1, "%s: weighted and unweighted aggregates differ (%s / %s)"
              % (self.fname, a0, a1))
        if a0 == "GMean":
            x0, x1 = self.gm_floor(x0), self.gm_floor(x1)
        _need(x0 == x1, "%s: weighted and unweighted branches aggregate different losses: %s / %s"
              % (self.fname, show(x0), show(x1)))
        b, pw, e = self.point(x0)
        return {"fam": "FSimple %s %s %s" % (b, pw, a0), "point": e,
                "rooted": "(o_square_root o)" if self.has_sq else "false", "simple": (b, pw, a0)}

    @staticmethod
    def _ratio(t):
        """num / np.maximum(den, EPS)"""
        _need(t[0] == "B" and t[1] == "/", "ratio " + show(t))
        m = t[3]
        _need(m[0] == "C" and m[1] == N("np.maximum") and len(m[2]) == 2 and not m[3]
              and EPS_T in m[2], "clamped denominator " + show(m))
        den = m[2][0] if m[2][1] == EPS_T else m[2][1]
        return t[2], den

    def scaled(self):
        _need("y_train" in self.names and "sp" in self.names, "signature of " + self.fname, self.fn)
        sp = P("sp")
        tail = ("SUB", YTR, ("SL", sp, NONE, NONE))
        lagged = ("SUB", YTR, ("SL", NONE, ("U", "-", sp), NONE))
        inner = None
        for hw in HW_MODES:
            for mo in MO_MODES:
                for sq in self.sq_modes():
                    t = self.mode(hw, mo, sq)
                    if sq:
                        _need(t[0] == "C" and t[1] == N("np.sqrt") and len(t[2]) == 1 and not t[3],
                              "%s: square_root=True gives %s" % (self.fname, show(t)))
                        t = t[2][0]
                    num, den = self._ratio(t)
                    for x in (num, den):
                        _need(x[0] == "C" and x[1][0] == "N" and x[1][1] in self.done
                              and not x[2], "%s: inner metric %s" % (self.fname, show(x)))
                    f = num[1][1]
                    _need(den[1][1] == f and (inner in (None, f)), "%s: inner metrics differ"
                          % self.fname)
                    inner = f
                    dn, dd = kwd(num), kwd(den)
                    if "square_root" in dn:
                        _need(dn.pop("square_root") == FALSE and dd.pop("square_root") == FALSE,
                              "%s: inner metric called with a square root" % self.fname)
                    _need(dn == {"y_true": YT, "y_pred": YP, "horizon_weight": hw,
                                 "multioutput": mo}, "forecast error call " + show(num))
                    _need(dd == {"y_true": tail, "y_pred": lagged, "horizon_weight": NONE,
                                 "multioutput": mo}, "naive error call " + show(den))
        s = self.done[inner].get("simple")
        _need(s and s[0] == "BPlain" and s[1] in ("(P0 PAbs)", "(P0 PSq)"),
              "%s: inner metric %s" % (self.fname, inner))
        return {"fam": "FScaled %s %s (o_sp o)" % (s[1][4:-1], s[2]),
                "rooted": "(o_square_root o)" if self.has_sq else "false"}

    def relloss(self):
        _need("relative_loss_function" in self.names and "y_pred_benchmark" in self.names
              and not self.has_sq, "signature of relative_loss", self.fn)
        lf = P("relative_loss_function")
        for hw in HW_MODES:
            for mo in MO_MODES:
                num, den = self._ratio(self.mode(hw, mo))
                for x, pred in ((num, YP), (den, YB)):
                    _need(x[0] == "C" and x[1] == lf, "relative_loss: %s" % show(x))
                    d = kwd(x)
                    for n_, v in zip(["y_true", "y_pred", "horizon_weight", "multioutput"], x[2]):
                        _need(n_ not in d, "arguments of " + show(x))
                        d[n_] = v
                    _need(d == {"y_true": YT, "y_pred": pred, "horizon_weight": hw,
                                "multioutput": mo}, "arguments of " + show(x))
        return {"fam": "FRelLoss (o_rl_k o) (o_rl_a o)", "rooted": "false"}

    def read(self):
        if "y_train" in self.names:
            return self.scaled()
        if self.fname == "relative_loss":
            return self.relloss()
        return self.simple()


def _default_opts(mod):
    """gen_defaults: the option defaults of each function as an `opts` record."""
    rows = []
    for fname, cn in sorted(COQ_NAME.items(), key=lambda kv: ORDER.index(kv[1])):
        fn = mod.funcs[fname]
        _, d, _ = signature(fn)

        def const(nm):
            if nm not in d:
                return None
            _need(d[nm] is not None, "%s of %s has no default" % (nm, fname), fn)
            return d[nm]
        sym, rt, sp, thr = const("symmetric"), const("square_root"), const("sp"), \
            const("asymmetric_threshold")
        lf, rf, rl = const("left_error_function"), const("right_error_function"), \
            const("relative_loss_function")

        def cb(x, dflt):
            if x is None:
                return dflt
            _need(isinstance(x, ast.Constant) and isinstance(x.value, bool), "bool default", x)
            return "true" if x.value else "false"

        def cpw(x, dflt):
            if x is None:
                return dflt
            _need(isinstance(x, ast.Constant) and x.value in ("squared", "absolute"),
                  "loss default", x)
            return "PSq" if x.value == "squared" else "PAbs"
        if sp is not None:
            _need(isinstance(sp, ast.Constant) and isinstance(sp.value, int) and sp.value >= 1,
                  "sp default", sp)
        if thr is not None:
            _need(isinstance(thr, ast.Constant) and isinstance(thr.value, (int, float))
                  and float(thr.value).is_integer(), "threshold", thr)
        rlk, rla = "PAbs", "Mean"
        if rl is not None:
            _need(isinstance(rl, ast.Name) and rl.id in RL_FUNCS, "relative_loss_function default",
                  rl)
            rlk = "PAbs" if "absolute" in rl.id else "PSq"
            rla = "Median" if rl.id.startswith("median") else "Mean"
        rows.append("  | %s => mkopts %s %s %d%%nat (%d) %s %s %s %s" % (
            cn, cb(sym, "true"), cb(rt, "false"), sp.value if sp is not None else 1,
            int(thr.value) if thr is not None else 0, cpw(lf, "PSq"), cpw(rf, "PAbs"), rlk, rla))
    return rows


def translate(repo):
    mod = _functions_module(repo)
    done = {}
    # simple functions first: the scaled ones refer to them
    order = [f for f in COQ_NAME if "y_train" not in signature(mod.funcs[f])[0]] + \
            [f for f in COQ_NAME if "y_train" in signature(mod.funcs[f])[0]]
    for fname in order:
        done[fname] = Reader(mod, fname, done).read()
    rows = []
    for cn in ORDER:
        fname = [f for f, c in COQ_NAME.items() if c == cn][0]
        rows.append("  | %s => mkmetric (%s) %s" % (cn, done[fname]["fam"], done[fname]["rooted"]))
    text = ["(* GENERATED by translator/metricq.py from %s - do not edit *)" % SRC,
            "From Coq Require Import QArith Qabs List Bool ZArith String.",
            "Require Import SkV.C06.Model.",
            "Import ListNotations.",
            "Open Scope Q_scope.",
            ""]
    text += ["(* the loss of one horizon step, as each function that computes it itself does after",
             "   inlining of all private helpers; None: the function delegates (sklearn metric, or the",
             "   inner metric of a scaled error / relative loss) *)",
             "Definition gen_point (n : mname) (o : opts) (y_true y_pred y_pred_benchmark : Q)",
             "  : option Q :=", "  match n with"]
    for cn in ORDER:
        fname = [f for f, c in COQ_NAME.items() if c == cn][0]
        e = done[fname].get("point")
        text.append("  | %s => %s" % (cn, "None" if e is None else "Some " + e))
    text += ["  end."]
    text += ["", "Definition gen_struct (n : mname) (o : opts) : metric :=", "  match n with"]
    text += rows + ["  end.", ""]
    text += ["Definition gen_defaults (n : mname) : opts :=", "  match n with"]
    text += _default_opts(mod) + ["  end.", ""]
    text += ["(* which python function each row above was read from *)",
             "Definition gen_fname (n : mname) : string :=", "  match n with"]
    text += ['  | %s => "%s"' % (cn, [f for f, c in COQ_NAME.items() if c == cn][0]) for cn in ORDER]
    text += ["  end.", ""]
    return {"C06/Gen.v": "\n".join(text)}


# ------------------------------------------------------------------------------------------------
# part 3: the metric classes as wrappers (facts for coq/C06/Wrap.v)

CLS_SRC = "sktime/performance_metrics/forecasting/_classes.py"
FUNC_MODULE = "sktime.performance_metrics.forecasting._functions"
PUBLIC_ATTRS = ("name", "greater_is_better")
SERIES = ("y_train", "y_pred_benchmark")
NOT_OPTIONS = ("y_true", "y_pred", "horizon_weight", "multioutput") + SERIES
RL_FUNCS = ("mean_absolute_error", "mean_squared_error", "median_absolute_error",
            "median_squared_error")


def func_sigs(repo):
    mod = _load(repo, SRC)
    sigs = {}
    for name in COQ_NAME:
        _need(name in mod.funcs, "function %s missing" % name)
        names, d, _ = signature(mod.funcs[name])
        sigs[name] = {"opts": [p for p in names if p not in NOT_OPTIONS],
                      "series": [p for p in names if p in SERIES and d[p] is None]}
    return sigs


def _ctor_default(cls, p, d, node):
    """default of a constructor parameter as a Coq `oval`."""
    _need(d is not None, "%s(%s) has no default" % (cls, p), node)
    if isinstance(d, ast.Constant):
        v = d.value
        if isinstance(v, bool):
            return "VBool %s" % ("true" if v else "false")
        if isinstance(v, int) and v >= 0 and p == "sp":
            return "VNat %d" % v
        if isinstance(v, (int, float)):
            a, b = float(v).as_integer_ratio()
            return "VQ (%s # %d)" % ("(%d)" % a if a < 0 else "%d" % a, b)
        if v in ("squared", "absolute"):
            return "VPw %s" % ("PSq" if v == "squared" else "PAbs")
    if isinstance(d, ast.Name) and d.id in RL_FUNCS:
        return "VLoss %s %s" % ("PAbs" if "absolute" in d.id else "PSq",
                                "Median" if d.id.startswith("median") else "Mean")
    raise Unsupported("default of %s(%s): %s" % (cls, p, ast.unparse(d)))


def class_facts(repo):
    """wrapper facts, read from what the constructor STORES (the whole super().__init__ chain is
    executed symbolically along the MRO) and from the term __call__ (found along the MRO, helper
    methods inlined) computes."""
    mod = _load(repo, CLS_SRC)
    sigs = func_sigs(repo)
    out = {}
    for c in [c for c in mod.classes.values() if not c.name.startswith("_")]:
        order = mro(mod, c)
        _need(set(external_bases(mod, order)) <= {"BaseEstimator"}, "bases of " + c.name, c)
        init = next((n for k in order for n in k.body
                     if isinstance(n, ast.FunctionDef) and n.name == "__init__"), None)
        _need(init is not None, "no constructor for " + c.name, c)
        ctor, ctor_d, kwarg = signature(init)
        _need(ctor[0] == "self" and kwarg is None, "constructor of " + c.name, c)
        ctor = ctor[1:]
        ctor_defaults = [(p_, _ctor_default(c.name, p_, ctor_d[p_], init)) for p_ in ctor]
        store = construct(mod, c, ctor)
        # the attribute holding the wrapped function, whatever it is called
        fattrs = [a for a, v in store.items() if v[0] == "N" and v[1] in sigs
                  and mod.imports.get(v[1]) == (FUNC_MODULE, v[1])]
        _need(len(fattrs) == 1, "wrapped function of %s: attributes %s" % (c.name, fattrs), c)
        fattr, fv = fattrs[0], store[fattrs[0]]
        attrs = {}
        for a, v in store.items():
            if a == fattr or a in PUBLIC_ATTRS:
                continue
            attrs[a] = ("arg", v[1]) if (v[0] == "P" and v[1] in ctor) else ("fixed",)
        params, defaults, kw, t = method_term(mod, c, "__call__")
        _need(params == ["y_true", "y_pred"] and not any(defaults[p_] is not None for p_ in params),
              "signature of %s.__call__" % c.name, c)
        _need(t[0] == "C" and t[1] == ("ATTR", P("self"), fattr) and t[2] == (YT, YP),
              "%s.__call__ computes %s" % (c.name, show(t)), c)
        fw, forwards_kwargs = [], False
        for k, v in t[3]:
            if k == "**":
                _need(kw is not None and v == P("**"), "** in %s.__call__" % c.name, c)
                forwards_kwargs = True
                continue
            _need(v[0] == "ATTR" and v[1] == P("self"), "%s.__call__ passes %s=%s"
                  % (c.name, k, show(v)), c)
            fw.append((k, v[2]))
        _need((kw is None) == (not forwards_kwargs),
              "%s.__call__ accepts **kwargs but does not forward them" % c.name, c)
        out[c.name] = {"func": fv[1], "ctor": ctor, "attrs": attrs, "call_kwargs": forwards_kwargs,
                       "forwards": fw, "ctor_defaults": ctor_defaults}
    missing = [f for f in sigs if f not in {v["func"] for v in out.values()}]
    _need(not missing, "functions without a class: %s" % missing)
    return out, sigs


def _cs(s):
    return '"%s"' % s


def _clist(xs):
    return "[" + "; ".join(xs) + "]"


def coq_wrapper(name, w):
    attrs = _clist(["(%s, %s)" % (_cs(a), "FromArg " + _cs(v[1]) if v[0] == "arg" else "Fixed")
                    for a, v in sorted(w["attrs"].items())])
    fw = _clist(["(%s, %s)" % (_cs(k), _cs(a)) for k, a in w["forwards"]])
    return "(mkwrapper %s %s %s %s %s %s)" % (
        _cs(name), _cs(w["func"]), _clist([_cs(p) for p in w["ctor"]]), attrs,
        "true" if w["call_kwargs"] else "false", fw)


def coq_fsig(fname, s):
    return "(mkfsig %s %s %s)" % (_cs(fname), _clist([_cs(p) for p in s["opts"]]),
                                  _clist([_cs(p) for p in s["series"]]))


def translate_classes(repo):
    facts, sigs = class_facts(repo)
    rows = ["  (%s,\n   %s)" % (coq_wrapper(n, w), coq_fsig(w["func"], sigs[w["func"]]))
            for n, w in sorted(facts.items())]
    text = ["(* GENERATED by translator/metricq.py from %s - do not edit *)" % CLS_SRC,
            "From Coq Require Import QArith String List Bool.",
            "Require Import SkV.C06.Model SkV.C06.Wrap SkV.C06.WrapSem.",
            "Import ListNotations.",
            "Open Scope string_scope.",
            "",
            "Definition gen_wrappers : list (wrapper * fsig) := [",
            ";\n".join(rows), "].", "",
            "(* class, wrapped function, defaults of the constructor parameters *)",
            "Definition gen_ctor_defaults : list (string * string * list (string * oval)) := [",
            ";\n".join("  (%s, %s, %s)" % (_cs(n), _cs(w["func"]), _clist(
                ["(%s, %s)" % (_cs(p_), v) for p_, v in w["ctor_defaults"]]))
                for n, w in sorted(facts.items())),
            "].", ""]
    return {"C06/GenWrap.v": "\n".join(text)}


if __name__ == "__main__":
    import sys
    r = sys.argv[1] if len(sys.argv) > 1 else "/repo"
    print(translate(r)["C06/Gen.v"])
    print(translate_classes(r)["C06/GenWrap.v"])
