"""Symbolic evaluator for the numpy-level Python of sktime/performance_metrics/forecasting (C06).

Functions and methods are EXECUTED on symbolic arguments; the result is a term (nested tuples).
The readers in metricq.py then look at the TERM a function computes, not at the text of its
statements, so the reading is invariant under

  * helper extraction: a call to a function of the same module (or `self._helper(...)`, or
    `super().__init__(...)`) is inlined with argument binding;
  * guard clauses / early returns vs if-else nesting, conditional expressions vs if statements,
    `a and b` vs nested ifs (statements are run in continuation style: `if c: A` followed by R is
    ite(c, A;R, R));
  * renamed locals, temporaries introduced or inlined, a repeated sub-expression computed once,
    reordering of statements without data dependence (the environment is a data flow, names vanish);
  * np.divide(a, b) vs a / b, np.average(x, weights=None) vs np.mean(x), keyword vs positional
    arguments of functions whose signature is known.

Fail closed: every statement and expression form that is not understood raises Unsupported.  The
only statements executed for their effect alone are calls of the validators in VALIDATORS (they
raise or do nothing) and `raise`; the value of a function is read "when it returns"
(strip_raise).

Modelled semantics of shape-only primitives (the trusted reading, as before): np.asarray(x),
np.expand_dims(x, 1), check_series(x, enforce_univariate=False), x.astype(np.float64) are x;
`_, a, b, m = _check_reg_targets(a0, b0, m0)` binds a, b, m to a0, b0, m0 (reshaped to
(horizon, outputs), multioutput validated).
"""
import ast
import os


class Unsupported(Exception):
    pass


def _need(cond, what, node=None):
    if not cond:
        where = " at line %s" % getattr(node, "lineno", "?") if node is not None else ""
        raise Unsupported(what + where)


# ------------------------------------------------------------------------------------------------
# terms


def K(v):
    """constant; the type is part of the term (True is not 1)."""
    return ("K", type(v).__name__, v)


def P(name):
    return ("P", name)


def N(name):
    return ("N", name)


def ARR(name):
    """a parameter known to hold an array (not None, not a string)."""
    return ("ARR", name)


RAISE = ("RAISE",)
TRUE, FALSE, NONE = K(True), K(False), K(None)


def is_k(t):
    return isinstance(t, tuple) and t and t[0] == "K"


def kval(t):
    return t[2]


def call(f, args=(), kw=()):
    return mk(("C", f, tuple(args), tuple(sorted(kw))))


def kwd(t):
    return dict(t[3])


VALIDATORS = ("check_consistent_length", "check_time_index")
IDENTITY_1 = ("np.asarray",)


def mk(t):
    """smart constructor: local simplification of a freshly built node."""
    h = t[0]
    if h == "ITE":
        _, c, a, b = t
        if c == TRUE:
            return a
        if c == FALSE:
            return b
        if a == b:
            return a
        if c[0] == "NOT":           # normal form: no negated switch
            return mk(("ITE", c[1], b, a))
        return t
    if h == "NOT":
        x = t[1]
        if x == TRUE:
            return FALSE
        if x == FALSE:
            return TRUE
        if x[0] == "NOT":
            return x[1]
        return t
    if h == "AND":
        _, a, b = t
        if a == FALSE or b == FALSE:
            return FALSE
        if a == TRUE:
            return b
        if b == TRUE:
            return a
        return t
    if h == "OR":
        _, a, b = t
        if a == TRUE or b == TRUE:
            return TRUE
        if a == FALSE:
            return b
        if b == FALSE:
            return a
        return t
    if h == "IS":
        _, a, b = t
        if is_k(a) and is_k(b):
            return TRUE if (a == b) else FALSE
        if b == NONE and a[0] in ("ARR", "T", "D", "B", "N"):
            return FALSE
        return t
    if h == "CMP":
        _, op, a, b = t
        if op == "==" and is_k(a) and is_k(b):
            return TRUE if kval(a) == kval(b) else FALSE
        # an array compared with a string is NOT folded: numpy compares element-wise and the truth
        # value of the result is an error; such a test must be guarded (isinstance) to be pruned
        return t
    if h == "U":
        _, op, x = t
        if op == "-" and is_k(x) and isinstance(kval(x), (int, float)) \
                and not isinstance(kval(x), bool):
            return K(-kval(x))
        return t
    if h == "SUB":
        _, v, i = t
        if v[0] == "D" and is_k(i):
            for k, x in v[1]:
                if k == i:
                    return x
            raise Unsupported("key %r not in dict literal" % (kval(i),))
        if v[0] == "T" and is_k(i) and isinstance(kval(i), int):
            return v[1][kval(i)]
        if v[0] == "ITE":
            return mk(("ITE", v[1], mk(("SUB", v[2], i)), mk(("SUB", v[3], i))))
        return t
    if h == "C":
        _, f, args, kw = t
        d = dict(kw)
        if f == N("isinstance") and len(args) == 2 and not kw:
            x, ty = args
            tys = ty[1] if ty[0] == "T" else (ty,)
            if is_k(x) and all(y[0] == "N" for y in tys):
                names = {"str": str, "int": int, "float": float, "bool": bool}
                if all(y[1] in names for y in tys):
                    return TRUE if isinstance(kval(x), tuple(names[y[1]] for y in tys)) else FALSE
            if x[0] == "ARR" and all(y in (N("str"),) for y in tys):
                return FALSE
            return t
        if f[0] == "N" and f[1] in IDENTITY_1 and len(args) == 1 and not kw:
            return args[0]
        # x.astype(np.float64): storage only - every number the metrics are defined on (integers
        # below 2^53, single precision, booleans) is kept exactly.  Any other target type is not
        # the identity (it may truncate) and stays an opaque call.
        if f[0] == "ATTR" and f[2] == "astype" and len(args) == 1 and not kw \
                and args[0] in (N("np.float64"), N("float")):
            return f[1]
        if f == N("np.expand_dims") and len(args) == 2 and not kw and args[1] == K(1):
            return args[0]
        if f == N("check_series") and len(args) == 1 and d == {"enforce_univariate": FALSE}:
            return args[0]
        if f == N("dict") and not args and "**" not in d:
            return ("D", tuple((K(k), v) for k, v in kw))
        if f == N("np.divide") and len(args) == 2 and not kw:
            return ("B", "/", args[0], args[1])
        if f == N("np.average") and len(args) == 1 and d.get("weights", NONE) == NONE:
            d.pop("weights", None)
            return ("C", N("np.mean"), args, tuple(sorted(d.items())))
        return t
    return t


def ite(c, a, b):
    return mk(("ITE", c, a, b))


def neg(x):
    return mk(("NOT", x))


def children_map(t, f):
    """rebuild t with f applied to its sub-terms (through the smart constructor)."""
    h = t[0]
    if h in ("K", "P", "N", "ARR", "RAISE"):
        return t
    if h == "C":
        return mk(("C", f(t[1]), tuple(f(a) for a in t[2]), tuple((k, f(v)) for k, v in t[3])))
    if h == "T":
        return ("T", tuple(f(a) for a in t[1]))
    if h == "D":
        return ("D", tuple((f(k), f(v)) for k, v in t[1]))
    if h in ("B", "CMP", "U"):
        return mk((h, t[1]) + tuple(f(a) for a in t[2:]))
    if h == "ATTR":
        return ("ATTR", f(t[1]), t[2])
    if h == "ELT":
        return elt(f(t[1]), t[2], t[3])
    if h == "SL":
        return ("SL",) + tuple(f(a) for a in t[1:])
    if h == "KW":
        return ("KW", tuple((k, f(v)) for k, v in t[1]), None if t[2] is None else f(t[2]))
    # ITE NOT AND OR IS SUB
    return mk((h,) + tuple(f(a) for a in t[1:]))


def subst(t, m):
    """replace parameters by terms and re-simplify."""
    if t[0] == "P" and t[1] in m:
        return m[t[1]]
    return children_map(t, lambda x: subst(x, m))


def guard_ok(c):
    """conditions under which a function may refuse its input: type / shape / index facts only
    (isinstance, .ndim, .shape[..], .index.max() / .min(), `is None`), never the data."""
    h = c[0]
    if h in ("K", "P", "ARR", "N"):
        return True
    if h == "B":
        return False
    if h == "C":
        f = c[1]
        ok = f == N("isinstance") or (f[0] == "ATTR" and f[2] in ("max", "min")
                                      and f[1][0] == "ATTR" and f[1][2] == "index")
        return ok and all(guard_ok(x) for x in _subterms(c))
    if h == "ATTR":
        return c[2] in ("ndim", "shape", "index", "max", "min") and guard_ok(c[1])
    return all(guard_ok(x) for x in _subterms(c))


def strip_raise(t):
    """the value of the term when no exception is raised; a refusal may only depend on type /
    shape / index facts of the arguments (guard_ok)."""
    t = children_map(t, strip_raise)
    if t[0] == "ITE":
        if t[1] == RAISE:
            return RAISE
        if RAISE in (t[2], t[3]):
            _need(guard_ok(t[1]), "input refused under a data-dependent condition: " + show(t[1]))
            return t[3] if t[2] == RAISE else t[2]
        return t
    # evaluation is strict: an operation on a raising operand raises
    if any(x == RAISE for x in _subterms(t)):
        return RAISE
    return t


def contains(t, pred):
    if pred(t):
        return True
    return any(contains(x, pred) for x in _subterms(t))


def _subterms(t):
    h = t[0]
    if h == "C":
        return [t[1]] + list(t[2]) + [v for _, v in t[3]]
    if h == "T":
        return list(t[1])
    if h == "D":
        return [x for kv in t[1] for x in kv]
    if h in ("B", "CMP", "U"):
        return list(t[2:])
    if h == "ATTR":
        return [t[1]]
    if h == "ELT":
        return [t[1]]
    if h in ("K", "P", "N", "ARR", "RAISE"):
        return []
    if h == "KW":
        return [v for _, v in t[1]] + ([] if t[2] is None else [t[2]])
    return [x for x in t[1:] if isinstance(x, tuple)]


def elt(v, i, n):
    """i-th of n values of a tuple-valued term."""
    if v[0] == "T":
        _need(len(v[1]) == n, "unpacking %d values into %d targets" % (len(v[1]), n))
        return v[1][i]
    if v[0] == "ITE":
        return ite(v[1], elt(v[2], i, n), elt(v[3], i, n))
    if v == RAISE:
        return RAISE
    if v[0] == "C" and v[1] == N("_check_reg_targets"):
        _need(len(v[2]) == 3 and not v[3] and n == 4, "_check_reg_targets call")
        return ("ELT", v, 0, n) if i == 0 else v[2][i - 1]
    return ("ELT", v, i, n)


def show(t, depth=0):
    """compact text of a term for error messages."""
    h = t[0]
    if h == "K":
        return repr(t[2])
    if h in ("P", "N", "ARR"):
        return t[1]
    if h == "C":
        a = [show(x) for x in t[2]] + ["%s=%s" % (k, show(v)) for k, v in t[3]]
        return "%s(%s)" % (show(t[1]), ", ".join(a))
    if h == "B":
        return "(%s %s %s)" % (show(t[2]), t[1], show(t[3]))
    if h == "ITE":
        return "(%s if %s else %s)" % (show(t[2]), show(t[1]), show(t[3]))
    if h == "ATTR":
        return "%s.%s" % (show(t[1]), t[2])
    return "%s[%s]" % (h, ", ".join(show(x) if isinstance(x, tuple) and x and isinstance(x[0], str)
                                    else repr(x) for x in t[1:]))


# ------------------------------------------------------------------------------------------------
# the evaluator

# imported names the readers know, by what they ARE (module, original name), whatever local alias
# the module gives them
CANON = {
    ("scipy.stats", "gmean"): "gmean",
    ("sklearn.utils.stats", "_weighted_percentile"): "_weighted_percentile",
    ("sklearn.utils.validation", "check_consistent_length"): "check_consistent_length",
    ("sklearn.utils", "check_consistent_length"): "check_consistent_length",
    ("sklearn.metrics._regression", "_check_reg_targets"): "_check_reg_targets",
    ("sklearn.metrics", "mean_absolute_error"): "_mean_absolute_error",
    ("sklearn.metrics", "mean_squared_error"): "_mean_squared_error",
    ("sklearn.metrics", "median_absolute_error"): "_median_absolute_error",
    ("sktime.utils.validation.series", "check_series"): "check_series",
    ("sktime.utils.validation.series", "check_time_index"): "check_time_index",
}
MODALIAS = {"numpy": "np", "pandas": "pd"}
BUILTINS = ("isinstance", "str", "int", "float", "bool", "super", "len", "dict", "tuple")
BINOPS = {ast.Add: "+", ast.Sub: "-", ast.Mult: "*", ast.Div: "/", ast.Pow: "**"}
MAX_DEPTH = 8


class Module:
    """module-level facts: functions, classes, imported names, constants."""

    CACHE = {}

    @classmethod
    def load(cls, repo, rel):
        key = (os.path.realpath(repo), rel)
        if key not in cls.CACHE:
            with open(os.path.join(repo, rel)) as f:
                cls.CACHE[key] = cls(ast.parse(f.read()), repo, rel)
        return cls.CACHE[key]

    def __init__(self, tree, repo=None, rel=None):
        self.tree, self.repo, self.rel = tree, repo, rel
        self.funcs, self.classes, self.imports, self.consts = {}, {}, {}, {}
        self.symbols = set()            # constants kept as symbols N(name) (none: by value)
        bound = {}
        for n in tree.body:
            if isinstance(n, ast.FunctionDef):
                self.funcs[n.name] = n
                bound[n.name] = bound.get(n.name, 0) + 1
            elif isinstance(n, ast.ClassDef):
                self.classes[n.name] = n
                bound[n.name] = bound.get(n.name, 0) + 1
            elif isinstance(n, ast.Import):
                for a in n.names:
                    self.imports[a.asname or a.name] = (a.name, None)
                    bound[a.asname or a.name] = bound.get(a.asname or a.name, 0) + 1
            elif isinstance(n, ast.ImportFrom):
                modname = n.module
                if n.level:         # relative import: make it absolute
                    _need(rel is not None, "relative import", n)
                    pkg = rel[:-3].split("/")[:-n.level]
                    modname = ".".join(pkg + ([n.module] if n.module else []))
                for a in n.names:
                    self.imports[a.asname or a.name] = (modname, a.name)
                    bound[a.asname or a.name] = bound.get(a.asname or a.name, 0) + 1
            elif isinstance(n, ast.Assign):
                for t in n.targets:
                    if isinstance(t, ast.Name):
                        self.consts[t.id] = n.value
                        bound[t.id] = bound.get(t.id, 0) + 1
        dup = sorted(k for k, v in bound.items() if v > 1)
        _need(not dup, "names bound more than once at module level: %s" % dup)

    def resolve(self, name, depth=0):
        """the (module, FunctionDef) a module-level name denotes, following imports from modules of
        the same repository; None if it is not such a function."""
        if name in self.funcs:
            return self, self.funcs[name]
        imp = self.imports.get(name)
        if imp is None or imp[1] is None or self.repo is None or depth > 4 or imp in CANON:
            return None
        # only helpers that live in the same sub-package are part of the translated code
        pkg = ".".join(self.rel[:-3].split("/")[:2])
        if not (imp[0] == pkg or imp[0].startswith(pkg + ".")):
            return None
        base = imp[0].replace(".", "/")
        for rel in (base + ".py", base + "/__init__.py"):
            if os.path.exists(os.path.join(self.repo, rel)):
                return Module.load(self.repo, rel).resolve(imp[1], depth + 1)
        return None

    def require_imports(self, want):
        """want: local name -> (module, original name or None)."""
        bad = {k: (self.imports.get(k), v) for k, v in want.items() if self.imports.get(k) != v}
        _need(not bad, "module-level imports changed: %s" % bad)


def signature(fn):
    a = fn.args
    _need(not (a.vararg or a.kwonlyargs or a.posonlyargs), "signature of " + fn.name, fn)
    names = [x.arg for x in a.args]
    defaults = [None] * (len(names) - len(a.defaults)) + list(a.defaults)
    return names, dict(zip(names, defaults)), (a.kwarg.arg if a.kwarg else None)


def strip_doc(body):
    body = list(body)
    if body and isinstance(body[0], ast.Expr) and isinstance(body[0].value, ast.Constant) \
            and isinstance(body[0].value.value, str):
        body = body[1:]
    return body


class Ev:
    def __init__(self, module, opaque=(), cls=None, mro=None):
        self.m = module
        # every function of the repository reached by a call is inlined (names and places of
        # private helpers are not semantic), except the ones named here: they stay calls, with
        # their arguments normalised to keywords through the signature
        self.opaque = set(opaque)
        self.cls = cls                  # class whose method is being evaluated (for self.* / super)
        self.mro = mro or []
        self.depth = 0
        self.resolving = set()          # module-level constants being evaluated
        self.cls_owner = None           # class whose method body is running (for super())
        self.store = None               # attribute store of `self` (constructors only)

    # ---- expressions
    def name(self, e, env):
        if e.id in env:
            return env[e.id]
        if e.id in self.m.funcs or e.id in self.m.classes:
            return N(e.id)
        if e.id in self.m.imports:
            mod_, orig = self.m.imports[e.id]
            if orig is None:
                return N(MODALIAS.get(mod_, mod_))
            if (mod_, orig) in CANON:
                return N(CANON[(mod_, orig)])
            if e.id == orig and orig not in CANON.values():
                return N(orig)
            return N("%s:%s" % (mod_, orig))
        if e.id in BUILTINS:
            return N(e.id)
        if e.id in self.m.consts:
            # a module-level constant is its value (names are not semantic); constants the
            # readers know by name (EPS: its definition is checked separately) stay symbols
            if e.id in self.m.symbols:
                return N(e.id)
            _need(e.id not in self.resolving, "circular module-level constant " + e.id, e)
            self.resolving.add(e.id)
            try:
                return self.expr(self.m.consts[e.id], {})
            finally:
                self.resolving.discard(e.id)
        raise Unsupported("unbound name %s at line %d" % (e.id, e.lineno))

    def expr(self, e, env):
        if isinstance(e, ast.Constant):
            _need(isinstance(e.value, (int, float, str, bool, type(None))), "constant", e)
            return K(e.value)
        if isinstance(e, ast.Name):
            return self.name(e, env)
        if isinstance(e, ast.Attribute):
            if isinstance(e.value, ast.Name) and e.value.id not in env \
                    and e.value.id in self.m.imports and self.m.imports[e.value.id][1] is None:
                mod_ = self.m.imports[e.value.id][0]
                return N("%s.%s" % (MODALIAS.get(mod_, mod_), e.attr))
            v = self.expr(e.value, env)
            if v == P("self") and self.store is not None and e.attr in self.store:
                return self.store[e.attr]
            return ("ATTR", v, e.attr)
        if isinstance(e, ast.BinOp):
            _need(type(e.op) in BINOPS, "operator " + ast.unparse(e), e)
            return ("B", BINOPS[type(e.op)], self.expr(e.left, env), self.expr(e.right, env))
        if isinstance(e, ast.UnaryOp):
            if isinstance(e.op, ast.USub):
                return mk(("U", "-", self.expr(e.operand, env)))
            if isinstance(e.op, ast.Not):
                return neg(self.expr(e.operand, env))
            raise Unsupported("operator %s at line %d" % (ast.unparse(e), e.lineno))
        if isinstance(e, ast.BoolOp):
            vals = [self.expr(v, env) for v in e.values]
            h = "AND" if isinstance(e.op, ast.And) else "OR"
            out = vals[0]
            for v in vals[1:]:
                out = mk((h, out, v))
            return out
        if isinstance(e, ast.Compare):
            left = self.expr(e.left, env)
            out = TRUE
            for op, c in zip(e.ops, e.comparators):
                right = self.expr(c, env)
                out = mk(("AND", out, self.compare(op, left, right, e)))
                left = right
            return out
        if isinstance(e, ast.IfExp):
            return ite(self.expr(e.test, env), self.expr(e.body, env), self.expr(e.orelse, env))
        if isinstance(e, ast.Tuple):
            return ("T", tuple(self.expr(x, env) for x in e.elts))
        if isinstance(e, ast.Dict):
            _need(all(k is not None for k in e.keys), "** in dict literal", e)
            return ("D", tuple((self.expr(k, env), self.expr(v, env))
                               for k, v in zip(e.keys, e.values)))
        if isinstance(e, ast.Subscript):
            v = self.expr(e.value, env)
            s = e.slice
            if isinstance(s, ast.Slice):
                i = ("SL",) + tuple(NONE if x is None else self.expr(x, env)
                                    for x in (s.lower, s.upper, s.step))
            else:
                i = self.expr(s, env)
            return mk(("SUB", v, i))
        if isinstance(e, ast.Call):
            return self.call(e, env)
        raise Unsupported("expression %s at line %d" % (ast.unparse(e), e.lineno))

    def compare(self, op, a, b, node):
        if isinstance(op, ast.Is):
            return mk(("IS", a, b))
        if isinstance(op, ast.IsNot):
            return neg(mk(("IS", a, b)))
        if isinstance(op, ast.Eq):
            return mk(("CMP", "==", a, b))
        if isinstance(op, ast.NotEq):
            return neg(mk(("CMP", "==", a, b)))
        if isinstance(op, ast.Lt):
            return mk(("CMP", "<", a, b))
        if isinstance(op, ast.LtE):
            return mk(("CMP", "<=", a, b))
        if isinstance(op, ast.Gt):
            return mk(("CMP", "<", b, a))
        if isinstance(op, ast.GtE):
            return mk(("CMP", "<=", b, a))
        raise Unsupported("comparison at line %d" % node.lineno)

    def call(self, e, env):
        args = []
        for a in e.args:
            _need(not isinstance(a, ast.Starred), "* argument in " + ast.unparse(e), e)
            args.append(self.expr(a, env))
        kw = []
        for k in e.keywords:
            v = self.expr(k.value, env)
            kw.append((k.arg if k.arg is not None else "**", v))
        # **bundle where bundle is the **kwargs parameter of an inlined function: spell it out
        flat = []
        for k, v in kw:
            if k == "**" and v[0] == "KW":
                flat += list(v[1])
                if v[2] is not None:
                    flat.append(("**", v[2]))
            elif k == "**" and v[0] == "D" and all(
                    is_k(a) and isinstance(kval(a), str) for a, _ in v[1]):
                flat += [(kval(a), x) for a, x in v[1]]     # **{'sp': ...} / **dict(sp=...)
            else:
                flat.append((k, v))
        kw = flat
        _need(len([k for k, _ in kw if k == "**"]) <= 1, "several ** in " + ast.unparse(e), e)
        _need(len({k for k, _ in kw}) == len(kw), "keyword given twice in " + ast.unparse(e), e)
        # super().__init__(...) / super(C, self).__init__(...)
        if isinstance(e.func, ast.Attribute) and isinstance(e.func.value, ast.Call) \
                and isinstance(e.func.value.func, ast.Name) and e.func.value.func.id == "super":
            return self.super_call(e, e.func.attr, args, kw, env)
        f = self.expr(e.func, env)
        if f[0] == "ATTR" and f[1] == P("self") and self.cls is not None:
            meth = self.find_method(f[2], self.mro)
            if meth is not None:
                first = [] if self.is_static(meth[1], e) else [P("self")]
                return self.apply(meth[1], first + args, kw, e, owner=meth[0])
        if f[0] == "ATTR" and f[1][0] == "N" and f[1][1] in self.m.classes:
            # Class.helper(...): a static method, or a plain function called with explicit self
            k = self.m.classes[f[1][1]]
            meth = self.find_method(f[2], mro(self.m, k))
            if meth is not None:
                self.is_static(meth[1], e)
                return self.apply(meth[1], args, kw, e, owner=meth[0])
        if isinstance(e.func, ast.Name) and e.func.id not in env:
            r = self.m.resolve(e.func.id)
            if r is not None:
                m2, fn = r
                if fn.name in self.opaque:
                    return call(N(fn.name), (), self.bind(fn, args, kw, e, module=m2).items())
                return self.apply(fn, args, kw, e, module=m2)
        return call(f, args, kw)

    @staticmethod
    def is_static(fn, node):
        decs = [d.id if isinstance(d, ast.Name) else None for d in fn.decorator_list]
        _need(all(d == "staticmethod" for d in decs), "decorator on %s" % fn.name, node)
        return bool(decs)

    # ---- calls of functions defined in the module
    def bind(self, fn, args, kw, node, module=None):
        names, defaults, kwarg = signature(fn)
        _need(len(args) <= len(names), "too many arguments for " + fn.name, node)
        b = dict(zip(names, args))
        extra = {}
        splat = None
        for k, v in kw:
            if k == "**":
                # an unknown bundle may only flow into the callee's own **kwargs (it could bind a
                # named parameter otherwise: not modelled)
                _need(kwarg is not None, "** argument in a call of %s" % fn.name, node)
                splat = v
                continue
            _need(k not in b, "argument %s given twice to %s" % (k, fn.name), node)
            if k in names:
                b[k] = v
            else:
                _need(kwarg is not None, "%s() has no parameter %s" % (fn.name, k), node)
                extra[k] = v
        for n in names:
            if n not in b:
                _need(defaults[n] is not None, "%s() misses argument %s" % (fn.name, n), node)
                saved, self.m = self.m, (module or self.m)
                try:
                    b[n] = self.expr(defaults[n], {})   # defaults: scope of the defining module
                finally:
                    self.m = saved
        if kwarg is not None:
            b[kwarg] = ("KW", tuple(sorted(extra.items())), splat)
        return b

    def apply(self, fn, args, kw, node, owner=None, module=None):
        _need(self.depth < MAX_DEPTH, "call depth (recursion?) at " + fn.name, node)
        _need(not fn.decorator_list or owner is not None, "decorated function " + fn.name, node)
        env = self.bind(fn, args, kw, node, module=module)
        saved = (self.cls_owner, self.m)
        self.cls_owner = owner
        self.m = module or self.m
        self.depth += 1
        try:
            return self.run(strip_doc(fn.body), env)
        finally:
            self.depth -= 1
            self.cls_owner, self.m = saved

    def find_method(self, name, classes):
        for c in classes:
            for n in c.body:
                if isinstance(n, ast.FunctionDef) and n.name == name:
                    return c, n
        return None

    def super_call(self, e, attr, args, kw, env):
        _need(self.cls is not None and self.cls_owner is not None,
              "super() outside a method", e)
        sa = e.func.value.args
        _need(not e.func.value.keywords and (not sa or (
            len(sa) == 2 and isinstance(sa[0], ast.Name) and sa[0].id == self.cls_owner.name
            and isinstance(sa[1], ast.Name) and sa[1].id == "self")), "arguments of super()", e)
        i = self.mro.index(self.cls_owner)
        meth = self.find_method(attr, self.mro[i + 1:])
        _need(meth is not None, "super().%s not found in the module" % attr, e)
        return self.apply(meth[1], [P("self")] + args, kw, e, owner=meth[0])

    # ---- statements, continuation style: the value returned by running `stmts`
    def run(self, stmts, env):
        if not stmts:
            return NONE
        s, rest = stmts[0], list(stmts[1:])
        if isinstance(s, ast.Return):
            return NONE if s.value is None else self.expr(s.value, env)
        if isinstance(s, ast.Raise):
            return RAISE
        if isinstance(s, ast.Pass):
            return self.run(rest, env)
        if isinstance(s, ast.Expr):
            if isinstance(s.value, ast.Constant) and isinstance(s.value.value, str):
                return self.run(rest, env)
            _need(isinstance(s.value, ast.Call), "statement " + ast.unparse(s), s)
            v = self.expr(s.value, env)
            if v[0] == "C" and v[1][0] == "N" and v[1][1] in VALIDATORS:
                return self.run(rest, env)          # raises or does nothing
            return self.seq(v, rest, env, s)
        if isinstance(s, ast.Assign):
            v = self.expr(s.value, env)
            env = dict(env)
            for tg in s.targets:
                self.assign(tg, v, env, s)
            return self.run(rest, env)
        if isinstance(s, ast.AugAssign):
            _need(isinstance(s.target, ast.Name) and type(s.op) in BINOPS and s.target.id in env,
                  "statement " + ast.unparse(s), s)
            env = dict(env)
            env[s.target.id] = ("B", BINOPS[type(s.op)], env[s.target.id], self.expr(s.value, env))
            return self.run(rest, env)
        if isinstance(s, ast.If):
            c = self.expr(s.test, env)
            if c == TRUE:
                return self.run(list(s.body) + rest, env)
            if c == FALSE:
                return self.run(list(s.orelse) + rest, env)
            if self.store is not None:
                raise Unsupported("conditional statement in a constructor at line %d" % s.lineno)
            return ite(c, self.run(list(s.body) + rest, env), self.run(list(s.orelse) + rest, env))
        if isinstance(s, ast.Assert):
            c = self.expr(s.test, env)
            return ite(c, self.run(rest, env), RAISE)
        raise Unsupported("statement %s at line %d" % (ast.unparse(s).split("\n")[0], s.lineno))

    def seq(self, v, rest, env, node):
        """an inlined call executed for its effect: it may only raise or return None."""
        if v == RAISE:
            return RAISE
        if v == NONE:
            return self.run(rest, env)
        if v[0] == "ITE":
            return ite(v[1], self.seq(v[2], rest, env, node), self.seq(v[3], rest, env, node))
        raise Unsupported("call executed for its effect: %s at line %d" % (show(v), node.lineno))

    def assign(self, tg, v, env, node):
        if isinstance(tg, ast.Name):
            env[tg.id] = v
        elif isinstance(tg, (ast.Tuple, ast.List)):
            n = len(tg.elts)
            for i, t in enumerate(tg.elts):
                self.assign(t, elt(v, i, n), env, node)
        elif isinstance(tg, ast.Attribute) and isinstance(tg.value, ast.Name) \
                and tg.value.id == "self" and self.store is not None:
            self.store[tg.attr] = v
        else:
            raise Unsupported("assignment target %s at line %d" % (ast.unparse(tg), node.lineno))


def evaluate(module, fn, params, **kw):
    """the term computed by function `fn` on symbolic parameters (P name, or the given terms)."""
    ev = Ev(module, **kw)
    names, _, kwarg = signature(fn)
    env = {n: params.get(n, P(n)) for n in names}
    if kwarg:
        env[kwarg] = params.get(kwarg, ("KW", (), P("**")))
    return ev.run(strip_doc(fn.body), env)


# ------------------------------------------------------------------------------------------------
# classes: C3 linearisation over the classes of the module


def mro(module, cls):
    def lin(c):
        bases = [module.classes[b.id] for b in c.bases
                 if isinstance(b, ast.Name) and b.id in module.classes]
        _need(all(isinstance(b, ast.Name) for b in c.bases), "bases of " + c.name, c)
        seqs = [lin(b) for b in bases] + [list(bases)]
        out = [c]
        while any(seqs):
            for s in seqs:
                if not s:
                    continue
                h = s[0]
                if not any(h in t[1:] for t in seqs):
                    break
            else:
                raise Unsupported("inconsistent class hierarchy at " + c.name)
            out.append(h)
            seqs = [[x for x in t if x is not h] for t in seqs]
        return out
    return lin(cls)


def external_bases(module, classes):
    return sorted({b.id for c in classes for b in c.bases
                   if isinstance(b, ast.Name) and b.id not in module.classes})


def construct(module, cls, ctor_params):
    """run cls.__init__ (following super().__init__ along the MRO) on symbolic constructor
    arguments; returns the attribute store of self."""
    order = mro(module, cls)
    ev = Ev(module, cls=cls, mro=order)
    ev.store = {}
    meth = ev.find_method("__init__", order)
    _need(meth is not None, "no __init__ for " + cls.name, cls)
    names, _, kwarg = signature(meth[1])
    _need(names[0] == "self" and kwarg is None, "constructor of " + cls.name, cls)
    env = {n: P(n) for n in names}
    ev.cls_owner = meth[0]
    r = ev.run(strip_doc(meth[1].body), env)
    _need(r == NONE, "%s.__init__ returns %s" % (cls.name, show(r)), cls)
    return ev.store


def method_term(module, cls, name):
    """the term a method computes on symbolic arguments; attributes stay self.<attr>."""
    order = mro(module, cls)
    ev = Ev(module, cls=cls, mro=order)
    meth = ev.find_method(name, order)
    _need(meth is not None, "no %s for %s" % (name, cls.name), cls)
    names, defaults, kwarg = signature(meth[1])
    _need(names[0] == "self", "signature of %s.%s" % (cls.name, name), meth[1])
    env = {n: P(n) for n in names}
    if kwarg:
        env[kwarg] = ("KW", (), P("**"))
    ev.cls_owner = meth[0]
    return names[1:], defaults, kwarg, ev.run(strip_doc(meth[1].body), env)
