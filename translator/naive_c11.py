"""C11 (and, for the shared leaves, C03) translator: regenerates from /repo on every run

  (a) NaiveForecaster.fit                 -> gen_resolve_wl, gen_fit_sp  (whole function body)
  (b) NaiveForecaster._predict_last_window -> gen_kernel                  (whole function body)
      + the validators fit calls (check_sp, check_window_length on integer arguments), the
      ForecastingHorizon one-liners the kernel relies on (to_indexer / to_absolute / to_relative /
      to_absolute_int), `_predict_nan`, the in-sample cutoffs of `_predict_in_sample`, the label
      slice of `_get_last_window` and the in-/out-of-sample dispatch of `_predict`
  (c) PolynomialTrendForecaster.fit / _predict: design matrix, options handed to sklearn, the
      time axis of fit and of predict, the prediction index

into build/coq/C11/Gen.v.  coq/C11/Bridge.v proves every gen_* equal to the hand model for ALL
arguments, so a change of the source either still denotes the same function (harmless rewrite) or
breaks a Bridge lemma, or - if the shape is unknown - makes this translator raise (fail closed).

How (a), (b) are translated: a small symbolic evaluator over the Python ast, run once per
strategy ("last" / "mean" / "drift") and - for fit - once per None-ness of `window_length`, with
`self.strategy == "..."`, `x is None`, `None == 1`, `is_int(<int>)` decided statically and dead
branches dropped.  Statements: docstring, pass, assignment to a local or `self.<attr>`,
if/elif/else (the continuation is duplicated into both branches), raise ValueError(...) -> Err,
return, and calls of a fixed list of procedures without influence on the result (warn,
_set_y_X, _set_fh).  Expressions: see `Ev.expr`; arrays are `list oq` (NaN = None), the primitive
numpy operations are the `np_*` / `sq_*` definitions of coq/C11/Model.v.  Everything else raises
`Unsupported`.
"""
import ast
import os


class Unsupported(Exception):
    pass


KEYWORDS = {"end", "at", "in", "as", "return", "using", "fix", "match", "with", "let", "fun", "if",
            "then", "else", "forall", "exists", "Type", "Prop", "Set", "where", "pad"}


def _u(n):
    return ast.unparse(n)


def _need(cond, what, node=None):
    if not cond:
        raise Unsupported("%s%s" % (what, (": " + _u(node)[:200]) if node is not None else ""))


def find(mod, path):
    node = mod
    for p in path.split("."):
        for n in node.body:
            if isinstance(n, (ast.FunctionDef, ast.ClassDef)) and n.name == p:
                node = n
                break
        else:
            raise Unsupported("missing " + path)
    return node


def body_of(fn):
    b = list(fn.body)
    if b and isinstance(b[0], ast.Expr) and isinstance(getattr(b[0], "value", None), ast.Constant) \
            and isinstance(b[0].value.value, str):
        b = b[1:]
    return b


def argnames(fn):
    a = fn.args
    _need(not a.vararg and not a.kwarg and not a.kwonlyargs and not a.posonlyargs,
          "signature of %s" % fn.name)
    return [x.arg for x in a.args]


# ------------------------------------------------------------------------------------------------
# symbolic values


class V:
    """kind: Z B (coq terms) | NONE STR (static) | S (oq scalar) A (list oq) T (reshaped table)
    I (list Z) FH (the relative horizon) Y (the training series) |
    RZ RA RT (res of Z / A / T: must be bound by an assignment or returned)"""

    def __init__(self, kind, coq=None, static=None):
        self.kind, self.coq, self.static = kind, coq, static

    def is_static_bool(self):
        return self.kind == "B" and self.static is not None


def B(static=None, coq=None):
    if static is not None:
        return V("B", "true" if static else "false", static)
    return V("B", coq)


def Z(coq):
    return V("Z", coq)


class Ev:
    def __init__(self, skip_calls=()):
        self.skip_calls = set(skip_calls)
        self.counter = 0

    def fresh(self, base):
        self.counter += 1
        base = "".join(c if c.isalnum() else "_" for c in base).strip("_") or "v"
        return "%s_%d" % (base, self.counter)

    # ---- expressions ---------------------------------------------------------------------------
    def expr(self, e, env):
        if isinstance(e, ast.Constant):
            v = e.value
            if isinstance(v, bool):
                return B(static=v)
            if isinstance(v, int):
                return Z("(%d)" % v)
            if v is None:
                return V("NONE")
            if isinstance(v, str):
                return V("STR", static=v)
            raise Unsupported("constant %r" % (v,))
        if isinstance(e, (ast.Name, ast.Attribute)):
            u = _u(e)
            if u in env:
                return env[u]
            if u == "np.nan":
                return V("S", "(None : oq)")
            raise Unsupported("unbound %s" % u)
        if isinstance(e, ast.UnaryOp):
            v = self.expr(e.operand, env)
            if isinstance(e.op, ast.Not):
                _need(v.kind == "B", "not on non-bool", e)
                return B(static=not v.static) if v.is_static_bool() else B(coq="(negb %s)" % v.coq)
            if isinstance(e.op, ast.USub) and v.kind == "Z":
                return Z("(- %s)" % v.coq)
            raise Unsupported("unary %s" % _u(e))
        if isinstance(e, ast.BoolOp):
            is_and = isinstance(e.op, ast.And)
            parts = []
            for sub in e.values:            # left to right, short-circuit on static values
                v = self.expr(sub, env)
                _need(v.kind == "B", "bool operand", sub)
                if v.is_static_bool():
                    if v.static != is_and:  # False in `and` / True in `or` decides
                        if not parts:
                            return B(static=v.static)
                        # earlier dynamic operands still decide whether we get here; result is
                        # (p1 && ... && false) = false only if all p are total: they are (pure)
                        return B(static=v.static)
                    continue
                parts.append(v.coq)
            if not parts:
                return B(static=is_and)
            if len(parts) == 1:
                return B(coq=parts[0])
            return B(coq="(" + (" && " if is_and else " || ").join(parts) + ")")
        if isinstance(e, ast.Compare):
            _need(len(e.ops) == 1, "chained comparison", e)
            return self.compare(e.ops[0], self.expr(e.left, env), self.expr(e.comparators[0], env), e)
        if isinstance(e, (ast.Tuple, ast.List)) and e.elts and all(
                isinstance(x, ast.Constant) and isinstance(x.value, str) for x in e.elts):
            return V("STR", static="<text>")       # a tuple of names for a message
        if isinstance(e, ast.IfExp):
            t = self.expr(e.test, env)
            _need(t.kind == "B", "conditional expression test", e)
            if t.is_static_bool():
                return self.expr(e.body if t.static else e.orelse, env)
            a, b = self.expr(e.body, env), self.expr(e.orelse, env)
            _need(a.kind == "STR" and b.kind == "STR", "conditional expression (only between strings)", e)
            return V("STR", static="<text>")       # a message text: never compared
        if isinstance(e, ast.BinOp):
            return self.binop(e, env)
        if isinstance(e, ast.Subscript):
            return self.subscript(e, env)
        if isinstance(e, ast.Call):
            return self.call(e, env)
        raise Unsupported("expression %s" % _u(e))

    def compare(self, op, a, b, node):
        if isinstance(op, (ast.Is, ast.IsNot)):
            _need(b.kind == "NONE", "`is` against something else than None", node)
            _need(a.kind in ("NONE", "Z"), "`is None` on kind %s" % a.kind, node)
            r = a.kind == "NONE"
            return B(static=r if isinstance(op, ast.Is) else not r)
        if isinstance(op, (ast.Eq, ast.NotEq)):
            neg = isinstance(op, ast.NotEq)
            if a.kind == "STR" and b.kind == "STR":
                return B(static=(a.static == b.static) != neg)
            if {a.kind, b.kind} == {"NONE", "Z"}:        # None == 1 is False, no error
                return B(static=neg)
            if a.kind == "Z" and b.kind == "Z":
                t = "(%s =? %s)" % (a.coq, b.coq)
                return B(coq="(negb %s)" % t if neg else t)
            raise Unsupported("== on %s %s: %s" % (a.kind, b.kind, _u(node)))
        sym = {ast.Lt: "<?", ast.LtE: "<=?", ast.Gt: ">?", ast.GtE: ">=?"}.get(type(op))
        _need(sym is not None and a.kind == "Z" and b.kind == "Z",
              "comparison on %s %s" % (a.kind, b.kind), node)
        return B(coq="(%s %s %s)" % (a.coq, sym, b.coq))

    def binop(self, e, env):
        a, b = self.expr(e.left, env), self.expr(e.right, env)
        k = (type(e.op), a.kind, b.kind)
        if a.kind == "Z" and b.kind == "Z":
            if type(e.op) in (ast.Add, ast.Sub, ast.Mult):
                sym = {ast.Add: "+", ast.Sub: "-", ast.Mult: "*"}[type(e.op)]
                return Z("(%s %s %s)" % (a.coq, sym, b.coq))
            if isinstance(e.op, ast.Mod):
                return Z("(%s mod %s)" % (a.coq, b.coq))   # Python % = Z.modulo (sign of divisor)
        if k == (ast.Sub, "S", "S"):
            return V("S", "(sq_sub %s %s)" % (a.coq, b.coq))
        if k == (ast.Div, "S", "Z"):
            return V("S", "(sq_divz %s %s)" % (a.coq, b.coq))
        if k == (ast.Add, "I", "Z"):
            return V("I", "(map (fun i_ => i_ + %s) %s)" % (b.coq, a.coq))
        if k == (ast.Sub, "I", "Z"):
            return V("I", "(map (fun i_ => i_ - %s) %s)" % (b.coq, a.coq))
        if k == (ast.Mult, "I", "S"):
            return V("A", "(sq_scale_idx %s %s)" % (a.coq, b.coq))
        if k == (ast.Add, "S", "A"):
            return V("A", "(sq_add_arr %s %s)" % (a.coq, b.coq))
        raise Unsupported("binary operation on %s %s: %s" % (a.kind, b.kind, _u(e)))

    def subscript(self, e, env):
        a = self.expr(e.value, env)
        s = e.slice
        if a.kind == "A":
            if _u(s) == "-1":
                return V("S", "(np_last %s)" % a.coq)
            if _u(s) == "0":
                return V("S", "(np_first %s)" % a.coq)
            if isinstance(s, ast.List) and [_u(x) for x in s.elts] == ["0", "-1"]:
                return V("A", "[np_first %s; np_last %s]" % (a.coq, a.coq))
            i = self.expr(s, env)
            if i.kind == "I":
                return V("RA", "(np_index %s %s)" % (a.coq, i.coq))
        if a.kind == "FH" and _u(s) == "-1":
            return Z("(zlast %s)" % a.coq)
        raise Unsupported("subscript %s" % _u(e))

    def call(self, e, env):
        f = _u(e.func)
        kw = {k.arg: k.value for k in e.keywords}
        args = e.args

        def only(n, kws=()):
            _need(len(args) == n and set(kw) <= set(kws), "arguments of %s" % f, e)

        if f == "len":
            only(1)
            a = self.expr(args[0], env)
            if a.kind in ("A", "FH"):
                return Z("(zlen %s)" % a.coq)
            if a.kind == "Y":
                return Z(a.coq)
            raise Unsupported("len of %s" % a.kind)
        if f in ("np.all", "np.any"):
            only(1)
            inner = args[0]
            _need(isinstance(inner, ast.Call) and _u(inner.func) == "np.isnan" and len(inner.args) == 1
                  and not inner.keywords, "%s(np.isnan(<array>)) expected" % f, e)
            a = self.expr(inner.args[0], env)
            _need(a.kind == "A", "np.isnan of %s" % a.kind, e)
            return B(coq="(%s %s)" % ("np_all_isnan" if f == "np.all" else "np_any_isnan", a.coq))
        if f == "np.repeat":
            only(2)
            x, n = self.expr(args[0], env), self.expr(args[1], env)
            _need(x.kind == "S" and n.kind == "Z", "np.repeat(scalar, int)", e)
            return V("A", "(np_repeat %s %s)" % (x.coq, n.coq))
        if f == "np.nanmean":
            only(1, ("axis",))
            a = self.expr(args[0], env)
            if a.kind == "A" and not kw:
                return V("S", "(nanmean %s)" % a.coq)
            if a.kind == "T" and _u(kw.get("axis", ast.Constant(None))) == "0":
                return V("A", "(np_nanmean_axis0 %s)" % a.coq)
            raise Unsupported("np.nanmean on %s with %s" % (a.kind, sorted(kw)))
        if f == "np.full":
            only(2)
            n, x = self.expr(args[0], env), self.expr(args[1], env)
            _need(n.kind == "Z" and x.kind == "S" and _u(args[1]) == "np.nan", "np.full(int, np.nan)", e)
            return V("A", "(np_full_nan %s)" % n.coq)
        if f == "np.hstack":
            only(1)
            _need(isinstance(args[0], ast.List) and len(args[0].elts) == 2, "np.hstack([a, b])", e)
            a, b = (self.expr(x, env) for x in args[0].elts)
            _need(a.kind == "A" and b.kind == "A", "np.hstack of arrays", e)
            return V("A", "(np_hstack %s %s)" % (a.coq, b.coq))
        if f == "np.tile":
            _need(len(args) + len(kw) == 2 and len(args) >= 1 and set(kw) <= {"reps"}, "np.tile(a, reps)", e)
            a = self.expr(args[0], env)
            r = self.expr(args[1] if len(args) == 2 else kw["reps"], env)
            _need(a.kind == "A" and r.kind == "Z", "np.tile(array, int)", e)
            return V("A", "(np_tile %s %s)" % (a.coq, r.coq))
        if f in ("np.int", "int"):
            only(1)
            c = args[0]
            _need(isinstance(c, ast.Call) and _u(c.func) in ("np.ceil", "math.ceil") and len(c.args) == 1
                  and not c.keywords and isinstance(c.args[0], ast.BinOp)
                  and isinstance(c.args[0].op, ast.Div), "int(ceil(a / b)) expected", e)
            a, b = self.expr(c.args[0].left, env), self.expr(c.args[0].right, env)
            _need(a.kind == "Z" and b.kind == "Z", "ceil of an integer quotient", e)
            return Z("(np_ceil_div %s %s)" % (a.coq, b.coq))
        if isinstance(e.func, ast.Attribute) and e.func.attr == "reshape":
            a = self.expr(e.func.value, env)
            only(2)
            _need(a.kind == "A" and _u(args[0]) == "-1", "<array>.reshape(-1, cols)", e)
            c = self.expr(args[1], env)
            _need(c.kind == "Z", "reshape columns", e)
            return V("RT", "(np_reshape_cols %s %s)" % (a.coq, c.coq))
        if f == "self._predict_nan":
            only(1)
            h = self.expr(args[0], env)
            _need(h.kind == "FH", "_predict_nan(fh)", e)
            return V("A", "(gen_predict_nan (zlen %s))" % h.coq)
        if isinstance(e.func, ast.Attribute) and e.func.attr in ("to_indexer", "to_relative"):
            h = self.expr(e.func.value, env)
            only(1)
            _need(h.kind == "FH" and _u(args[0]) == "self.cutoff", "fh.%s(self.cutoff)" % e.func.attr, e)
            if e.func.attr == "to_relative":
                return h                  # the horizon handed to the kernel is the relative one
            return V("I", "(map gen_fh_indexer %s)" % h.coq)
        if f == "check_sp":
            only(1)
            a = self.expr(args[0], env)
            _need(a.kind == "Z", "check_sp(<int>)", e)
            return V("RZ", "(gen_check_sp %s)" % a.coq)
        if f == "check_window_length":
            only(1)
            a = self.expr(args[0], env)
            if a.kind == "NONE":
                _need(env.get("@cwl_none_ok"), "check_window_length(None) not known to return None")
                return a
            _need(a.kind == "Z", "check_window_length(<int>|None)", e)
            return V("RZ", "(gen_check_window_length %s)" % a.coq)
        if f == "is_int":
            only(1)
            a = self.expr(args[0], env)
            _need(a.kind == "Z", "is_int of %s" % a.kind, e)
            return B(static=True)
        if f == "isinstance":
            only(2)
            a = self.expr(args[0], env)
            _need(a.kind == "Z" and _u(args[1]) == "list", "isinstance(<int>, list)", e)
            return B(static=False)
        raise Unsupported("call %s" % _u(e))

    # ---- statements (continuation passing; result: coq term of type `res <R>`) --------------------
    def run(self, stmts, env, kret, kend):
        if not stmts:
            return kend(env)
        st, rest = stmts[0], stmts[1:]
        if isinstance(st, ast.Pass) or (isinstance(st, ast.Expr) and isinstance(st.value, ast.Constant)
                                        and isinstance(st.value.value, str)):
            return self.run(rest, env, kret, kend)
        if isinstance(st, ast.Expr) and isinstance(st.value, ast.Call):
            _need(_u(st.value.func) in self.skip_calls, "call statement", st)
            return self.run(rest, env, kret, kend)
        if isinstance(st, ast.Raise):
            _need(isinstance(st.exc, ast.Call) and _u(st.exc.func) == "ValueError" and st.cause is None,
                  "raise ValueError(...) expected", st)
            return "Err"
        if isinstance(st, ast.Return):
            _need(st.value is not None, "bare return", st)
            return kret(st.value, env)
        if isinstance(st, ast.If):
            t = self.expr(st.test, env)
            _need(t.kind == "B", "if test", st)
            if t.is_static_bool():
                return self.run((st.body if t.static else st.orelse) + rest, env, kret, kend)
            return "(if %s then %s else %s)" % (t.coq, self.run(st.body + rest, env, kret, kend),
                                               self.run(st.orelse + rest, env, kret, kend))
        if isinstance(st, ast.Assign):
            _need(len(st.targets) == 1, "multiple targets", st)
            tg = st.targets[0]
            _need(isinstance(tg, ast.Name) or (isinstance(tg, ast.Attribute) and _u(tg.value) == "self"),
                  "assignment target", st)
            name = _u(tg)
            v = self.expr(st.value, env)
            env = dict(env)
            if v.kind in ("NONE", "STR") or v.is_static_bool() or v.kind in ("FH", "Y"):
                env[name] = v
                return self.run(rest, env, kret, kend)
            x = self.fresh(name.replace("self.", ""))
            if v.kind in ("RZ", "RA", "RT"):
                env[name] = V(v.kind[1:], x)
                return "(match %s with Err => Err | Ok %s => %s end)" % (
                    v.coq, x, self.run(rest, env, kret, kend))
            env[name] = V(v.kind, x)
            return "(let %s := %s in %s)" % (x, v.coq, self.run(rest, env, kret, kend))
        raise Unsupported("statement %s" % _u(st)[:120])


def _no_end(what):
    def k(env):
        raise Unsupported("%s: control reaches the end of the function without return" % what)
    return k


# ------------------------------------------------------------------------------------------------
# validators on integer arguments


def _validator(mod, name, extra_env, coqname):
    """`def f(x, <defaulted options>): if x is not None: <tests ... raise>; return x` on an
    INTEGER x (is_int(x) holds, x is not None, x is not a list)."""
    fn = find(mod, name)
    args = argnames(fn)
    _need(len(args) >= 1 and len(fn.args.defaults) == len(args) - 1, "signature of %s" % name)
    ev = Ev()
    env = {args[0]: Z("x")}
    for a, d in zip(args[1:], fn.args.defaults):
        env[a] = ev.expr(d, {})
    env.update(extra_env)

    def kret(value, env2):
        v = ev.expr(value, env2)
        _need(v.kind == "Z", "%s returns a %s" % (name, v.kind))
        return "(Ok %s)" % v.coq

    body = ev.run(body_of(fn), env, kret, _no_end(name))
    # ... and on None it returns None without raising
    ev2 = Ev()
    env_none = dict(env)
    env_none[args[0]] = V("NONE")
    ok = []

    def kret_none(value, env2):
        ok.append(ev2.expr(value, env2).kind == "NONE")
        return "(Ok 0)"
    t = ev2.run(body_of(fn), env_none, kret_none, _no_end(name))
    _need(ok == [True] and t == "(Ok 0)", "%s(None) must return None" % name)
    return "Definition %s (x : Z) : res Z := %s.\n" % (coqname, body)


# ------------------------------------------------------------------------------------------------
# NaiveForecaster


STRATS = [("SLast", "last"), ("SMean", "mean"), ("SDrift", "drift")]


def _naive_fit(cls, out):
    fn = find(cls, "fit")
    _need(argnames(fn) == ["self", "y", "X", "fh"], "NaiveForecaster.fit signature")
    init = find(cls, "__init__")
    _need(argnames(init) == ["self", "strategy", "window_length", "sp"], "NaiveForecaster.__init__ signature")
    inits = [_u(s) for s in body_of(init)]
    for a in ("strategy", "sp", "window_length"):
        _need("self.%s = %s" % (a, a) in inits, "__init__ stores %s verbatim" % a)
    results = {}
    for what in ("wl", "sp"):
        arms = []
        for con, sname in STRATS:
            sub = []
            for wl_none in (True, False):
                ev = Ev(skip_calls=("warn", "self._set_y_X", "self._set_fh"))
                env = {"self.strategy": V("STR", static=sname), "self.sp": Z("sp"),
                       "self.window_length": V("NONE") if wl_none else Z("w"),
                       "y": V("Y", "n"), "self._y": V("Y", "n"), "@cwl_none_ok": True}

                def kret(value, env2, what=what):
                    _need(_u(value) == "self", "fit returns self")
                    _need(env2.get("self._is_fitted") is not None and env2["self._is_fitted"].static is True,
                          "fit does not set _is_fitted = True before returning")
                    if what == "wl":
                        v = env2.get("self.window_length_")
                        _need(v is not None and v.kind == "Z", "window_length_ is not an integer at the end of fit")
                        return "(Ok %s)" % v.coq
                    v = env2.get("self.sp_")
                    if v is None:
                        return "(Ok None)"
                    _need(v.kind == "Z", "sp_ kind")
                    return "(Ok (Some %s))" % v.coq
                sub.append(ev.run(body_of(fn), env, kret, _no_end("fit")))
            arms.append("  | %s => match wlo with\n      | None => %s\n      | Some w => %s\n      end"
                        % (con, sub[0], sub[1]))
        results[what] = "\n".join(arms)
    # an unknown strategy name is rejected
    ev = Ev(skip_calls=("warn", "self._set_y_X", "self._set_fh"))
    env = {"self.strategy": V("STR", static="<unknown>"), "self.sp": Z("sp"), "self.window_length": V("NONE"),
           "y": V("Y", "n"), "self._y": V("Y", "n"), "@cwl_none_ok": True}
    _need(ev.run(body_of(fn), env, lambda v, e: "(Ok 0)", _no_end("fit")) == "Err",
          "fit accepts an unknown strategy name")
    out.append("(* NaiveForecaster.fit: window_length_ after a successful fit, Err = ValueError.  n = len(y). *)\n"
               "Definition gen_resolve_wl (s : strategy) (sp : Z) (wlo : option Z) (n : Z) : res Z :=\n"
               "  match s with\n%s\n  end.\n" % results["wl"])
    out.append("(* ... and sp_ (None = the attribute is not set by fit for this configuration) *)\n"
               "Definition gen_fit_sp (s : strategy) (sp : Z) (wlo : option Z) (n : Z) : res (option Z) :=\n"
               "  match s with\n%s\n  end.\n" % results["sp"])


def _naive_kernel(cls, out):
    fn = find(cls, "_predict_last_window")
    _need(argnames(fn)[:2] == ["self", "fh"], "_predict_last_window signature")
    b = body_of(fn)
    _need(len(b) >= 3 and _u(b[0]).replace("(", "").replace(")", "") == "last_window, _ = self._get_last_window",
          "first statement: last_window, _ = self._get_last_window()", b[0])
    arms = []
    for con, sname in STRATS:
        ev = Ev()
        # self.sp_ = check_sp(self.sp) = self.sp wherever fit sets it (Bridge: bridge_fit_sp)
        env = {"self.strategy": V("STR", static=sname), "self.sp": Z("sp"), "self.sp_": Z("sp"),
               "last_window": V("A", "w"), "fh": V("FH", "hs"), "self.cutoff": V("STR", static="<cutoff>")}

        def kret(value, env2, ev=ev):
            v = ev.expr(value, env2)
            if v.kind == "A":
                return "(Ok %s)" % v.coq
            _need(v.kind == "RA", "_predict_last_window returns a %s" % v.kind, value)
            return v.coq
        arms.append("  | %s => %s" % (con, ev.run(b[1:], env, kret, _no_end("_predict_last_window"))))
    out.append("(* NaiveForecaster._predict_last_window on the window w (what _get_last_window returned) for the\n"
               "   relative steps hs; Err = ValueError / IndexError *)\n"
               "Definition gen_kernel (s : strategy) (sp : Z) (w : list oq) (hs : list Z) : res (list oq) :=\n"
               "  match s with\n%s\n  end.\n" % "\n".join(arms))


# ------------------------------------------------------------------------------------------------
# one-liners of the surrounding machinery, by shape


def _int_expr(e, env):
    if isinstance(e, ast.Constant) and isinstance(e.value, int) and not isinstance(e.value, bool):
        return "(%d)" % e.value
    if isinstance(e, (ast.Name, ast.Attribute)):
        u = _u(e)
        _need(u in env, "unbound %s" % u)
        return env[u]
    if isinstance(e, ast.UnaryOp) and isinstance(e.op, ast.USub):
        return "(- %s)" % _int_expr(e.operand, env)
    if isinstance(e, ast.BinOp) and type(e.op) in (ast.Add, ast.Sub, ast.Mult):
        return "(%s %s %s)" % (_int_expr(e.left, env), {ast.Add: "+", ast.Sub: "-", ast.Mult: "*"}[type(e.op)],
                               _int_expr(e.right, env))
    if isinstance(e, ast.Call) and _u(e.func) == "len" and len(e.args) == 1 and _u(e.args[0]) in env:
        return env[_u(e.args[0])]
    raise Unsupported("integer expression %s" % _u(e))


def _unique(fn, pred, what):
    hits = [n for n in ast.walk(fn) if isinstance(n, ast.stmt) and pred(n)]
    _need(len(hits) == 1, "%s: expected exactly one such statement in %s, found %d" % (what, fn.name, len(hits)))
    return hits[0]


def _assign_to(fn, target, what=None):
    return _unique(fn, lambda n: isinstance(n, ast.Assign) and len(n.targets) == 1
                   and _u(n.targets[0]) == target, what or ("assignment to " + target)).value


def fh_exprs(repo, out):
    with open(os.path.join(repo, "sktime/forecasting/base/_fh.py")) as f:
        mod = ast.parse(f.read())
    cls = find(mod, "ForecastingHorizon")
    # to_indexer(cutoff, from_cutoff=True): self.to_relative(cutoff).to_pandas() - 1
    fn = find(cls, "to_indexer")
    _need(argnames(fn) == ["self", "cutoff", "from_cutoff"] and [_u(d) for d in fn.args.defaults] == ["None", "True"],
          "to_indexer signature / defaults")
    b = body_of(fn)
    _need(len(b) == 1 and isinstance(b[0], ast.If) and _u(b[0].test) == "from_cutoff" and len(b[0].body) == 1
          and isinstance(b[0].body[0], ast.Return), "to_indexer: if from_cutoff: return ...", b[0])
    r = b[0].body[0].value
    _need(isinstance(r, ast.BinOp) and _u(r.left) == "self.to_relative(cutoff).to_pandas()",
          "to_indexer returns <relative steps> <op> k", r)
    out.append("Definition gen_fh_indexer (r : Z) : Z := %s.\n"
               % _int_expr(ast.BinOp(ast.Name("r"), r.op, r.right), {"r": "r"}))
    # to_absolute: absolute = cutoff + relative (relative = self.to_pandas()), for a relative horizon
    fn = find(cls, "to_absolute")
    b = body_of(fn)
    _need(len(b) == 1 and isinstance(b[0], ast.If) and _u(b[0].test) == "not self.is_relative"
          and _u(b[0].body[0]) == "return self._new()", "to_absolute: identity on an absolute horizon", b[0])
    _need(_u(_assign_to(fn, "relative")) == "self.to_pandas()", "to_absolute: relative = self.to_pandas()")
    ab = _unique(fn, lambda n: isinstance(n, ast.Assign) and _u(n.targets[0]) == "absolute"
                 and isinstance(n.value, ast.BinOp), "absolute = cutoff + relative").value
    out.append("Definition gen_fh_abs (cutoff r : Z) : Z := %s.\n"
               % _int_expr(ab, {"cutoff": "cutoff", "relative": "r"}))
    _need(_u(b[0].orelse[-1]) == "return self._new(absolute, is_relative=False)", "to_absolute return")
    # to_relative: relative = absolute - cutoff, identity on a relative horizon
    fn = find(cls, "to_relative")
    b = body_of(fn)
    _need(len(b) == 1 and isinstance(b[0], ast.If) and _u(b[0].test) == "self.is_relative"
          and _u(b[0].body[0]) == "return self._new()", "to_relative: identity on a relative horizon", b[0])
    _unique(fn, lambda n: isinstance(n, ast.Assign) and _u(n) == "absolute = self.to_pandas()",
            "to_relative: absolute = self.to_pandas()")
    rel = _unique(fn, lambda n: isinstance(n, ast.Assign) and _u(n.targets[0]) == "relative"
                  and isinstance(n.value, ast.BinOp), "relative = absolute - cutoff").value
    out.append("Definition gen_fh_rel (cutoff t : Z) : Z := %s.\n"
               % _int_expr(rel, {"cutoff": "cutoff", "absolute": "t"}))
    _need(_u(b[0].orelse[-1]) == "return self._new(relative, is_relative=True)", "to_relative return")
    # to_absolute_int(start, cutoff): integers = absolute - start
    fn = find(cls, "to_absolute_int")
    _need(argnames(fn) == ["self", "start", "cutoff"], "to_absolute_int signature")
    _need(_u(_assign_to(fn, "absolute")) == "self.to_absolute(cutoff).to_pandas()",
          "to_absolute_int: absolute = self.to_absolute(cutoff).to_pandas()")
    integers = _unique(fn, lambda n: isinstance(n, ast.Assign) and _u(n.targets[0]) == "integers"
                       and isinstance(n.value, ast.BinOp), "integers = absolute - start").value
    out.append("Definition gen_fh_abs_int (start t : Z) : Z := %s.\n"
               % _int_expr(integers, {"start": "start", "absolute": "t"}))
    _need(_u(body_of(fn)[-1]) == "return self._new(integers, is_relative=False)", "to_absolute_int return")


def window_exprs(repo, out):
    with open(os.path.join(repo, "sktime/forecasting/base/_sktime.py")) as f:
        mod = ast.parse(f.read())
    cls = find(mod, "_BaseWindowForecaster")
    # _predict_nan(fh) = np.full(len(fh), np.nan)
    fn = find(cls, "_predict_nan")
    b = body_of(fn)
    _need(argnames(fn) == ["fh"] and len(b) == 1 and _u(b[0]) == "return np.full(len(fh), np.nan)",
          "_predict_nan(fh) = np.full(len(fh), np.nan)")
    out.append("Definition gen_predict_nan (k : Z) : list oq := np_full_nan k.\n")
    # _predict: all out-of-sample -> one call at the cutoff; all in-sample -> moving cutoffs; else both
    fn = find(cls, "_predict")
    b = body_of(fn)
    _need(len(b) >= 2 and isinstance(b[-1], ast.If), "_predict ends with the in-/out-of-sample dispatch")
    d = b[-1]
    _need(_u(d.test) == "fh.is_all_out_of_sample(self.cutoff)" and len(d.body) == 1
          and _u(d.body[0]) == "return self._predict_fixed_cutoff(fh.to_out_of_sample(self.cutoff), **kwargs)",
          "_predict: out-of-sample horizons are served by _predict_fixed_cutoff", d)
    _need(len(d.orelse) == 1 and isinstance(d.orelse[0], ast.If)
          and _u(d.orelse[0].test) == "fh.is_all_in_sample(self.cutoff)"
          and _u(d.orelse[0].body[0]) == "return self._predict_in_sample(fh.to_in_sample(self.cutoff), **kwargs)",
          "_predict: in-sample horizons are served by _predict_in_sample", d)
    mixed = [_u(s) for s in d.orelse[0].orelse]
    _need(mixed == ["y_ins = self._predict_in_sample(fh.to_in_sample(self.cutoff), **kwargs)",
                    "y_oos = self._predict_fixed_cutoff(fh.to_out_of_sample(self.cutoff), **kwargs)",
                    "return y_ins.append(y_oos)"], "_predict: mixed horizons = in-sample ++ out-of-sample")
    # _predict_fixed_cutoff: one _predict_last_window call
    fn = find(cls, "_predict_fixed_cutoff")
    _need(_u(_assign_to(fn, "y_pred")).replace("\n", "").replace(" ", "")
          == "self._predict_last_window(fh,X,return_pred_int=return_pred_int,alpha=alpha)",
          "_predict_fixed_cutoff calls _predict_last_window(fh, ...)")
    # _predict_in_sample: cutoffs = fh.to_relative(self.cutoff) + len(y_train) - 2, fh=1, window_length_
    fn = find(cls, "_predict_in_sample")
    _need(_u(_assign_to(fn, "y_train")) == "self._y", "_predict_in_sample: y_train = self._y")
    c = _assign_to(fn, "cutoffs")
    rel = ast.parse("fh.to_relative(self.cutoff)").body[0].value
    _need(isinstance(c, ast.BinOp), "cutoffs expression", c)
    env = {"fh.to_relative(self.cutoff)": "r", "y_train": "n"}

    def cut(e):
        if _u(e) == _u(rel):
            return "r"
        if isinstance(e, ast.BinOp) and type(e.op) in (ast.Add, ast.Sub):
            return "(%s %s %s)" % (cut(e.left), "+" if isinstance(e.op, ast.Add) else "-", cut(e.right))
        return _int_expr(e, env)
    out.append("(* position of the moved cutoff for the in-sample step r, n = len(y_train) *)\n"
               "Definition gen_insample_cutoff (r n : Z) : Z := %s.\n" % cut(c))
    cv = _assign_to(fn, "cv")
    _need(isinstance(cv, ast.Call) and _u(cv.func) == "CutoffSplitter" and len(cv.args) == 1
          and _u(cv.args[0]) == "cutoffs" and {k.arg: _u(k.value) for k in cv.keywords}
          == {"fh": "1", "window_length": "self.window_length_"},
          "cv = CutoffSplitter(cutoffs, fh=1, window_length=self.window_length_)", cv)
    out.append("Definition gen_insample_step : Z := %s.\n" % _u([k.value for k in cv.keywords if k.arg == "fh"][0]))
    r = [n for n in ast.walk(fn) if isinstance(n, ast.Return)]
    _need(len(r) == 1 and isinstance(r[0].value, ast.Call) and _u(r[0].value.func) == "self._predict_moving_cutoff"
          and [_u(a) for a in r[0].value.args[:2]] == ["y_train", "cv"]
          and {k.arg: _u(k.value) for k in r[0].value.keywords}.get("update_params") == "False",
          "_predict_in_sample returns _predict_moving_cutoff(y_train, cv, ..., update_params=False)")
    # _get_last_window: self._y.loc[cutoff - window_length_ + 1 : cutoff] by label
    fn = find(cls, "_get_last_window")
    _need(_u(_assign_to(fn, "cutoff")) == "self.cutoff", "_get_last_window: cutoff = self.cutoff")
    st = _assign_to(fn, "start")
    _need(isinstance(st, ast.Call) and _u(st.func) == "_shift" and len(st.args) == 1 and _u(st.args[0]) == "cutoff"
          and len(st.keywords) == 1 and st.keywords[0].arg == "by", "start = _shift(cutoff, by=...)", st)
    y = _assign_to(fn, "y")
    _need(_u(y) == "self._y.loc[start:cutoff].to_numpy()", "y = self._y.loc[start:cutoff].to_numpy()", y)
    out.append("(* first label of the last window (the last one is the cutoff c); _shift(x, by) = x + by *)\n"
               "Definition gen_window_start (c wl : Z) : Z := (c + %s).\n"
               % _int_expr(st.keywords[0].value, {"self.window_length_": "wl"}))
    with open(os.path.join(repo, "sktime/utils/datetime.py")) as f:
        sh = find(ast.parse(f.read()), "_shift")
    _need(argnames(sh) == ["x", "by"] and _u(body_of(sh)[-1]) == "return x + by", "_shift(x, by) ends with return x + by")


# ------------------------------------------------------------------------------------------------
# PolynomialTrendForecaster


def poly(repo, out):
    with open(os.path.join(repo, "sktime/forecasting/trend.py")) as f:
        mod = ast.parse(f.read())
    cls = find(mod, "PolynomialTrendForecaster")
    init = find(cls, "__init__")
    _need(argnames(init) == ["self", "regressor", "degree", "with_intercept"]
          and [_u(d) for d in init.args.defaults] == ["None", "1", "True"], "PolynomialTrendForecaster.__init__")
    inits = [_u(s) for s in body_of(init)]
    for a in ("regressor", "degree", "with_intercept"):
        _need("self.%s = %s" % (a, a) in inits, "__init__ stores %s verbatim" % a)
    fn = find(cls, "fit")
    b = body_of(fn)
    want = ["if X is not None:\n    raise NotImplementedError('Support for exogenous variables is not yet implemented')",
            "self._set_y_X(y, X)", "self._set_fh(fh)"]
    _need([_u(s) for s in b[:3]] == want, "PolynomialTrendForecaster.fit: first three statements")
    _need(len(b) == 10, "PolynomialTrendForecaster.fit has %d statements, expected 10" % len(b))
    r = b[3]
    _need(isinstance(r, ast.If) and _u(r.test) == "self.regressor is None" and len(r.body) == 1 and len(r.orelse) == 1
          and _u(r.orelse[0]) == "regressor = self.regressor", "default regressor selection", r)
    lr = r.body[0]
    _need(isinstance(lr, ast.Assign) and _u(lr.targets[0]) == "regressor" and isinstance(lr.value, ast.Call)
          and _u(lr.value.func) == "LinearRegression" and not lr.value.args
          and [k.arg for k in lr.value.keywords] == ["fit_intercept"]
          and isinstance(lr.value.keywords[0].value, ast.Constant)
          and isinstance(lr.value.keywords[0].value.value, bool), "regressor = LinearRegression(fit_intercept=<bool>)", lr)
    out.append("Definition gen_poly_fit_intercept : bool := %s.\n"
               % ("true" if lr.value.keywords[0].value.value else "false"))
    p = b[4]
    _need(isinstance(p, ast.Assign) and _u(p.targets[0]) == "self.regressor_" and isinstance(p.value, ast.Call)
          and _u(p.value.func) == "make_pipeline" and len(p.value.args) == 2 and not p.value.keywords
          and _u(p.value.args[1]) == "regressor", "self.regressor_ = make_pipeline(PolynomialFeatures(...), regressor)", p)
    pf = p.value.args[0]
    _need(isinstance(pf, ast.Call) and _u(pf.func) == "PolynomialFeatures" and not pf.args
          and sorted(k.arg for k in pf.keywords) == ["degree", "include_bias"], "PolynomialFeatures(degree=, include_bias=)", pf)
    kw = {k.arg: k.value for k in pf.keywords}
    ev = Ev()
    d = ev.expr(kw["degree"], {"self.degree": Z("degree")})
    _need(d.kind == "Z", "degree expression")
    out.append("Definition gen_poly_degree (degree : Z) : Z := %s.\n" % d.coq)
    ib = ev.expr(kw["include_bias"], {"self.with_intercept": B(coq="with_intercept")})
    _need(ib.kind == "B", "include_bias expression")
    out.append("Definition gen_poly_include_bias (with_intercept : bool) : bool := %s.\n" % ib.coq)
    nt = b[5]
    _need(isinstance(nt, ast.Assign) and _u(nt.targets[0]) == "n_timepoints" and isinstance(nt.value, ast.BinOp)
          and _u(nt.value.left) == "_get_duration(self._y.index, coerce_to_int=True)", "n_timepoints = _get_duration(index) + k", nt)
    out.append("(* first / last = self._y.index[0] / [-1]; _get_duration(index) = last - first on integers *)\n"
               "Definition gen_poly_n_timepoints (first last_ : Z) : Z := %s.\n"
               % _int_expr(ast.BinOp(ast.Name("dur"), nt.value.op, nt.value.right), {"dur": "(last_ - first)"}))
    x = b[6]
    _need(isinstance(x, ast.Assign) and _u(x.targets[0]) == "X" and _u(x.value).startswith("np.arange(")
          and _u(x.value).endswith(".reshape(-1, 1)"), "X = np.arange(...).reshape(-1, 1)", x)
    ar = x.value.func.value
    _need(isinstance(ar, ast.Call) and _u(ar.func) == "np.arange" and not ar.keywords and 1 <= len(ar.args) <= 2,
          "np.arange(stop) / np.arange(start, stop)", ar)
    lo = "0" if len(ar.args) == 1 else _int_expr(ar.args[0], {"n_timepoints": "n"})
    hi = _int_expr(ar.args[-1], {"n_timepoints": "n"})
    out.append("Definition gen_poly_time_axis (n : Z) : list Z := zrange %s %s 1.\n" % (lo, hi))
    _need(_u(b[7]) == "self.regressor_.fit(X, y)" and _u(b[8]) == "self._is_fitted = True"
          and _u(b[9]) == "return self", "fit: regressor_.fit(X, y); _is_fitted = True; return self")
    # _get_duration on an integer index: x[-1] - x[0]
    with open(os.path.join(repo, "sktime/utils/datetime.py")) as f:
        gd = find(ast.parse(f.read()), "_get_duration")
    gb = body_of(gd)
    _need(argnames(gd)[:2] == ["x", "y"] and _u(gd.args.defaults[0]) == "None" and isinstance(gb[0], ast.If)
          and _u(gb[0].test) == "y is None" and _u(gb[0].body[-1]) == "duration = x[-1] - x[0]"
          and _u(gb[-1]) == "return duration", "_get_duration(index): duration = x[-1] - x[0]")
    # _predict
    fn = find(cls, "_predict")
    b = body_of(fn)
    _need(len(b) == 5 and isinstance(b[0], ast.If) and _u(b[0].test) == "return_pred_int or X is not None"
          and _u(b[0].body[0]) == "raise NotImplementedError()", "_predict: guard", b[0])
    t = b[1]
    _need(isinstance(t, ast.Assign) and _u(t.targets[0]) == "fh" and isinstance(t.value, ast.Call)
          and _u(t.value.func) == "self.fh.to_absolute_int" and not t.value.keywords and len(t.value.args) == 2,
          "fh = self.fh.to_absolute_int(start, cutoff)", t)
    st, cu = t.value.args
    _need(isinstance(st, ast.Subscript) and _u(st.value) == "self._y.index" and _u(cu) == "self.cutoff",
          "to_absolute_int(self._y.index[k], self.cutoff)", t)
    out.append("(* python position in self._y.index of the time point that becomes 0 on the prediction axis *)\n"
               "Definition gen_poly_origin_pos : Z := %s.\n" % _int_expr(st.slice, {}))
    out.append("(* the value of the time variable for the relative step r *)\n"
               "Definition gen_poly_pred_time (start cutoff r : Z) : Z := gen_fh_abs_int start (gen_fh_abs cutoff r).\n")
    _need(_u(b[2]) == "X_pred = fh.to_numpy().reshape(-1, 1)" and _u(b[3]) == "y_pred = self.regressor_.predict(X_pred)",
          "_predict: X_pred, y_pred")
    ret = b[4]
    _need(isinstance(ret, ast.Return) and isinstance(ret.value, ast.Call) and _u(ret.value.func) == "pd.Series"
          and [_u(a) for a in ret.value.args] == ["y_pred"]
          and {k.arg: _u(k.value) for k in ret.value.keywords} == {"index": "self.fh.to_absolute(self.cutoff)"},
          "return pd.Series(y_pred, index=self.fh.to_absolute(self.cutoff))", ret)
    out.append("Definition gen_poly_index (cutoff r : Z) : Z := gen_fh_abs cutoff r.\n")


HEADER = """(* GENERATED by translator/naive_c11.py from sktime/forecasting/naive.py, trend.py,
   base/_sktime.py, base/_fh.py, utils/validation -- do not edit, never committed. *)
From Coq Require Import ZArith QArith List Bool.
Require Import SkV.Lib.Base SkV.Lib.ZRange SkV.C11.Model.
Import ListNotations.
Open Scope Z_scope.

"""


def translate(repo):
    out = [HEADER]
    with open(os.path.join(repo, "sktime/utils/validation/forecasting.py")) as f:
        out.append(_validator(ast.parse(f.read()), "check_sp", {}, "gen_check_sp"))
    with open(os.path.join(repo, "sktime/utils/validation/__init__.py")) as f:
        out.append(_validator(ast.parse(f.read()), "check_window_length", {}, "gen_check_window_length"))
    fh_exprs(repo, out)
    window_exprs(repo, out)
    with open(os.path.join(repo, "sktime/forecasting/naive.py")) as f:
        mod = ast.parse(f.read())
    imports = {(n.module, a.name) for n in mod.body if isinstance(n, ast.ImportFrom) for a in n.names
               if a.asname is None}
    for need in (("sktime.utils.validation.forecasting", "check_sp"), ("sktime.utils.validation", "check_window_length"),
                 ("sktime.forecasting.base._sktime", "_BaseWindowForecaster"),
                 ("sktime.forecasting.base._sktime", "_OptionalForecastingHorizonMixin"), ("warnings", "warn")):
        _need(need in imports, "naive.py does not import %s from %s" % (need[1], need[0]))
    cls = find(mod, "NaiveForecaster")
    _need([_u(b) for b in cls.bases] == ["_OptionalForecastingHorizonMixin", "_BaseWindowForecaster"],
          "bases of NaiveForecaster")
    methods = sorted(n.name for n in cls.body if isinstance(n, ast.FunctionDef))
    _need(methods == ["__init__", "_predict_last_window", "fit"],
          "NaiveForecaster defines %s (expected __init__, fit, _predict_last_window only)" % methods)
    _naive_fit(cls, out)
    _naive_kernel(cls, out)
    poly(repo, out)
    return {"C11/Gen.v": "\n".join(out)}


if __name__ == "__main__":
    import sys
    print(translate(sys.argv[1] if len(sys.argv) > 1 else "/repo")["C11/Gen.v"])
