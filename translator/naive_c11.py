"""C11 (and, for the shared leaves, C03) translator: regenerates from /repo on every run

  (a) NaiveForecaster.fit                 -> gen_resolve_wl, gen_fit_sp  (whole function body)
  (b) NaiveForecaster._predict_last_window -> gen_kernel                  (whole function body)
      + the validators fit calls (check_sp, check_window_length on integer arguments), the
      ForecastingHorizon one-liners the kernel relies on (to_indexer / to_absolute / to_relative /
      to_absolute_int), `_predict_nan`, the in-sample cutoffs of `_predict_in_sample`, the label
      slice of `_get_last_window` and the in-/out-of-sample dispatch of `_predict`
  (c) PolynomialTrendForecaster.fit / _predict: design matrix, options handed to sklearn, the
      time axis of fit and of predict, the prediction index

into build/coq/C11/Gen.v.  coq/C11/Bridge.v proves every gen_* equal to the hand model for ALL
arguments, so a change of the source either still denotes the same function (harmless rewrite) or
breaks a Bridge lemma, or - if the shape is unknown - makes this translator raise (fail closed).

How (a), (b) are translated: a small symbolic evaluator over the Python ast, run once per
strategy ("last" / "mean" / "drift") and - for fit - once per None-ness of `window_length`, with
`self.strategy == "..."`, `x is None`, `None == 1`, `is_int(<int>)` decided statically and dead
branches dropped.  Statements: docstring, pass, assignment to a local or `self.<attr>`,
if/elif/else (the continuation is duplicated into both branches), raise ValueError(...) -> Err,
return, and calls of a fixed list of procedures without influence on the result (warn,
_set_y_X, _set_fh).  Expressions: see `Ev.expr`; arrays are `list oq` (NaN = None), the primitive
numpy operations are the `np_*` / `sq_*` definitions of coq/C11/Model.v.  Everything else raises
`Unsupported`.

Invariance under harmless rewrites (translation is by data flow, not by text or position):
  * assignments to locals are SUBSTITUTED (no `let`), so temporaries introduced, inlined or renamed,
    a repeated sub-expression computed once, and reordered independent assignments give the same term;
    tuple assignments `a, b = x, y` are simultaneous substitutions;
  * `if c: return a` followed by the rest is the same term as `if c: return a else: rest` (the
    continuation is pushed into both branches); conditional expressions `a if c else b` are
    translated for every value kind;
  * calls of private helpers - `self._helper(...)` methods (also @staticmethod) of the same class and
    module-level functions of the same file - are INLINED with argument binding (positional,
    keyword, defaults), any depth without recursion; the helper body must itself be in the supported
    subset; assignments to `self.<attr>` inside a helper are threaded back to the caller;
  * a `res`-valued sub-expression (reshape, indexing) nested inside another expression is bound
    first (not allowed where evaluation is conditional: branches of `a if c else b`, later operands
    of and/or);
  * `match r with Err => Err | Ok x => Ok x end` is emitted as `r`.
The Bridge proofs (coq/C11/Bridge.v) are semantic: they case-split on every boolean test of both
sides and close the leaves by `lia` / congruence, so a differently nested but equivalent term
still proves.
"""
import copy
import ast
import os


class Unsupported(Exception):
    pass


KEYWORDS = {"end", "at", "in", "as", "return", "using", "fix", "match", "with", "let", "fun", "if",
            "then", "else", "forall", "exists", "Type", "Prop", "Set", "where", "pad"}


def _u(n):
    return ast.unparse(n)


def call_arg(call, pos, name):
    """the argument of `call` passed positionally at `pos` or by keyword `name` (None if absent)"""
    if pos is not None and pos < len(call.args) and not any(isinstance(a, ast.Starred) for a in call.args[:pos + 1]):
        return call.args[pos]
    for k in call.keywords:
        if k.arg == name:
            return k.value
    return None


def bound_args(call, params, required=None):
    """arguments of `call` in the order of `params` (positional or keyword); fails on anything else"""
    _need(len(call.args) <= len(params) and all(k.arg in params for k in call.keywords)
          and not any(isinstance(a, ast.Starred) for a in call.args), "arguments of %s" % _u(call.func), call)
    out = [call_arg(call, i, p) for i, p in enumerate(params)]
    _need(len([x for x in out if x is not None]) == len(call.args) + len(call.keywords),
          "an argument of %s is passed twice" % _u(call.func), call)
    for i in range(len(params) if required is None else required):
        _need(out[i] is not None, "missing argument %s of %s" % (params[i], _u(call.func)), call)
    return out


def _need(cond, what, node=None):
    if not cond:
        raise Unsupported("%s%s" % (what, (": " + _u(node)[:200]) if node is not None else ""))


def find(mod, path):
    node = mod
    for p in path.split("."):
        for n in node.body:
            if isinstance(n, (ast.FunctionDef, ast.ClassDef)) and n.name == p:
                node = n
                break
        else:
            raise Unsupported("missing " + path)
    return node


def body_of(fn):
    b = list(fn.body)
    if b and isinstance(b[0], ast.Expr) and isinstance(getattr(b[0], "value", None), ast.Constant) \
            and isinstance(b[0].value.value, str):
        b = b[1:]
    return b


def argnames(fn):
    a = fn.args
    _need(not a.vararg and not a.kwarg and not a.kwonlyargs and not a.posonlyargs,
          "signature of %s" % fn.name)
    return [x.arg for x in a.args]


# ------------------------------------------------------------------------------------------------
# symbolic values


class V:
    """kind: Z B (coq terms) | NONE STR (static) | S (oq scalar) A (list oq) T (reshaped table)
    I (list Z) FH (the relative horizon) Y (the training series) |
    RZ RA RT (res of Z / A / T: must be bound by an assignment or returned)"""

    def __init__(self, kind, coq=None, static=None):
        self.kind, self.coq, self.static = kind, coq, static

    def is_static_bool(self):
        return self.kind == "B" and self.static is not None


def B(static=None, coq=None):
    if static is not None:
        return V("B", "true" if static else "false", static)
    return V("B", coq)


def Z(coq):
    return V("Z", coq)


class Ev:
    def __init__(self, skip_calls=(), cls=None, mod=None, bases=(), repo=None):
        self.skip_calls = set(skip_calls)
        self.counter = 0
        self.pending = []          # (fresh name, res-valued coq term) to bind before the statement
        self.cond_depth = 0        # > 0 while evaluating something evaluated only conditionally
        self.depth = 0             # helper inlining depth
        self.helpers = {}
        if cls is not None:
            for n in cls.body:
                if isinstance(n, ast.FunctionDef):
                    decos = [_u(d) for d in n.decorator_list]
                    _need(set(decos) <= {"staticmethod"}, "decorator of %s" % n.name)
                    self.helpers["self." + n.name] = (n, "staticmethod" in decos, True)
        # inherited methods (resolved like Python does: the class first, then its bases in order);
        # only those the translation actually calls are inlined
        for b in bases:
            for n in b.body:
                if isinstance(n, ast.FunctionDef) and "self." + n.name not in self.helpers:
                    decos = [_u(d) for d in n.decorator_list]
                    if set(decos) <= {"staticmethod"}:
                        self.helpers["self." + n.name] = (n, "staticmethod" in decos, True)
        self.modconsts = {}
        if mod is not None:
            # simple module-level constants (bound once at module level) stand for their value
            counts = {}
            for n in mod.body:
                if isinstance(n, ast.Assign):
                    for t in n.targets:
                        if isinstance(t, ast.Name):
                            counts[t.id] = counts.get(t.id, 0) + 1
                            self.modconsts[t.id] = n.value
            self.modconsts = {k: v for k, v in self.modconsts.items() if counts[k] == 1}
            for n in mod.body:
                if isinstance(n, ast.FunctionDef) and not n.decorator_list:
                    self.helpers[n.name] = (n, True, False)
            if repo is not None:
                # private functions imported from other modules of the package are helpers too
                from . import canon_c11 as C
                for name, fdef in C.Scope(mod=mod, repo=repo).functions.items():
                    if name not in self.helpers and C.Scope.private(name):
                        self.helpers[name] = (fdef, True, False)

    @staticmethod
    def truthy(v, node=None):
        """Python truth value of an int: z != 0"""
        if v.kind == "Z":
            return B(coq="(negb (%s =? 0))" % v.coq)
        _need(v.kind == "B", "truth value of a %s" % v.kind, node)
        return v

    def arg(self, e, env):
        """value of a sub-expression in operand position: a res-valued one is bound first"""
        v = self.expr(e, env)
        if v.kind in ("RZ", "RA", "RT"):
            _need(self.cond_depth == 0, "a sub-expression that may raise is evaluated conditionally", e)
            x = self.fresh("r")
            self.pending.append((x, v.coq))
            return V(v.kind[1:], x)
        return v

    def fresh(self, base):
        self.counter += 1
        base = "".join(c if c.isalnum() else "_" for c in base).strip("_") or "v"
        return "%s_%d" % (base, self.counter)

    # ---- expressions ---------------------------------------------------------------------------
    def expr(self, e, env):
        if isinstance(e, ast.Constant):
            v = e.value
            if isinstance(v, bool):
                return B(static=v)
            if isinstance(v, int):
                return Z("(%d)" % v)
            if v is None:
                return V("NONE")
            if isinstance(v, str):
                return V("STR", static=v)
            raise Unsupported("constant %r" % (v,))
        if isinstance(e, (ast.Name, ast.Attribute)):
            u = _u(e)
            if u in env:
                return env[u]
            if u == "np.nan":
                return V("S", "(None : oq)")
            if isinstance(e, ast.Name) and u in self.modconsts:
                return self.expr(self.modconsts[u], {})
            if isinstance(e, ast.Attribute) and e.attr in ("size",):
                a = self.arg(e.value, env)
                _need(a.kind == "A", ".size of a %s" % a.kind, e)
                return Z("(zlen %s)" % a.coq)
            raise Unsupported("unbound %s" % u)
        if isinstance(e, ast.UnaryOp):
            v = self.arg(e.operand, env)
            if isinstance(e.op, ast.Not):
                v = self.truthy(v, e)
                return B(static=not v.static) if v.is_static_bool() else B(coq="(negb %s)" % v.coq)
            if isinstance(e.op, ast.USub) and v.kind == "Z":
                return Z("(- %s)" % v.coq)
            raise Unsupported("unary %s" % _u(e))
        if isinstance(e, ast.BoolOp):
            is_and = isinstance(e.op, ast.And)
            parts = []
            for i_, sub in enumerate(e.values):   # left to right, short-circuit on static values
                self.cond_depth += 1 if i_ else 0
                try:
                    v = self.arg(sub, env)
                finally:
                    self.cond_depth -= 1 if i_ else 0
                v = self.truthy(v, sub)
                if v.is_static_bool():
                    if v.static != is_and:  # False in `and` / True in `or` decides
                        if not parts:
                            return B(static=v.static)
                        # earlier dynamic operands still decide whether we get here; result is
                        # (p1 && ... && false) = false only if all p are total: they are (pure)
                        return B(static=v.static)
                    continue
                parts.append(v.coq)
            if not parts:
                return B(static=is_and)
            if len(parts) == 1:
                return B(coq=parts[0])
            return B(coq="(" + (" && " if is_and else " || ").join(parts) + ")")
        if isinstance(e, ast.Compare):
            if len(e.ops) == 1 and isinstance(e.ops[0], (ast.In, ast.NotIn)):
                a = self.arg(e.left, env)
                lit = e.comparators[0]
                _need(a.kind == "STR" and isinstance(lit, (ast.Tuple, ast.List, ast.Set)) and all(
                    isinstance(x, ast.Constant) and isinstance(x.value, str) for x in lit.elts),
                      "membership other than <name> in (<literals>)", e)
                r = a.static in [x.value for x in lit.elts]
                return B(static=r if isinstance(e.ops[0], ast.In) else not r)
            # a < b < c  ==  a < b and b < c (operands are pure)
            vals = [self.arg(x, env) for x in [e.left] + list(e.comparators)]
            parts = [self.compare(op, a, b, e) for op, a, b in zip(e.ops, vals, vals[1:])]
            if len(parts) == 1:
                return parts[0]
            if any(p_.is_static_bool() and not p_.static for p_ in parts):
                return B(static=False)
            dyn = [p_.coq for p_ in parts if not p_.is_static_bool()]
            return B(static=True) if not dyn else B(coq="(" + " && ".join(dyn) + ")")
        if isinstance(e, (ast.Tuple, ast.List)) and e.elts and all(
                isinstance(x, ast.Constant) and isinstance(x.value, str) for x in e.elts):
            return V("STR", static="<text>")       # a tuple of names for a message
        if isinstance(e, ast.IfExp):
            t = self.truthy(self.arg(e.test, env), e)
            if t.is_static_bool():
                return self.arg(e.body if t.static else e.orelse, env)
            self.cond_depth += 1
            try:
                a, b = self.arg(e.body, env), self.arg(e.orelse, env)
            finally:
                self.cond_depth -= 1
            if a.kind == "STR" and b.kind == "STR":
                return V("STR", static="<text>")   # a message text: never compared
            _need(a.kind == b.kind and a.kind in ("Z", "B", "S", "A", "I"),
                  "conditional expression between %s and %s" % (a.kind, b.kind), e)
            return V(a.kind, "(if %s then %s else %s)" % (t.coq, a.coq, b.coq))
        if isinstance(e, ast.BinOp):
            return self.binop(e, env)
        if isinstance(e, ast.Subscript):
            return self.subscript(e, env)
        if isinstance(e, ast.Call):
            return self.call(e, env)
        raise Unsupported("expression %s" % _u(e))

    def compare(self, op, a, b, node):
        if isinstance(op, (ast.Is, ast.IsNot)):
            _need(b.kind == "NONE", "`is` against something else than None", node)
            _need(a.kind in ("NONE", "Z", "L"), "`is None` on kind %s" % a.kind, node)
            r = a.kind == "NONE"
            return B(static=r if isinstance(op, ast.Is) else not r)
        if isinstance(op, (ast.Eq, ast.NotEq)):
            neg = isinstance(op, ast.NotEq)
            if a.kind == "STR" and b.kind == "STR":
                return B(static=(a.static == b.static) != neg)
            if {a.kind, b.kind} == {"NONE", "Z"}:        # None == 1 is False, no error
                return B(static=neg)
            if a.kind == "Z" and b.kind == "Z":
                t = "(%s =? %s)" % (a.coq, b.coq)
                return B(coq="(negb %s)" % t if neg else t)
            raise Unsupported("== on %s %s: %s" % (a.kind, b.kind, _u(node)))
        sym = {ast.Lt: "<?", ast.LtE: "<=?", ast.Gt: ">?", ast.GtE: ">=?"}.get(type(op))
        _need(sym is not None and a.kind == "Z" and b.kind == "Z",
              "comparison on %s %s" % (a.kind, b.kind), node)
        return B(coq="(%s %s %s)" % (a.coq, sym, b.coq))

    def binop(self, e, env):
        a, b = self.arg(e.left, env), self.arg(e.right, env)
        k = (type(e.op), a.kind, b.kind)
        if a.kind == "Z" and b.kind == "Z":
            if type(e.op) in (ast.Add, ast.Sub, ast.Mult):
                sym = {ast.Add: "+", ast.Sub: "-", ast.Mult: "*"}[type(e.op)]
                return Z("(%s %s %s)" % (a.coq, sym, b.coq))
            if isinstance(e.op, ast.Mod):
                return Z("(%s mod %s)" % (a.coq, b.coq))   # Python % = Z.modulo (sign of divisor)
        if k == (ast.Sub, "S", "S"):
            return V("S", "(sq_sub %s %s)" % (a.coq, b.coq))
        if k == (ast.Div, "S", "Z"):
            return V("S", "(sq_divz %s %s)" % (a.coq, b.coq))
        if k == (ast.Add, "I", "Z"):
            return V("I", "(map (fun i_ => i_ + %s) %s)" % (b.coq, a.coq))
        if k == (ast.Sub, "I", "Z"):
            return V("I", "(map (fun i_ => i_ - %s) %s)" % (b.coq, a.coq))
        if k == (ast.Mult, "I", "S"):
            return V("A", "(sq_scale_idx %s %s)" % (a.coq, b.coq))
        if k == (ast.Add, "S", "A"):
            return V("A", "(sq_add_arr %s %s)" % (a.coq, b.coq))
        raise Unsupported("binary operation on %s %s: %s" % (a.kind, b.kind, _u(e)))

    def subscript(self, e, env):
        a = self.arg(e.value, env)
        s = e.slice
        if a.kind == "A":
            if _u(s) == "-1":
                return V("S", "(np_last %s)" % a.coq)
            if _u(s) == "0":
                return V("S", "(np_first %s)" % a.coq)
            if isinstance(s, ast.List) and [_u(x) for x in s.elts] == ["0", "-1"]:
                return V("A", "[np_first %s; np_last %s]" % (a.coq, a.coq))
            i = self.arg(s, env)
            if i.kind == "I":
                return V("RA", "(np_index %s %s)" % (a.coq, i.coq))
        if a.kind == "FH" and _u(s) == "-1":
            return Z("(zlast %s)" % a.coq)
        raise Unsupported("subscript %s" % _u(e))

    def call(self, e, env):
        f = _u(e.func)
        kw = {k.arg: k.value for k in e.keywords}
        args = e.args

        def only(n, kws=()):
            _need(len(args) == n and set(kw) <= set(kws), "arguments of %s" % f, e)

        if f == "len":
            only(1)
            a = self.arg(args[0], env)
            if a.kind in ("A", "FH"):
                return Z("(zlen %s)" % a.coq)
            if a.kind == "Y":
                return Z(a.coq)
            raise Unsupported("len of %s" % a.kind)
        if f in ("max", "min") and len(args) == 2 and not kw:
            a, b = self.arg(args[0], env), self.arg(args[1], env)
            _need(a.kind == "Z" and b.kind == "Z", "%s of integers" % f, e)
            return Z("(Z.%s %s %s)" % (f, a.coq, b.coq))
        if isinstance(e.func, ast.Attribute) and e.func.attr in ("all", "any") and not args and not kw \
                and isinstance(e.func.value, ast.Call) and _u(e.func.value.func) == "np.isnan":
            # np.isnan(a).all()  ==  np.all(np.isnan(a))
            return self.call(ast.Call(func=ast.parse("np." + e.func.attr).body[0].value,
                                      args=[e.func.value], keywords=[]), env)
        if f in ("np.all", "np.any"):
            only(1)
            inner = args[0]
            _need(isinstance(inner, ast.Call) and _u(inner.func) == "np.isnan" and len(inner.args) == 1
                  and not inner.keywords, "%s(np.isnan(<array>)) expected" % f, e)
            a = self.arg(inner.args[0], env)
            _need(a.kind == "A", "np.isnan of %s" % a.kind, e)
            return B(coq="(%s %s)" % ("np_all_isnan" if f == "np.all" else "np_any_isnan", a.coq))
        if f == "np.repeat":
            a0, a1 = bound_args(e, ["a", "repeats"])
            x, n = self.arg(a0, env), self.arg(a1, env)
            _need(x.kind == "S" and n.kind == "Z", "np.repeat(scalar, int)", e)
            return V("A", "(np_repeat %s %s)" % (x.coq, n.coq))
        if f == "np.nanmean":
            a0, ax = bound_args(e, ["a", "axis"], required=1)
            a = self.arg(a0, env)
            if a.kind == "A" and ax is None:
                return V("S", "(nanmean %s)" % a.coq)
            if a.kind == "T" and ax is not None and _u(ax) == "0":
                return V("A", "(np_nanmean_axis0 %s)" % a.coq)
            raise Unsupported("np.nanmean on %s with %s" % (a.kind, sorted(kw)))
        if f == "np.full":
            a0, a1 = bound_args(e, ["shape", "fill_value"])
            n, x = self.arg(a0, env), self.arg(a1, env)
            _need(n.kind == "Z" and x.kind == "S" and x.coq == "(None : oq)", "np.full(int, np.nan)", e)
            return V("A", "(np_full_nan %s)" % n.coq)
        if f in ("np.hstack", "np.concatenate"):     # 1-d arrays: the same
            (tup,) = bound_args(e, ["tup" if f == "np.hstack" else "arrays"])
            _need(isinstance(tup, (ast.List, ast.Tuple)) and len(tup.elts) == 2, "np.hstack([a, b])", e)
            a, b = (self.arg(x, env) for x in tup.elts)
            _need(a.kind == "A" and b.kind == "A", "np.hstack of arrays", e)
            return V("A", "(np_hstack %s %s)" % (a.coq, b.coq))
        if f == "np.tile":
            a0, a1 = bound_args(e, ["A", "reps"])
            a = self.arg(a0, env)
            r = self.arg(a1, env)
            _need(a.kind == "A" and r.kind == "Z", "np.tile(array, int)", e)
            return V("A", "(np_tile %s %s)" % (a.coq, r.coq))
        if f in ("np.int", "int"):
            only(1)
            c = args[0]
            _need(isinstance(c, ast.Call) and _u(c.func) in ("np.ceil", "math.ceil") and len(c.args) == 1
                  and not c.keywords and isinstance(c.args[0], ast.BinOp)
                  and isinstance(c.args[0].op, ast.Div), "int(ceil(a / b)) expected", e)
            a, b = self.arg(c.args[0].left, env), self.arg(c.args[0].right, env)
            _need(a.kind == "Z" and b.kind == "Z", "ceil of an integer quotient", e)
            return Z("(np_ceil_div %s %s)" % (a.coq, b.coq))
        if isinstance(e.func, ast.Attribute) and e.func.attr == "reshape":
            a = self.arg(e.func.value, env)
            only(2)
            _need(a.kind == "A" and _u(args[0]) == "-1", "<array>.reshape(-1, cols)", e)
            c = self.arg(args[1], env)
            _need(c.kind == "Z", "reshape columns", e)
            return V("RT", "(np_reshape_cols %s %s)" % (a.coq, c.coq))
        if isinstance(e.func, ast.Attribute) and e.func.attr in ("to_indexer", "to_relative"):
            h = self.arg(e.func.value, env)
            (c,) = bound_args(e, ["cutoff"])
            _need(h.kind == "FH" and self.arg(c, env).kind == "CUT", "fh.%s(<the cutoff>)" % e.func.attr, e)
            if e.func.attr == "to_relative":
                return h                  # the horizon handed to the kernel is the relative one
            return V("I", "(map gen_fh_indexer %s)" % h.coq)
        if f == "check_sp":
            only(1)
            a = self.arg(args[0], env)
            _need(a.kind == "Z", "check_sp(<int>)", e)
            return V("RZ", "(gen_check_sp %s)" % a.coq)
        if f == "check_window_length":
            only(1)
            a = self.arg(args[0], env)
            if a.kind == "NONE":
                _need(env.get("@cwl_none_ok"), "check_window_length(None) not known to return None")
                return a
            _need(a.kind == "Z", "check_window_length(<int>|None)", e)
            return V("RZ", "(gen_check_window_length %s)" % a.coq)
        if f == "check_fh":
            only(1)
            a = self.arg(args[0], env)
            _need(a.kind == "L", "check_fh(<horizon>)", e)
            return a        # the argument stands for the horizon check_fh returns (validated, sorted)
        if f == "is_int":
            only(1)
            a = self.arg(args[0], env)
            _need(a.kind == "Z", "is_int of %s" % a.kind, e)
            return B(static=True)
        if f == "isinstance":
            only(2)
            a = self.arg(args[0], env)
            _need(a.kind == "Z" and _u(args[1]) == "list", "isinstance(<int>, list)", e)
            return B(static=False)
        raise Unsupported("call %s" % _u(e))

    def select_in_tables(self, st, env):
        ev = self

        class T(ast.NodeTransformer):
            def visit_Subscript(self, n):
                n = self.generic_visit(n)
                if isinstance(n.value, ast.Name) and n.value.id in env and env[n.value.id].kind == "DICT":
                    n = ast.Subscript(value=env[n.value.id].static, slice=n.slice, ctx=n.ctx)
                if isinstance(n.value, ast.Dict) and n.value.keys and all(
                        isinstance(k, ast.Constant) and isinstance(k.value, str) for k in n.value.keys):
                    try:
                        key = ev.expr(n.slice, env)
                    except Unsupported:
                        return n
                    if key.kind == "STR" and key.static in [k.value for k in n.value.keys]:
                        return n.value.values[[k.value for k in n.value.keys].index(key.static)]
                return n

            def visit_FunctionDef(self, n):
                return n
        if isinstance(st, ast.Assign) and isinstance(st.value, ast.Dict):
            return st                               # binding a table to a local: see Assign
        if not any(isinstance(x, ast.Dict) or (isinstance(x, ast.Name) and x.id in env and env[x.id].kind == "DICT")
                   for x in ast.walk(st)):
            return st
        new = copy.copy(st)
        for field in ("value", "test"):
            if getattr(st, field, None) is not None and isinstance(getattr(st, field), ast.expr):
                setattr(new, field, T().visit(copy.deepcopy(getattr(st, field))))
        return new

    # ---- helper calls --------------------------------------------------------------------------
    def is_helper_call(self, n):
        return isinstance(n, ast.Call) and _u(n.func) in self.helpers

    def first_helper_call(self, e, conditional=False):
        """the helper call evaluated first in e (post-order, left to right), or None"""
        if isinstance(e, ast.IfExp):
            kids = [(e.test, conditional), (e.body, True), (e.orelse, True)]
        elif isinstance(e, ast.BoolOp):
            kids = [(v, conditional or i > 0) for i, v in enumerate(e.values)]
        else:
            kids = [(k, conditional) for k in ast.iter_child_nodes(e) if isinstance(k, ast.expr)]
            for k in ast.iter_child_nodes(e):
                if isinstance(k, ast.keyword):
                    kids.append((k.value, conditional))
        for k, c in kids:
            h = self.first_helper_call(k, c)
            if h is not None:
                return h
        if self.is_helper_call(e):
            _need(not conditional, "a helper is called where evaluation is conditional", e)
            return e
        return None

    def inline(self, call, env, k):
        """run the helper's body with its parameters bound; k(value, self-attributes it set)"""
        fn, static, is_method = self.helpers[_u(call.func)]
        params = argnames(fn)
        if is_method and not static:
            _need(params and params[0] == "self", "first parameter of %s" % fn.name)
            params = params[1:]
        _need(len(call.args) <= len(params) and not any(isinstance(a, ast.Starred) for a in call.args),
              "arguments of %s" % fn.name, call)
        cenv = {key: v for key, v in env.items() if key.startswith("self.") or key.startswith("@")
                or key == "self"}
        bound = {}
        for p, a in zip(params, call.args):
            bound[p] = self.arg(a, env)
        for kw in call.keywords:
            _need(kw.arg in params and kw.arg not in bound, "keyword %s of %s" % (kw.arg, fn.name), call)
            bound[kw.arg] = self.arg(kw.value, env)
        defaults = fn.args.defaults
        for p, d in zip(params[len(params) - len(defaults):], defaults):
            if p not in bound:
                bound[p] = self.expr(d, {})
        _need(set(bound) == set(params), "missing arguments of %s" % fn.name, call)
        cenv.update(bound)
        _need(self.depth < 8, "helper calls nested too deeply (recursion?)", call)
        self.depth += 1
        try:
            def upd(e2):
                return {key: v for key, v in e2.items() if key.startswith("self.")}
            return self.run(body_of(fn), cenv, lambda v, e2: k(v, upd(e2)),
                            lambda e2: k(V("NONE"), upd(e2)))
        finally:
            self.depth -= 1

    @staticmethod
    def replace_node(root, target, new):
        class R(ast.NodeTransformer):
            def visit(self, node):
                if node is target:
                    return new
                return self.generic_visit(node)
        # shallow-copy the path: generic_visit mutates in place, so work on a deep copy that keeps
        # the identity of `target` via a marker
        target._marker = True
        dup = copy.deepcopy(root)
        del target._marker
        for n in ast.walk(dup):
            if getattr(n, "_marker", False):
                tgt = n
                break
        else:
            raise Unsupported("internal: helper call not found")

        class R2(ast.NodeTransformer):
            def visit(self, node):
                if node is tgt:
                    return new
                return self.generic_visit(node)
        return R2().visit(dup)

    def wrap(self, binds, body):
        for x, term in reversed(binds):
            if body == "(Ok %s)" % x:
                body = term                     # match r with Err => Err | Ok x => Ok x end  =  r
            else:
                body = "(match %s with Err => Err | Ok %s => %s end)" % (term, x, body)
        return body

    def evaluated(self, e, env, top=True):
        """(value, binds) of an expression root of a statement"""
        saved, self.pending = self.pending, []
        try:
            v = self.expr(e, env) if top else self.arg(e, env)
            return v, self.pending
        finally:
            self.pending = saved

    # ---- statements (continuation passing; result: coq term of type `res <R>`) --------------------
    def run(self, stmts, env, kret, kend):
        """kret(value, env) / kend(env): what to do at `return value` / at the end of the list"""
        if not stmts:
            return kend(env)
        st, rest = stmts[0], stmts[1:]
        if isinstance(st, ast.Pass) or (isinstance(st, ast.Expr) and isinstance(st.value, ast.Constant)
                                        and isinstance(st.value.value, str)):
            return self.run(rest, env, kret, kend)
        if isinstance(st, ast.Expr) and isinstance(st.value, ast.Call) and _u(st.value.func) in self.skip_calls:
            return self.run(rest, env, kret, kend)
        if isinstance(st, ast.Raise):
            _need(isinstance(st.exc, ast.Call) and _u(st.exc.func) == "ValueError" and st.cause is None,
                  "raise ValueError(...) expected", st)
            return "Err"
        # dispatch tables over literals: {"a": x, "b": y}[<static key>] stands for the selected value
        st = self.select_in_tables(st, env)
        # helper calls in the statement's own expressions are inlined first, innermost first
        roots = []
        if isinstance(st, (ast.Return, ast.Assign)) and st.value is not None:
            roots = [st.value]
        elif isinstance(st, ast.If):
            roots = [st.test]
        elif isinstance(st, ast.Expr):
            roots = [st.value]
        for r in roots:
            h = self.first_helper_call(r)
            if h is not None:
                tmp = "@h%d" % (self.counter + 1)
                self.counter += 1
                if isinstance(st, ast.If):
                    new_st = ast.If(test=self.replace_node(st.test, h, ast.Name(id=tmp, ctx=ast.Load())),
                                    body=st.body, orelse=st.orelse)
                else:
                    new_st = copy.copy(st)
                    new_st.value = self.replace_node(st.value, h, ast.Name(id=tmp, ctx=ast.Load()))

                def k(v, selfattrs, tmp=tmp, new_st=new_st):
                    env2 = dict(env)
                    env2.update(selfattrs)
                    env2[tmp] = v
                    if v.kind in ("RZ", "RA", "RT"):
                        x = self.fresh("r")
                        env2[tmp] = V(v.kind[1:], x)
                        return self.wrap([(x, v.coq)], self.run([new_st] + rest, env2, kret, kend))
                    return self.run([new_st] + rest, env2, kret, kend)
                saved, self.pending = self.pending, []
                try:
                    body = self.inline(h, env, k)
                    binds = self.pending
                finally:
                    self.pending = saved
                return self.wrap(binds, body)
        if isinstance(st, ast.Expr):
            # a helper called for its effect on self.<attr> only: its value is dropped
            _need(isinstance(st.value, ast.Name) and st.value.id.startswith("@h"), "expression statement", st)
            return self.run(rest, env, kret, kend)
        if isinstance(st, ast.Return):
            if st.value is None:
                return kret(V("NONE"), env)
            v, binds = self.evaluated(st.value, env)
            return self.wrap(binds, kret(v, env))
        if isinstance(st, ast.If):
            t, binds = self.evaluated(st.test, env, top=False)
            t = self.truthy(t, st)
            if t.is_static_bool():
                return self.wrap(binds, self.run((st.body if t.static else st.orelse) + rest, env, kret, kend))
            return self.wrap(binds, "(if %s then %s else %s)" % (
                t.coq, self.run(st.body + rest, env, kret, kend), self.run(st.orelse + rest, env, kret, kend)))
        if isinstance(st, ast.AugAssign) and type(st.op) in (ast.Add, ast.Sub, ast.Mult) \
                and isinstance(st.target, (ast.Name, ast.Attribute)):
            load = copy.deepcopy(st.target)
            load.ctx = ast.Load()
            return self.run([ast.Assign(targets=[st.target], value=ast.BinOp(load, st.op, st.value))] + rest,
                            env, kret, kend)
        if isinstance(st, ast.Assign) and len(st.targets) > 1:
            # a = b = <expr>: <expr> is pure here, so bind each target in turn
            return self.run([ast.Assign(targets=[t], value=st.value) for t in st.targets] + rest, env, kret, kend)
        if isinstance(st, ast.Assign):
            tg = st.targets[0]
            if isinstance(tg, ast.Tuple):
                _need(isinstance(st.value, ast.Tuple) and len(st.value.elts) == len(tg.elts)
                      and all(isinstance(t, ast.Name) for t in tg.elts), "tuple assignment a, b = x, y", st)
                pairs = list(zip(tg.elts, st.value.elts))
            else:
                pairs = [(tg, st.value)]
            env2 = dict(env)
            binds = []
            if isinstance(st.value, ast.Dict) and isinstance(tg, ast.Name):
                # a literal lookup table bound to a local: kept as syntax, selected from where used
                env2[tg.id] = V("DICT", static=st.value)
                return self.run(rest, env2, kret, kend)
            for t, val in pairs:               # all right-hand sides are evaluated in the OLD env
                _need(isinstance(t, ast.Name) or (isinstance(t, ast.Attribute) and _u(t.value) == "self"),
                      "assignment target", st)
                v, b = self.evaluated(val, env)
                binds += b
                if v.kind in ("RZ", "RA", "RT"):
                    x = self.fresh(_u(t).replace("self.", ""))
                    binds.append((x, v.coq))
                    v = V(v.kind[1:], x)
                env2[_u(t)] = v                # substitution: no `let`
            return self.wrap(binds, self.run(rest, env2, kret, kend))
        raise Unsupported("statement %s" % _u(st)[:120])


def _no_end(what):
    def k(env):
        raise Unsupported("%s: control reaches the end of the function without return" % what)
    return k


# ------------------------------------------------------------------------------------------------
# validators on integer arguments


def _validator(mod, name, extra_env, coqname):
    """`def f(x, <defaulted options>): if x is not None: <tests ... raise>; return x` on an
    INTEGER x (is_int(x) holds, x is not None, x is not a list)."""
    fn = find(mod, name)
    args = argnames(fn)
    _need(len(args) >= 1 and len(fn.args.defaults) == len(args) - 1, "signature of %s" % name)
    ev = Ev()
    env = {args[0]: Z("x")}
    for a, d in zip(args[1:], fn.args.defaults):
        env[a] = ev.expr(d, {})
    env.update(extra_env)

    def kret(v, env2):
        _need(v.kind == "Z", "%s returns a %s" % (name, v.kind))
        return "(Ok %s)" % v.coq

    body = ev.run(body_of(fn), env, kret, _no_end(name))
    # ... and on None it returns None without raising
    ev2 = Ev()
    env_none = dict(env)
    env_none[args[0]] = V("NONE")
    ok = []

    def kret_none(v, env2):
        ok.append(v.kind == "NONE")
        return "(Ok 0)"
    t = ev2.run(body_of(fn), env_none, kret_none, _no_end(name))
    _need(ok == [True] and t == "(Ok 0)", "%s(None) must return None" % name)
    return "Definition %s (x : Z) : res Z := %s.\n" % (coqname, body)


# ------------------------------------------------------------------------------------------------
# NaiveForecaster


STRATS = [("SLast", "last"), ("SMean", "mean"), ("SDrift", "drift")]
INHERITED_MACHINERY = {
    "predict", "_predict", "_predict_fixed_cutoff", "_predict_in_sample", "_predict_moving_cutoff",
    "_get_last_window", "_predict_nan", "update", "update_predict", "update_predict_single",
    "_update_predict_single", "_update_y_X", "_set_y_X", "_update_X", "_set_fh", "_set_cutoff", "cutoff",
    "fh", "check_is_fitted", "_detached_cutoff", "_get_y_pred", "__getattr__", "__getattribute__",
    "__setattr__"}


def _naive_fit(cls, mod, out, repo=None):
    fn = find(cls, "fit")
    _need(argnames(fn) == ["self", "y", "X", "fh"], "NaiveForecaster.fit signature")
    init = find(cls, "__init__")
    _need(argnames(init) == ["self", "strategy", "window_length", "sp"], "NaiveForecaster.__init__ signature")
    inits = [_u(s) for s in body_of(init)]
    for a in ("strategy", "sp", "window_length"):
        _need("self.%s = %s" % (a, a) in inits, "__init__ stores %s verbatim" % a)
    results = {}
    for what in ("wl", "sp"):
        arms = []
        for con, sname in STRATS:
            sub = []
            for wl_none in (True, False):
                ev = Ev(skip_calls=("warn", "self._set_y_X", "self._set_fh"), cls=cls, mod=mod, repo=repo)
                env = {"self.strategy": V("STR", static=sname), "self.sp": Z("sp"),
                       "self.window_length": V("NONE") if wl_none else Z("w"), "self": V("SELF"),
                       "y": V("Y", "n"), "self._y": V("Y", "n"), "@cwl_none_ok": True}

                def kret(value, env2, what=what):
                    _need(value.kind == "SELF", "fit returns self")
                    _need(env2.get("self._is_fitted") is not None and env2["self._is_fitted"].static is True,
                          "fit does not set _is_fitted = True before returning")
                    if what == "wl":
                        v = env2.get("self.window_length_")
                        _need(v is not None and v.kind == "Z", "window_length_ is not an integer at the end of fit")
                        return "(Ok %s)" % v.coq
                    v = env2.get("self.sp_")
                    if v is None:
                        return "(Ok None)"
                    _need(v.kind == "Z", "sp_ kind")
                    return "(Ok (Some %s))" % v.coq
                sub.append(ev.run(body_of(fn), env, kret, _no_end("fit")))
            arms.append("  | %s => match wlo with\n      | None => %s\n      | Some w => %s\n      end"
                        % (con, sub[0], sub[1]))
        results[what] = "\n".join(arms)
    # an unknown strategy name is rejected
    ev = Ev(skip_calls=("warn", "self._set_y_X", "self._set_fh"), cls=cls, mod=mod, repo=repo)
    env = {"self.strategy": V("STR", static="<unknown>"), "self.sp": Z("sp"), "self.window_length": V("NONE"),
           "y": V("Y", "n"), "self._y": V("Y", "n"), "@cwl_none_ok": True, "self": V("SELF")}
    _need(ev.run(body_of(fn), env, lambda v, e: "(Ok 0)", _no_end("fit")) == "Err",
          "fit accepts an unknown strategy name")
    out.append("(* NaiveForecaster.fit: window_length_ after a successful fit, Err = ValueError.  n = len(y). *)\n"
               "Definition gen_resolve_wl (s : strategy) (sp : Z) (wlo : option Z) (n : Z) : res Z :=\n"
               "  match s with\n%s\n  end.\n" % results["wl"])
    out.append("(* ... and sp_ (None = the attribute is not set by fit for this configuration) *)\n"
               "Definition gen_fit_sp (s : strategy) (sp : Z) (wlo : option Z) (n : Z) : res (option Z) :=\n"
               "  match s with\n%s\n  end.\n" % results["sp"])


def _naive_kernel(cls, mod, out, bases=(), repo=None):
    fn = find(cls, "_predict_last_window")
    _need(argnames(fn)[:2] == ["self", "fh"], "_predict_last_window signature")
    b = body_of(fn)
    # the window comes from the inherited _get_last_window: `<name>, <ignored> = self._get_last_window()`
    st = b[0] if b else None
    _need(isinstance(st, ast.Assign) and len(st.targets) == 1 and isinstance(st.targets[0], ast.Tuple)
          and len(st.targets[0].elts) == 2 and all(isinstance(t, ast.Name) for t in st.targets[0].elts)
          and isinstance(st.value, ast.Call) and _u(st.value.func) == "self._get_last_window"
          and not st.value.args and not st.value.keywords,
          "first statement: <window>, <X> = self._get_last_window()", st)
    wname, xname = (t.id for t in st.targets[0].elts)
    _need(not any(isinstance(n, ast.Name) and n.id == xname and isinstance(n.ctx, ast.Load)
                  for n in ast.walk(fn)) or xname == wname, "the window of X is used")
    arms = []
    for con, sname in STRATS:
        ev = Ev(cls=cls, mod=mod, bases=bases, repo=repo)
        # self.sp_ = check_sp(self.sp) = self.sp wherever fit sets it (Bridge: bridge_fit_sp)
        env = {"self.strategy": V("STR", static=sname), "self.sp": Z("sp"), "self.sp_": Z("sp"),
               wname: V("A", "w"), "fh": V("FH", "hs"), "self.cutoff": V("CUT"),
               "self": V("SELF")}

        def kret(v, env2):
            if v.kind == "A":
                return "(Ok %s)" % v.coq
            _need(v.kind == "RA", "_predict_last_window returns a %s" % v.kind)
            return v.coq
        arms.append("  | %s => %s" % (con, ev.run(b[1:], env, kret, _no_end("_predict_last_window"))))
    out.append("(* NaiveForecaster._predict_last_window on the window w (what _get_last_window returned) for the\n"
               "   relative steps hs; Err = ValueError / IndexError *)\n"
               "Definition gen_kernel (s : strategy) (sp : Z) (w : list oq) (hs : list Z) : res (list oq) :=\n"
               "  match s with\n%s\n  end.\n" % "\n".join(arms))


# ------------------------------------------------------------------------------------------------
# one-liners of the surrounding machinery, by shape


def _int_expr(e, env):
    if _u(e) in env:                  # a named sub-expression (e.g. `self.to_pandas()` -> r)
        return env[_u(e)]
    if isinstance(e, ast.Constant) and isinstance(e.value, int) and not isinstance(e.value, bool):
        return "(%d)" % e.value
    if isinstance(e, (ast.Name, ast.Attribute)):
        u = _u(e)
        _need(u in env, "unbound %s" % u)
        return env[u]
    if isinstance(e, ast.UnaryOp) and isinstance(e.op, ast.USub):
        return "(- %s)" % _int_expr(e.operand, env)
    if isinstance(e, ast.BinOp) and type(e.op) in (ast.Add, ast.Sub, ast.Mult):
        return "(%s %s %s)" % (_int_expr(e.left, env), {ast.Add: "+", ast.Sub: "-", ast.Mult: "*"}[type(e.op)],
                               _int_expr(e.right, env))
    if isinstance(e, ast.Call) and _u(e.func) == "len" and len(e.args) == 1 and _u(e.args[0]) in env:
        return env[_u(e.args[0])]
    raise Unsupported("integer expression %s" % _u(e))


def _unique(fn, pred, what):
    hits = [n for n in ast.walk(fn) if isinstance(n, ast.stmt) and pred(n)]
    _need(len(hits) == 1, "%s: expected exactly one such statement in %s, found %d" % (what, fn.name, len(hits)))
    return hits[0]


def _assign_to(fn, target, what=None):
    return _unique(fn, lambda n: isinstance(n, ast.Assign) and len(n.targets) == 1
                   and _u(n.targets[0]) == target, what or ("assignment to " + target)).value


# ---- pins by data flow: canonical decision trees (translator/canon_c11.py) -------------------------

DATETIME_TYPES = ("pd.Timestamp", "pd.DatetimeIndex", "pd.PeriodIndex", "pd.Period")


def _integer_time(test):
    """decision of a test on an INTEGER time index / cutoff: isinstance(x, <datetime types>) is False"""
    t = _u(test)
    if isinstance(test, ast.BoolOp) and isinstance(test.op, ast.And):
        if any(_integer_time(v) is False for v in test.values):
            return False
    if isinstance(test, ast.Call) and _u(test.func) == "isinstance" and len(test.args) == 2:
        types = test.args[1].elts if isinstance(test.args[1], ast.Tuple) else [test.args[1]]
        if all(_u(x) in DATETIME_TYPES for x in types):
            return False
    return None


def select(t, decide, what):
    """walk the canonical tree along the decided tests; returns (effects on the way, leaf)"""
    from . import canon_c11 as C
    effs = []
    while True:
        if t[0] == "IF":
            d = decide(t[1])
            if d is None:
                # a validation: one side only raises - the pin describes the accepted inputs
                if C.only_raises(t[2]) and not C.only_raises(t[3]):
                    d = False
                elif C.only_raises(t[3]) and not C.only_raises(t[2]):
                    d = True
            _need(d is not None, "%s: cannot decide the test" % what, t[1])
            t = t[2] if d else t[3]
        elif t[0] in ("EFF", "OPAQUE", "ASSERT"):
            effs.append(t)
            t = t[2]
        else:
            return effs, t


def _decider(table, none=None):
    """three-valued evaluation of a test: `table` gives the truth of named sub-tests (by their text),
    `none` says which expressions are None; datetime isinstance tests are False on an integer
    time axis; `<arithmetic> is None` is False; not / and / or compose"""
    none = none or {}

    def val(t):
        u = _u(t)
        if u in table:
            return table[u]
        if isinstance(t, ast.Constant) and isinstance(t.value, bool):
            return t.value
        if isinstance(t, ast.UnaryOp) and isinstance(t.op, ast.Not):
            v = val(t.operand)
            return None if v is None else not v
        if isinstance(t, ast.BoolOp):
            vs = [val(x) for x in t.values]
            if isinstance(t.op, ast.And):
                return False if any(v is False for v in vs) else (True if all(v is True for v in vs) else None)
            return True if any(v is True for v in vs) else (False if all(v is False for v in vs) else None)
        if isinstance(t, ast.Compare) and len(t.ops) == 1 and isinstance(t.ops[0], (ast.Is, ast.IsNot)) \
                and isinstance(t.comparators[0], ast.Constant) and t.comparators[0].value is None:
            le = t.left
            if _u(le) in none:
                r = none[_u(le)]
            elif isinstance(le, ast.Constant):
                r = le.value is None
            elif isinstance(le, (ast.BinOp, ast.Tuple, ast.List, ast.Dict)):
                r = False                      # the value of an arithmetic expression / a display is not None
            else:
                return None
            return r if isinstance(t.ops[0], ast.Is) else not r
        return _integer_time(t)
    return val


def _ret_call(leaf, callee, what):
    _need(leaf[0] == "RET" and isinstance(leaf[1], ast.Call) and _u(leaf[1].func) == callee,
          "%s: expected return %s(...)" % (what, callee), leaf[1] if len(leaf) > 1 and leaf[1] is not None else None)
    return leaf[1]


def _kw(call):
    return {k.arg: k.value for k in call.keywords}


def fh_exprs(repo, out):
    from . import canon_c11 as C
    with open(os.path.join(repo, "sktime/forecasting/base/_fh.py")) as f:
        mod = ast.parse(f.read())
    cls = find(mod, "ForecastingHorizon")
    scope = C.Scope(cls=cls, mod=mod, repo=repo)

    def new_horizon(leaf, what):
        """the leaf returns a new horizon: type(self)(<values>, <is_relative>) - reached through the
        private constructor-like helper (whatever its name: it is inlined) or written out"""
        c = leaf[1] if leaf[0] == "RET" else None
        _need(isinstance(c, ast.Call) and _u(c.func) in ("type(self)", "self.__class__", "ForecastingHorizon"),
              "%s: expected to return a new horizon type(self)(values, is_relative)" % what, c)
        return bound_args(c, ["values", "is_relative"])
    init = find(cls, "__init__")
    _need(argnames(init)[:3] == ["self", "values", "is_relative"], "ForecastingHorizon.__init__(values, is_relative)")
    # to_indexer(cutoff, from_cutoff=True) = self.to_relative(cutoff).to_pandas() <op> k
    fn = find(cls, "to_indexer")
    _need(argnames(fn) == ["self", "cutoff", "from_cutoff"] and [_u(d) for d in fn.args.defaults] == ["None", "True"],
          "to_indexer signature / defaults")
    _, leaf = select(C.of(fn, scope), _decider({"from_cutoff": True}), "to_indexer")
    r = leaf[1] if leaf[0] == "RET" else None
    _need(isinstance(r, ast.BinOp) and _u(r.left) == "self.to_relative(cutoff).to_pandas()",
          "to_indexer returns <relative steps> <op> k", r)
    out.append("Definition gen_fh_indexer (r : Z) : Z := %s.\n"
               % _int_expr(ast.BinOp(ast.Name("r"), r.op, r.right), {"r": "r"}))
    # to_absolute on a relative horizon / integer cutoff: self._new(cutoff + self.to_pandas(), is_relative=False)
    fn = find(cls, "to_absolute")
    _need(argnames(fn) == ["self", "cutoff"], "to_absolute signature")
    _, leaf = select(C.of(fn, scope), _decider({"self.is_relative": True}), "to_absolute")
    vals, isrel = new_horizon(leaf, "to_absolute")
    c = leaf[1]
    _need(_u(isrel) == "False", "to_absolute returns self._new(<absolute>, is_relative=False)", c)
    out.append("Definition gen_fh_abs (cutoff r : Z) : Z := %s.\n"
               % _int_expr(vals, {"cutoff": "cutoff", "self.to_pandas()": "r"}))
    _, leaf = select(C.of(fn, scope), _decider({"self.is_relative": False}), "to_absolute")
    _need([_u(x) for x in new_horizon(leaf, "to_absolute")] == ["self._values", "self.is_relative"],
          "to_absolute is the identity on an absolute horizon")
    # to_relative on an absolute horizon / integer cutoff: self._new(self.to_pandas() - cutoff, is_relative=True)
    fn = find(cls, "to_relative")
    _, leaf = select(C.of(fn, scope), _decider({"self.is_relative": False}), "to_relative")
    vals, isrel = new_horizon(leaf, "to_relative")
    c = leaf[1]
    _need(_u(isrel) == "True", "to_relative returns self._new(<relative>, is_relative=True)", c)
    out.append("Definition gen_fh_rel (cutoff t : Z) : Z := %s.\n"
               % _int_expr(vals, {"cutoff": "cutoff", "self.to_pandas()": "t"}))
    _, leaf = select(C.of(fn, scope), _decider({"self.is_relative": True}), "to_relative")
    _need([_u(x) for x in new_horizon(leaf, "to_relative")] == ["self._values", "self.is_relative"],
          "to_relative is the identity on a relative horizon")
    # to_absolute_int(start, cutoff) = self._new(self.to_absolute(cutoff).to_pandas() - start, is_relative=False)
    fn = find(cls, "to_absolute_int")
    _need(argnames(fn) == ["self", "start", "cutoff"], "to_absolute_int signature")
    _, leaf = select(C.of(fn, scope), _decider({}), "to_absolute_int")
    vals, isrel = new_horizon(leaf, "to_absolute_int")
    c = leaf[1]
    _need(_u(isrel) == "False", "to_absolute_int returns self._new(<integers>, is_relative=False)", c)
    ABS = ("self.to_absolute(cutoff).to_pandas()", "self.to_absolute(cutoff=cutoff).to_pandas()")
    out.append("Definition gen_fh_abs_int (start t : Z) : Z := %s.\n"
               % _int_expr(vals, dict({"start": "start"}, **{a: "t" for a in ABS})))


def window_exprs(repo, out):
    from . import canon_c11 as C
    with open(os.path.join(repo, "sktime/forecasting/base/_sktime.py")) as f:
        mod = ast.parse(f.read())
    cls = find(mod, "_BaseWindowForecaster")
    # private helpers are inlined wherever they live; the hooks below are the roles the pins talk about
    scope = C.Scope(cls=cls, bases=[find(mod, "_SktimeForecaster")], mod=mod, repo=repo,
                    keep={"_predict_fixed_cutoff", "_predict_in_sample", "_predict_moving_cutoff",
                          "_predict_last_window", "_get_last_window", "_shift", "_predict"})
    # _predict: all out-of-sample -> one call at the cutoff; all in-sample -> moving cutoffs; else both
    fn = find(cls, "_predict")
    _need(argnames(fn)[:2] == ["self", "fh"], "_predict signature")
    t = C.of(fn, scope)
    def is_fh_method(e, name, base="fh"):
        return (isinstance(e, ast.Call) and isinstance(e.func, ast.Attribute) and e.func.attr == name
                and _u(e.func.value) == base and len(e.args) + len(e.keywords) == 1
                and _u(call_arg(e, 0, "cutoff")) == "self.cutoff")

    def dispatch(oos, ins):
        def decide(test):
            if _u(test) == "return_pred_int":
                return False
            if is_fh_method(test, "is_all_out_of_sample"):
                return oos
            if is_fh_method(test, "is_all_in_sample"):
                return ins
            return None
        return decide

    def fixed(c):
        return (isinstance(c, ast.Call) and _u(c.func) == "self._predict_fixed_cutoff"
                and call_arg(c, 0, "fh") is not None and is_fh_method(call_arg(c, 0, "fh"), "to_out_of_sample"))

    def insample(c):
        return (isinstance(c, ast.Call) and _u(c.func) == "self._predict_in_sample"
                and call_arg(c, 0, "fh") is not None and is_fh_method(call_arg(c, 0, "fh"), "to_in_sample"))
    e1, l1 = select(t, dispatch(True, False), "_predict")
    e2, l2 = select(t, dispatch(False, True), "_predict")
    e3, l3 = select(t, dispatch(False, False), "_predict")
    _need(not (e1 or e2 or e3), "_predict: effects before the dispatch")
    _need(l1[0] == "RET" and fixed(l1[1]), "_predict: out-of-sample horizons are served by _predict_fixed_cutoff")
    _need(l2[0] == "RET" and insample(l2[1]), "_predict: in-sample horizons are served by _predict_in_sample")
    m = l3[1] if l3[0] == "RET" else None
    _need(isinstance(m, ast.Call) and isinstance(m.func, ast.Attribute) and m.func.attr == "append"
          and insample(m.func.value) and len(m.args) == 1 and fixed(m.args[0]) and not m.keywords,
          "_predict: mixed horizons = in-sample .append( out-of-sample )")
    # _predict_fixed_cutoff: one _predict_last_window call, labelled (index site: C03/Site.v)
    fn = find(cls, "_predict_fixed_cutoff")
    _, leaf = select(C.of(fn, scope), _decider({}), "_predict_fixed_cutoff")
    c = _ret_call(leaf, "pd.Series", "_predict_fixed_cutoff")
    data = call_arg(c, 0, "data")
    _need(isinstance(data, ast.Call) and _u(data.func) == "self._predict_last_window"
          and call_arg(data, 0, "fh") is not None and _u(call_arg(data, 0, "fh")) == "fh",
          "_predict_fixed_cutoff calls _predict_last_window(fh, ...)")
    # _predict_in_sample: _predict_moving_cutoff(self._y, CutoffSplitter(<cutoffs>, fh=k, window_length=
    # self.window_length_), ..., update_params=False)
    fn = find(cls, "_predict_in_sample")
    _, leaf = select(C.of(fn, scope), _decider({}), "_predict_in_sample")
    c = _ret_call(leaf, "self._predict_moving_cutoff", "_predict_in_sample")
    args = {**{i: a for i, a in enumerate(c.args)}, **_kw(c)}
    y_arg, cv = args.get(0, args.get("y")), args.get(1, args.get("cv"))
    _need(y_arg is not None and _u(y_arg) == "self._y" and _u(args.get("update_params", ast.Constant(None))) == "False",
          "_predict_in_sample: _predict_moving_cutoff(self._y, cv, ..., update_params=False)", c)
    _need(isinstance(cv, ast.Call) and _u(cv.func) == "CutoffSplitter", "cv = CutoffSplitter(...)", cv)
    cva = {**{i: a for i, a in enumerate(cv.args)}, **_kw(cv)}
    cut, step, wl = cva.get(0, cva.get("cutoffs")), cva.get(1, cva.get("fh")), cva.get(2, cva.get("window_length"))
    _need(cut is not None and step is not None and wl is not None and _u(wl) == "self.window_length_",
          "CutoffSplitter(cutoffs, fh=k, window_length=self.window_length_)", cv)
    def cutx(e):
        if is_fh_method(e, "to_relative"):
            return "r"
        if isinstance(e, ast.BinOp) and type(e.op) in (ast.Add, ast.Sub):
            return "(%s %s %s)" % (cutx(e.left), "+" if isinstance(e.op, ast.Add) else "-", cutx(e.right))
        if isinstance(e, ast.Call) and _u(e.func) == "len" and len(e.args) == 1 and _u(e.args[0]) == "self._y":
            return "n"
        return _int_expr(e, {})
    out.append("(* position of the moved cutoff for the in-sample step r, n = len(self._y) *)\n"
               "Definition gen_insample_cutoff (r n : Z) : Z := %s.\n" % cutx(cut))
    out.append("Definition gen_insample_step : Z := %s.\n" % _int_expr(step, {}))
    # _get_last_window: self._y.loc[_shift(self.cutoff, by=<e>) : self.cutoff] by label
    fn = find(cls, "_get_last_window")
    _need(argnames(fn) == ["self"], "_get_last_window signature")
    starts = set()
    for decide_x in (True, False):
        _, leaf = select(C.of(fn, scope), _decider({}, none={"self._X": not decide_x}), "_get_last_window")
        _need(leaf[0] == "RET" and isinstance(leaf[1], ast.Tuple) and len(leaf[1].elts) == 2, "_get_last_window returns (y, X)")
        y = leaf[1].elts[0]
        _need(isinstance(y, ast.Call) and isinstance(y.func, ast.Attribute) and y.func.attr == "to_numpy"
              and isinstance(y.func.value, ast.Subscript) and _u(y.func.value.value) == "self._y.loc"
              and isinstance(y.func.value.slice, ast.Slice) and y.func.value.slice.step is None
              and y.func.value.slice.upper is not None and _u(y.func.value.slice.upper) == "self.cutoff",
              "y = self._y.loc[<start>:self.cutoff].to_numpy()", y)
        st = y.func.value.slice.lower
        _need(isinstance(st, ast.Call) and _u(st.func) == "_shift", "start = _shift(self.cutoff, by=...)", st)
        sx, sby = bound_args(st, ["x", "by"])
        _need(_u(sx) == "self.cutoff", "start = _shift(self.cutoff, by=...)", st)
        starts.add(_int_expr(sby, {"self.window_length_": "wl"}))
    _need(len(starts) == 1, "_get_last_window: different windows with / without X")
    out.append("(* first label of the last window (the last one is the cutoff c); _shift(x, by) = x + by *)\n"
               "Definition gen_window_start (c wl : Z) : Z := (c + %s).\n" % starts.pop())
    with open(os.path.join(repo, "sktime/utils/datetime.py")) as f:
        sh = find(ast.parse(f.read()), "_shift")
    _need(argnames(sh) == ["x", "by"], "_shift signature")
    _, leaf = select(C.of(sh), _decider({}), "_shift")
    _need(leaf[0] == "RET" and _u(leaf[1]) in ("x + by", "by + x"), "_shift(x, by) = x + by on an integer")


# ------------------------------------------------------------------------------------------------
# PolynomialTrendForecaster


def poly(repo, out):
    from . import canon_c11 as C
    with open(os.path.join(repo, "sktime/forecasting/trend.py")) as f:
        mod = ast.parse(f.read())
    cls = find(mod, "PolynomialTrendForecaster")
    init = find(cls, "__init__")
    _need(argnames(init) == ["self", "regressor", "degree", "with_intercept"]
          and [_u(d) for d in init.args.defaults] == ["None", "1", "True"], "PolynomialTrendForecaster.__init__")
    inits = [_u(s) for s in body_of(init)]
    for a in ("regressor", "degree", "with_intercept"):
        _need("self.%s = %s" % (a, a) in inits, "__init__ stores %s verbatim" % a)
    # fit with the default regressor and no exogenous data: the effects, in order
    scope = C.Scope(cls=cls, mod=mod, repo=repo, keep={"_get_duration", "_set_y_X", "_set_fh"})
    fn = find(cls, "fit")
    _need(argnames(fn) == ["self", "y", "X", "fh"], "PolynomialTrendForecaster.fit signature")
    effs, leaf = select(C.of(fn, scope), _decider({}, none={"X": True, "self.regressor": True}), "PolynomialTrendForecaster.fit")
    _need(leaf[0] == "RET" and _u(leaf[1]) == "self", "fit returns self")
    _need(all(e[0] == "EFF" for e in effs), "fit: loop / assert in the body")
    st = [e[1] for e in effs]
    texts = [" ".join(_u(x).split()) for x in st]
    _need(texts[:2] == ["self._set_y_X(y, X)", "self._set_fh(fh)"] and texts[-1] == "self._is_fitted = True"
          and len(st) == 5, "fit: _set_y_X; _set_fh; regressor_ = ...; regressor_.fit(...); _is_fitted = True (got %s)" % texts)
    p, fitcall = st[2], st[3]
    _need(isinstance(p, ast.Assign) and _u(p.targets[0]) == "self.regressor_" and isinstance(p.value, ast.Call)
          and _u(p.value.func) == "make_pipeline" and len(p.value.args) == 2
          and not any(isinstance(a, ast.Starred) for a in p.value.args) and not p.value.keywords,
          "self.regressor_ = make_pipeline(<features>, <regressor>)", p)
    pf, lr = p.value.args
    _need(isinstance(lr, ast.Call) and _u(lr.func) == "LinearRegression" and not lr.args
          and list(_kw(lr)) == ["fit_intercept"] and isinstance(_kw(lr)["fit_intercept"], ast.Constant)
          and isinstance(_kw(lr)["fit_intercept"].value, bool), "default regressor LinearRegression(fit_intercept=<bool>)", lr)
    out.append("Definition gen_poly_fit_intercept : bool := %s.\n"
               % ("true" if _kw(lr)["fit_intercept"].value else "false"))
    _need(isinstance(pf, ast.Call) and _u(pf.func) == "PolynomialFeatures" and len(pf.args) <= 1
          and sorted(list(_kw(pf)) + (["degree"] if pf.args else [])) == ["degree", "include_bias"],
          "PolynomialFeatures(degree=, include_bias=)", pf)
    ev = Ev()
    d = ev.expr(call_arg(pf, 0, "degree"), {"self.degree": Z("degree")})
    _need(d.kind == "Z", "degree expression")
    out.append("Definition gen_poly_degree (degree : Z) : Z := %s.\n" % d.coq)
    ib = ev.expr(_kw(pf)["include_bias"], {"self.with_intercept": B(coq="with_intercept")})
    _need(ib.kind == "B", "include_bias expression")
    out.append("Definition gen_poly_include_bias (with_intercept : bool) : bool := %s.\n" % ib.coq)
    # the user's regressor, when given, replaces only the second pipeline step
    effs2, _ = select(C.of(fn, scope), _decider({}, none={"X": True, "self.regressor": False}), "PolynomialTrendForecaster.fit")
    p2 = effs2[2][1]
    _need(isinstance(p2, ast.Assign) and isinstance(p2.value, ast.Call) and len(p2.value.args) == 2
          and _u(p2.value.args[0]) == _u(pf) and _u(p2.value.args[1]) == "self.regressor",
          "with a user regressor: make_pipeline(<same features>, self.regressor)")
    # regressor_.fit(np.arange(<n_timepoints>).reshape(-1, 1), y)
    fc = fitcall.value if isinstance(fitcall, ast.Expr) else None
    _need(isinstance(fc, ast.Call) and _u(fc.func) == "self.regressor_.fit", "self.regressor_.fit(<X>, y)", fitcall)
    x, fy = bound_args(fc, ["X", "y"])
    _need(_u(fy) == "y", "self.regressor_.fit(<X>, y)", fitcall)
    _need(isinstance(x, ast.Call) and isinstance(x.func, ast.Attribute) and x.func.attr == "reshape"
          and [_u(a) for a in x.args] == ["-1", "1"] and isinstance(x.func.value, ast.Call)
          and _u(x.func.value.func) == "np.arange" and not x.func.value.keywords and 1 <= len(x.func.value.args) <= 2,
          "X = np.arange(...).reshape(-1, 1)", x)
    ar = x.func.value
    DUR = "_get_duration(self._y.index, coerce_to_int=True)"

    def nt(e):
        if _u(e) == DUR:
            return "(last_ - first)"
        if isinstance(e, ast.BinOp) and type(e.op) in (ast.Add, ast.Sub, ast.Mult):
            return "(%s %s %s)" % (nt(e.left), {ast.Add: "+", ast.Sub: "-", ast.Mult: "*"}[type(e.op)], nt(e.right))
        return _int_expr(e, {})
    lo = "0" if len(ar.args) == 1 else nt(ar.args[0])
    out.append("(* np.arange(lo, hi) of the design matrix; first / last_ = self._y.index[0] / [-1];\n"
               "   _get_duration(index) = last_ - first on integers *)\n"
               "Definition gen_poly_time_lo (first last_ : Z) : Z := %s.\n"
               "Definition gen_poly_time_hi (first last_ : Z) : Z := %s.\n" % (lo, nt(ar.args[-1])))
    out.append("Definition gen_poly_time_axis (first last_ : Z) : list Z :=\n"
               "  zrange (gen_poly_time_lo first last_) (gen_poly_time_hi first last_) 1.\n")
    # _get_duration on an integer index: x[-1] - x[0]
    with open(os.path.join(repo, "sktime/utils/datetime.py")) as f:
        gd = find(ast.parse(f.read()), "_get_duration")
    _need(argnames(gd)[:2] == ["x", "y"] and _u(gd.args.defaults[0]) == "None", "_get_duration signature")
    _, leaf = select(C.of(gd), _decider({}, none={"y": True}), "_get_duration")
    _need(leaf[0] == "RET" and _u(leaf[1]) == "check_time_index(x)[-1] - check_time_index(x)[0]",
          "_get_duration(index) = index[-1] - index[0]", leaf[1])
    # _predict
    fn = find(cls, "_predict")
    _need(argnames(fn)[:2] == ["self", "fh"], "PolynomialTrendForecaster._predict signature")
    effs, leaf = select(C.of(fn, scope), _decider({"return_pred_int": False}, none={"X": True}), "PolynomialTrendForecaster._predict")
    _need(not effs, "_predict: effects")
    c = _ret_call(leaf, "pd.Series", "PolynomialTrendForecaster._predict")
    yp, ix = bound_args(c, ["data", "index"])
    _need(isinstance(ix, ast.Call) and _u(ix.func) == "self.fh.to_absolute"
          and _u(bound_args(ix, ["cutoff"])[0]) == "self.cutoff",
          "return pd.Series(<y_pred>, index=self.fh.to_absolute(self.cutoff))", c)
    out.append("Definition gen_poly_index (cutoff r : Z) : Z := gen_fh_abs cutoff r.\n")
    _need(isinstance(yp, ast.Call) and _u(yp.func) == "self.regressor_.predict",
          "y_pred = self.regressor_.predict(<X_pred>)", yp)
    (xp,) = bound_args(yp, ["X"])
    _need(isinstance(xp, ast.Call) and isinstance(xp.func, ast.Attribute) and xp.func.attr == "reshape"
          and [_u(a) for a in xp.args] == ["-1", "1"] and isinstance(xp.func.value, ast.Call)
          and isinstance(xp.func.value.func, ast.Attribute) and xp.func.value.func.attr == "to_numpy"
          and not xp.func.value.args, "X_pred = <horizon>.to_numpy().reshape(-1, 1)", xp)
    t = xp.func.value.func.value
    _need(isinstance(t, ast.Call) and _u(t.func) == "self.fh.to_absolute_int",
          "self.fh.to_absolute_int(self._y.index[k], self.cutoff)", t)
    t_start, t_cut = bound_args(t, ["start", "cutoff"])
    _need(isinstance(t_start, ast.Subscript) and _u(t_start.value) == "self._y.index" and _u(t_cut) == "self.cutoff",
          "self.fh.to_absolute_int(self._y.index[k], self.cutoff)", t)
    out.append("(* python position in self._y.index of the time point that becomes 0 on the prediction axis *)\n"
               "Definition gen_poly_origin_pos : Z := %s.\n" % _int_expr(t_start.slice, {}))
    out.append("(* the value of the time variable for the relative step r *)\n"
               "Definition gen_poly_pred_time (start cutoff r : Z) : Z := gen_fh_abs_int start (gen_fh_abs cutoff r).\n")


HEADER = """(* GENERATED by translator/naive_c11.py from sktime/forecasting/naive.py, trend.py,
   base/_sktime.py, base/_fh.py, utils/validation -- do not edit, never committed. *)
From Coq Require Import ZArith QArith List Bool.
Require Import SkV.Lib.Base SkV.Lib.ZRange SkV.C11.Model.
Import ListNotations.
Open Scope Z_scope.

"""


def translate(repo):
    out = [HEADER]
    with open(os.path.join(repo, "sktime/utils/validation/forecasting.py")) as f:
        out.append(_validator(ast.parse(f.read()), "check_sp", {}, "gen_check_sp"))
    with open(os.path.join(repo, "sktime/utils/validation/__init__.py")) as f:
        out.append(_validator(ast.parse(f.read()), "check_window_length", {}, "gen_check_window_length"))
    fh_exprs(repo, out)
    window_exprs(repo, out)
    with open(os.path.join(repo, "sktime/forecasting/naive.py")) as f:
        mod = ast.parse(f.read())
    imports = {(n.module, a.name) for n in mod.body if isinstance(n, ast.ImportFrom) for a in n.names
               if a.asname is None}
    for need in (("sktime.utils.validation.forecasting", "check_sp"), ("sktime.utils.validation", "check_window_length"),
                 ("sktime.forecasting.base._sktime", "_BaseWindowForecaster"),
                 ("sktime.forecasting.base._sktime", "_OptionalForecastingHorizonMixin"), ("warnings", "warn")):
        _need(need in imports, "naive.py does not import %s from %s" % (need[1], need[0]))
    cls = find(mod, "NaiveForecaster")
    _need([_u(b) for b in cls.bases] == ["_OptionalForecastingHorizonMixin", "_BaseWindowForecaster"],
          "bases of NaiveForecaster")
    methods = {n.name for n in cls.body if isinstance(n, (ast.FunctionDef, ast.AsyncFunctionDef))}
    _need({"__init__", "_predict_last_window", "fit"} <= methods, "NaiveForecaster lacks fit / _predict_last_window")
    # private helpers may come and go (they are inlined where called); what must NOT be overridden is
    # the inherited machinery the bridge pins in _sktime.py
    overridden = methods & INHERITED_MACHINERY
    _need(not overridden, "NaiveForecaster overrides %s" % sorted(overridden))
    for n in cls.body:
        _need(isinstance(n, (ast.FunctionDef, ast.Expr)) or (isinstance(n, ast.Assign) and all(
            isinstance(t, ast.Name) and t.id not in INHERITED_MACHINERY for t in n.targets)),
              "unexpected statement in the body of NaiveForecaster", n)
    _naive_fit(cls, mod, out, repo=repo)
    with open(os.path.join(repo, "sktime/forecasting/base/_sktime.py")) as f:
        base = find(ast.parse(f.read()), "_BaseWindowForecaster")
    _naive_kernel(cls, mod, out, bases=[base], repo=repo)
    poly(repo, out)
    return {"C11/Gen.v": "\n".join(out)}


if __name__ == "__main__":
    import sys
    print(translate(sys.argv[1] if len(sys.argv) > 1 else "/repo")["C11/Gen.v"])
