"""C19: regenerate the control skeleton of the benchmark orchestration as Gallina (C19/Gen.v).

A fail-closed FACT EXTRACTOR BY SYMBOLIC EXECUTION over
    sktime/benchmarking/orchestration.py   Orchestrator.fit_predict, Orchestrator._iter
    sktime/benchmarking/results.py         HDDResults, RAMResults (every method the run uses)
    sktime/benchmarking/base.py            BaseResults._append_key, BaseResults._iter,
                                           HDDBaseResults.save, _PredictionsWrapper.__init__

The functions are not matched statement by statement against expected texts.  They are EXECUTED
on symbolic values (class `Exec`): expressions evaluate to terms, every call the executor does not
inline is appended to a trace in evaluation order, `if` statements fork the execution (the
statements after the `if` are run in both branches, so guard clauses, early `continue` / `return`,
if/else nesting and merged conditions all yield the same tree), local names are just an
environment (renaming, introducing or inlining temporaries changes nothing), private helpers -
`self._helper(...)` methods of the same class and module-level functions of the same file that are
not part of the modelled API - are inlined with argument binding (positional, keyword, defaults),
comprehensions over literal tuples (also module constants) are expanded, `*list` arguments are
spread.  The facts are then read off the resulting execution tree:

  * fit_predict: the flag-validation condition                                  -> gen_rejects
    the loop body as a decision tree over the flags and the three existence checks whose leaves
    are sequences of the modelled operations (register / fit / save fitted strategy / predict+store
    train / predict+store test)                                                 -> gen_plan_task
    (the Bridge proves it equal to the model's plan_task by exhausting the booleans - any
    equivalent control structure proves), results.save() exactly once, after the loop
  * _iter: the loop nest, the first fold number, where the strategy is cloned
                                                         -> gen_tasks_of, gen_clone_per_fold
  * both stores' existence checks                        -> gen_has_pred, gen_has_fit
  * _append_key                                          -> gen_append_key
  * save() of both stores                                -> gen_save
  * save_predictions / load_predictions: column <-> argument <-> field    -> gen_stored, gen_loaded
    the registry iteration                               -> gen_load
    the float parser                                     -> gen_float_round_trip
  * save_predictions / save_fitted_strategy: write, then register
                                                         -> gen_save_predictions, gen_save_fitted
Fail closed: a call that is neither inlined nor known (NEUTRAL below: logging, timestamps, path
arithmetic, array conversion) nor one of the operations a fact expects makes the extractor raise;
so does a value that reaches a modelled operation but is not what the model says (a record stored
under the "train" key must carry the training positions, the training targets and the prediction
on the training instances; check / save / load must address the same file ...).
"""
import ast
import os

from .pyz import Unsupported

ORCH = "sktime/benchmarking/orchestration.py"
RES = "sktime/benchmarking/results.py"
BASE = "sktime/benchmarking/base.py"

FLAGS = {"overwrite_predictions": "(ow_pred fl)", "predict_on_train": "(on_train fl)",
         "save_fitted_strategies": "(save_fit fl)", "overwrite_fitted_strategies": "(ow_fit fl)"}
KEYSIG = ["strategy_name", "dataset_name", "cv_fold", "train_or_test"]
ITEM = {("csv", "train"): "ITrain", ("csv", "test"): "ITest", ("pickle", "train"): "IFit"}


from .symexec_c19 import (C, FALSE, NONE, SLICE_ALL, TRUE, Ctx, Exec, _body, _chain, _fail, _params,  # noqa: F401
                          _target_names, _u, collapse, fn_of, is_neutral, kwget, leaves, mk_not, show,
                          simplify_ite, straight)
from . import symexec_c19

# ------------------------------------------------------------------------------------------------
# Orchestrator.fit_predict (with the generator it iterates over inlined, whatever its name)

STRATEGY, PROTO = ("role", "strategy"), ("role", "strategy_proto")
TASK, DATASET, DATA, FOLD = ("role", "task"), ("role", "dataset"), ("role", "data"), ("role", "cv_fold")
SNAME, DNAME = ("sname",), ("dname",)
RESULTS = ("attr", ("self",), "results")
PURE_BUILTINS = {"isinstance", "hasattr", "len", "str", "repr", "type", "int", "float", "bool", "getattr",
                 "list", "tuple", "set", "sorted", "min", "max", "format", "print"}
DANGEROUS_ROOTS = {"os", "shutil", "open", "dump", "load", "joblib", "pickle", "subprocess", "sys", "exec",
                   "eval", "pathlib", "Path", "glob", "tempfile"}


def _root(t):
    while t[0] in ("attr", "sub", "call"):
        t = t[1]
    return t


def _mentions(t, atoms):
    if not isinstance(t, tuple):
        return False
    if t in atoms:
        return True
    return any(_mentions(x, atoms) for x in t)


def touches_model(e):
    """may this call change (or depend on changing) the modelled state: the result store, the
    strategy / estimator, the data, the file system?  Everything else - logging, progress display,
    timestamps, string formatting, queries of the task / the cv object - cannot."""
    if e[0] != "call":
        return True
    f = e[1]
    r = _root(f)
    if r[0] == "global" and r[1] in PURE_BUILTINS and f == r:
        return False
    if r[0] == "global" and r[1] in DANGEROUS_ROOTS:
        return True
    state = {RESULTS, STRATEGY, PROTO, DATA, DATASET}
    if _mentions(f, state) or _mentions(f, {("rows", "ITrain"), ("rows", "ITest")}):
        return True                       # a method of a modelled object
    return _mentions((e[2], e[3]), {RESULTS, STRATEGY, PROTO})     # a modelled object handed to unknown code


def _orch_hook(state):
    def strat(t):
        return t in (STRATEGY, PROTO)

    def hook(t):
        k = t[0]
        if k == "attr" and t[2] == "name" and strat(t[1]):
            return SNAME
        if k == "attr" and t[2] == "name" and t[1] == DATASET:
            return DNAME
        if k == "sub" and t[1] == ("attr", DATA, "iloc") and t[2][0] == "idx":
            return ("rows", t[2][1])
        if k == "sub" and t[1][0] == "attr" and t[1][2] == "loc" and t[1][1][0] == "rows" \
                and t[2] == ("tuple", (SLICE_ALL, ("attr", TASK, "target"))):
            return ("ytrue", t[1][1][1])
        if k == "call":
            n = fn_of(t)
            if n == "pd.Timestamp.now" and not t[2] and not t[3]:
                return ("time",)
            if t[1] == ("attr", DATASET, "load") and not t[2] and not t[3]:
                return ("traced", ("neutral",), DATA)
            if t[1] == ("global", "clone") and list(t[2]) == [PROTO] and not t[3]:
                return ("traced", ("clone",), STRATEGY)
            if t[1][0] == "attr" and t[1][1] == RESULTS:
                state.setdefault("api_kws", {}).setdefault(t[1][2], set()).update(n for n, _ in t[3])
            if t[1] == ("attr", RESULTS, "check_predictions_exist"):
                b = kwget(t, KEYSIG, "check_predictions_exist")
                part = b.get("train_or_test")
                if [b.get(x) for x in KEYSIG[:3]] != [SNAME, DNAME, FOLD] or part not in (C("train"), C("test")):
                    _fail("check_predictions_exist is not asked about (strategy.name, dataset.name, cv_fold, 'train'|'test')", t)
                item = ITEM[("csv", part[1])]
                return ("traced", ("checkcall", item), ("check", item))
            if t[1] == ("attr", RESULTS, "check_fitted_strategy_exists"):
                b = kwget(t, KEYSIG[:3], "check_fitted_strategy_exists")
                if [b.get(x) for x in KEYSIG[:3]] != [SNAME, DNAME, FOLD]:
                    _fail("check_fitted_strategy_exists is not asked about (strategy.name, dataset.name, cv_fold)", t)
                return ("traced", ("checkcall", "IFit"), ("check", "IFit"))
            if t[1][0] == "attr" and strat(t[1][1]) and t[1][2] == "predict":
                if len(t[2]) != 1 or t[3] or t[2][0][0] != "rows":
                    _fail("strategy.predict is not called on a part of the fold", t)
                return ("traced", ("predict", t[2][0][1], t[1][1]), ("pred", t[2][0][1]))
            if t[1][0] == "attr" and strat(t[1][1]) and t[1][2] == "predict_proba" and len(t[2]) == 1 and not t[3] \
                    and t[2][0][0] == "rows":
                return ("traced", ("neutral",), ("proba",))      # y_proba is outside the model
        return t
    return hook


def _orch_binder(state):
    """roles of loop variables by WHAT is iterated over (not by the name or the position of anything)"""
    def binder(stmt, it):
        names = _target_names(stmt.target)
        if it == ("call", ("global", "zip"), (("attr", ("self",), "tasks"), ("attr", ("self",), "datasets")), ()):
            if not (isinstance(names, tuple) and len(names) == 2 and all(isinstance(n, str) for n in names)):
                _fail("the loop over zip(self.tasks, self.datasets) must unpack (task, dataset)", stmt)
            state["nest"].append("data")
            return {names[0]: TASK, names[1]: DATASET}
        if it == ("attr", ("self",), "strategies"):
            if not isinstance(names, str):
                _fail("the loop over self.strategies must bind one name", stmt)
            state["nest"].append("strat")
            return {names: PROTO}
        if it[0] == "call" and it[1] == ("global", "enumerate"):
            b = kwget(it, ["iterable", "start"], "enumerate")
            want = ("call", ("attr", ("attr", ("self",), "cv"), "split"), (DATA, ("sub", DATA, ("attr", TASK, "target"))), ())
            if b.get("iterable") != want:
                return None
            st = b.get("start", C(0))
            if st[0] != "const" or not isinstance(st[1], int) or isinstance(st[1], bool):
                _fail("enumerate start of the fold loop", stmt)
            if not (isinstance(names, tuple) and len(names) == 2 and isinstance(names[0], str)
                    and isinstance(names[1], tuple) and len(names[1]) == 2 and all(isinstance(n, str) for n in names[1])):
                _fail("the fold loop must unpack (cv_fold, (train_idx, test_idx))", stmt)
            state["nest"].append("fold")
            state["start"] = st[1]
            return {names[0]: FOLD, names[1][0]: ("idx", "ITrain"), names[1][1]: ("idx", "ITest")}
        return None
    return binder


def _cond(c, what):
    k = c[0]
    if k == "flag":
        return FLAGS[c[1]]
    if k == "check":
        return "(%s hdd (tkey t %s) st)" % ("gen_has_fit" if c[1] == "IFit" else "gen_has_pred", c[1])
    if k == "not":
        return "(negb %s)" % _cond(c[1], what)
    if k in ("and", "or"):
        return "(" + (" && " if k == "and" else " || ").join(_cond(x, what) for x in c[1]) + ")"
    if k == "const" and isinstance(c[1], bool):
        return "true" if c[1] else "false"
    if k == "ite":
        return "(if %s then %s else %s)" % (_cond(c[1], what), _cond(c[2], what), _cond(c[3], what))
    _fail("%s: condition is not and/or/not over the flags and the existence checks" % what, c)


def _is_model_cond(c):
    try:
        _cond(c, "")
        return True
    except Unsupported:
        return False


def _orch_facts(orch, helper_mods=()):
    state = {"nest": [], "start": None}
    ctx = Ctx(orch, "Orchestrator", primitives={"fit", "predict", "fit_predict"}, hook=_orch_hook(state),
              helper_mods=helper_mods)
    ex = Exec(ctx, _orch_binder(state))
    fn = ctx.method("fit_predict")
    params, _ = _params(fn, True)
    if any(f not in params for f in FLAGS):
        _fail("fit_predict signature %s" % params, fn)
    env = {"self": ("self",)}
    for p in params:
        env[p] = ("flag", p) if p in FLAGS else ("param", p)
    node = ex.run_function(fn, env)

    def neutral(e):
        if e == ("neutral",):
            return True
        if e[0] in ("setattr", "augattr") and e[1] == ("self",) and e[2].endswith("_counter"):
            return True                                         # progress display only
        if e[0] == "call":
            return not touches_model(e)
        return False

    def skip(node):
        while node[0] == "eff" and neutral(node[1]):
            node = node[2]
        return node
    # --- top level: if <flags>: raise ValueError | the loops | results.save() | end
    node = skip(node)
    if node[0] != "if":
        _fail("fit_predict must start with the validation of the flags")
    c, a, b = node[1], skip(node[2]), skip(node[3])
    if a[0] == "raise":
        rejects, rest, bad = c, b, a
    elif b[0] == "raise":
        rejects, rest, bad = mk_not(c), a, b
    else:
        _fail("fit_predict: the flag validation must raise")
    if not (bad[1][0] == "call" and show(bad[1][1]) == "ValueError"):
        _fail("fit_predict: the flag validation must raise ValueError", bad[1])
    # --- the three loops, outermost first; the plan is the body of the innermost
    clones = []
    depth = 0
    body = rest
    while True:
        body = skip(body)
        if body[0] == "eff" and body[1] == ("clone",):
            clones.append(depth)
            body = body[2]
            continue
        if body[0] == "eff" and body[1][0] == "for" and depth < 3:
            inner, after = body[1][3], skip(body[2])
            if depth == 0:
                after_loops = after
            elif after[0] not in ("end", "cont"):
                _fail("fit_predict: nothing modelled may follow an inner loop")
            depth += 1
            body = inner
            continue
        break
    if depth != 3 or sorted(state["nest"]) != ["data", "fold", "strat"] or state["nest"][2] != "fold":
        _fail("fit_predict must iterate over zip(tasks, datasets), the strategies and the enumerated folds "
              "(folds innermost), found %s" % state["nest"])
    if not (after_loops[0] == "eff" and after_loops[1][0] == "call" and after_loops[1][1] == ("attr", RESULTS, "save")
            and not after_loops[1][2] and not after_loops[1][3]):
        _fail("fit_predict: self.results.save() must be the statement after the loops")
    if skip(after_loops[2])[0] != "ret":
        _fail("fit_predict: nothing may follow self.results.save()")
    used = {"fit": None}

    def emit(node, acted, pending):
        """tree -> Gallina term of type list op"""
        if node[0] == "if":
            if _is_model_cond(node[1]):
                if pending:
                    _fail("a prediction is computed but its record is stored conditionally")
                return "(if %s\n   then %s\n   else %s)" % (_cond(node[1], "fit_predict"), emit(node[2], acted, None),
                                                            emit(node[3], acted, None))
            # a condition about something outside the model (verbose, the kind of task, ...): both
            # branches must perform the same modelled operations
            x, y = emit(node[2], acted, pending), emit(node[3], acted, pending)
            if x != y:
                _fail("the modelled operations depend on a condition outside the model", node[1])
            return x
        if node[0] in ("cont", "end"):
            if pending:
                _fail("a prediction on the %s part is computed but never stored" % pending)
            return "[]"
        if node[0] != "eff":
            _fail("fit_predict: unexpected control flow in the loop body (%s)" % node[0])
        e, nxt = node[1], node[2]
        if e[0] == "checkcall":
            if acted:
                _fail("existence check of %s evaluated after the iteration has already fitted / written" % e[1])
            return emit(nxt, acted, pending)
        if e == ("clone",):
            clones.append(3)
            return emit(nxt, acted, pending)
        if e[0] == "predict":
            if pending:
                _fail("two predictions without storing the first")
            if e[2] != used["fit"]:
                _fail("the strategy that predicts is not the one that was fitted")
            return emit(nxt, True, e[1])
        if e[0] == "call":
            f = e[1]
            if f == ("attr", RESULTS, "_append_key"):
                if list(e[2]) != [SNAME, DNAME] or e[3]:
                    _fail("_append_key is not given (strategy.name, dataset.name)", e)
                return "[OReg t] ++ " + emit(nxt, True, pending)
            if f[0] == "attr" and f[2] == "fit" and f[1] in (STRATEGY, PROTO):
                b = kwget(e, ["task", "data"], "strategy.fit")        # BaseStrategy.fit(self, task, data)
                if [b.get("task"), b.get("data")] != [TASK, ("rows", "ITrain")]:
                    _fail("strategy.fit is not called as fit(task, <the fold's training instances>)", e)
                if pending:
                    _fail("fit between a prediction and its record")
                if used["fit"] not in (None, f[1]):
                    _fail("two different strategy objects are fitted")
                used["fit"] = f[1]
                return "[OFit t] ++ " + emit(nxt, True, pending)
            if f == ("attr", RESULTS, "save_fitted_strategy"):
                b = kwget(e, ["strategy", "dataset_name", "cv_fold"], "save_fitted_strategy")
                if [b.get(k) for k in ("strategy", "dataset_name", "cv_fold")] != [used["fit"], DNAME, FOLD]:
                    _fail("save_fitted_strategy is not given (the fitted strategy, dataset.name, cv_fold)", e)
                if pending:
                    _fail("save_fitted_strategy between a prediction and its record")
                return "[OSave t] ++ " + emit(nxt, True, pending)
            if f == ("attr", RESULTS, "save_predictions"):
                sig = ["strategy_name", "dataset_name", "y_true", "y_pred", "y_proba", "index", "cv_fold",
                       "train_or_test", "fit_estimator_start_time", "fit_estimator_end_time",
                       "predict_estimator_start_time", "predict_estimator_end_time"]
                b = kwget(e, sig, "save_predictions")
                part = b.get("train_or_test")
                if part not in (C("train"), C("test")):
                    _fail("save_predictions: train_or_test must be the literal 'train' or 'test'", e)
                item = ITEM[("csv", part[1])]
                if [b.get(k) for k in ("strategy_name", "dataset_name", "cv_fold")] != [SNAME, DNAME, FOLD]:
                    _fail("save_predictions is not given (strategy.name, dataset.name, cv_fold)", e)
                if b.get("index") != ("idx", item):
                    _fail("the record stored as %r does not carry the positions of that part" % part[1], e)
                if b.get("y_true") != ("ytrue", item):
                    _fail("the record stored as %r: y_true is not the true values of that part" % part[1], e)
                if b.get("y_pred") != ("pred", item) or pending != item:
                    _fail("the record stored as %r: y_pred is not the prediction just made on that part" % part[1], e)
                return "[OPred t %s] ++ " % item + emit(nxt, True, None)
        if neutral(e):
            return emit(nxt, acted, pending)
        _fail("fit_predict: unexpected operation in the loop body", e)

    plan = emit(body, False, None)
    # a fresh clone per fold: the strategy that is fitted is clone(<strategy loop variable>), made
    # inside the fold loop (and nowhere else)
    clone_per_fold = used["fit"] == STRATEGY and clones == [3]
    if used["fit"] is None:
        _fail("fit_predict never fits the strategy")
    return {"rejects": _cond(rejects, "flag validation"), "plan": plan, "nest": state["nest"][:2],
            "start": state["start"], "clone_per_fold": clone_per_fold, "api_kws": state.get("api_kws", {})}


# ------------------------------------------------------------------------------------------------
# results.py / base.py

def _results_hook(t):
    if t[0] == "call":
        if fn_of(t) == "np.asarray" and len(t[2]) == 1 and not t[3]:
            return t[2][0]                       # array conversion: the same values
    return t


# the interface between the Orchestrator and a results object (called across classes, by name);
# everything else a results class uses - the function that builds file names / dict keys, the
# registry generator - is found by following the calls and inlined
RES_PRIMS = {"_append_key", "save", "save_predictions", "load_predictions",
             "check_predictions_exist", "check_fitted_strategy_exists", "save_fitted_strategy",
             "load_fitted_strategy"}


def subst(t, m):
    if not isinstance(t, tuple):
        return t
    if t in m:
        return m[t]
    if t and t[0] == "fstr":                  # keep string concatenations in normal form
        return symexec_c19.mk_concat([subst(x, m) for x in t[1]])
    return tuple(subst(x, m) for x in t)


def _same_address(term, proto, mapping, what):
    """`term` must address the entry that the existence check looks at (`proto`, a term over the
    check's own parameters), for the fields given by `mapping`"""
    want = subst(proto, {("param", k): v for k, v in mapping.items()})
    if term != want:
        _fail("%s addresses %s, but the existence check looks at %s" % (what, show(term), show(want)))


def _depends_on(proto, fields, what):
    for n in fields:
        if not _mentions(proto, {("param", n)}):
            _fail("%s: the address does not depend on %s" % (what, n), proto)


def _value_fn(ex, ctx, name, sig, what):
    fn = ctx.method(name)
    names, _ = _params(fn, True)
    if names != sig:
        _fail("%s signature %s" % (what, names), fn)
    env = {"self": ("self",)}
    env.update({n: ("param", n) for n in names})
    return ex.run_function(fn, env)


def _P(n):
    return ("param", n)


def _wrapper_sig(base):
    ctx = Ctx(base, "_PredictionsWrapper")
    fn = ctx.method("__init__")
    sig, _ = _params(fn, True)
    node = Exec(ctx).run_function(fn, dict({"self": ("self",)}, **{n: _P(n) for n in sig}))
    kept = {}
    for effs, _c, _t in leaves(node):
        for e in effs:
            if e[0] == "setattr" and e[1] == ("self",):
                kept.setdefault(e[2], set()).add(e[3])
    for f in ("strategy_name", "dataset_name", "index", "y_true", "y_pred"):
        if kept.get(f) != {_P(f)} or f not in sig:
            _fail("_PredictionsWrapper does not keep its argument %s as attribute %s" % (f, f), fn)
    return sig


def _isfile_of(node, what):
    effs, term = straight(collapse(node), what, neutral={"os.path.isfile"})
    if effs or term[0] != "ret":
        _fail("%s: must only answer whether the file exists" % what)
    v = term[1]
    if not (v[0] == "call" and fn_of(v) == "os.path.isfile" and len(v[2]) == 1 and not v[3]):
        _fail("%s: must answer os.path.isfile(<file>)" % what, v)
    return v[2][0]


def _hdd_facts(res, wsig, bases):
    ctx = Ctx(res, "HDDResults", primitives=RES_PRIMS, hook=_results_hook, bases=bases)
    ex = Exec(ctx)
    f = {}
    own = [_P(k) for k in KEYSIG]
    # existence checks: os.path.isfile(<file>); the file terms ARE the addresses of the store's entries
    kp = _isfile_of(_value_fn(ex, ctx, "check_predictions_exist", KEYSIG, "check_predictions_exist"),
                    "check_predictions_exist")
    kf = _isfile_of(_value_fn(ex, ctx, "check_fitted_strategy_exists", KEYSIG[:3], "check_fitted_strategy_exists"),
                    "check_fitted_strategy_exists")
    _depends_on(kp, KEYSIG, "check_predictions_exist")
    _depends_on(kf, KEYSIG[:3], "check_fitted_strategy_exists")
    for part in ("train", "test"):
        if subst(kp, {_P("train_or_test"): C(part)}) == kf:
            _fail("the fitted strategy and the %s predictions are kept in the same file" % part, kf)
    if subst(kp, {_P("train_or_test"): C("train")}) == subst(kp, {_P("train_or_test"): C("test")}):
        _fail("train and test predictions are kept in the same file", kp)
    f["has_pred"] = f["has_fit"] = "fhas k (sfiles st)"
    # save_predictions: frame -> file, then register
    fn = ctx.method("save_predictions")
    sig, _ = _params(fn, True)
    node = ex.run_function(fn, dict({"self": ("self",)}, **{n: _P(n) for n in sig}))
    effs, term = straight(node, "HDDResults.save_predictions", neutral={"pd.DataFrame"})
    if term[0] != "ret" or len(effs) != 2:
        _fail("HDDResults.save_predictions: write the frame, then _append_key expected, found %s" % [show(e) for e in effs])
    w, a = effs
    if not (w[0] == "call" and w[1][0] == "attr" and w[1][2] == "to_csv" and fn_of(w[1][1]) == "pd.DataFrame"):
        _fail("HDDResults.save_predictions: the first operation must write a DataFrame with to_csv", w)
    frame = w[1][1]
    if len(frame[2]) != 1 or frame[3] or frame[2][0][0] != "dict":
        _fail("save_predictions: pd.DataFrame({...}) expected", frame)
    b = kwget(w, ["path_or_buf", "sep", "na_rep", "float_format", "columns", "header", "index"], "to_csv")
    if "float_format" in b:
        _fail("save_predictions: to_csv(float_format=...) loses digits")
    if set(b) - {"path_or_buf", "header", "index"}:
        _fail("save_predictions: to_csv keywords %s" % sorted(b))
    _same_address(b.get("path_or_buf"), kp, {k: _P(k) for k in KEYSIG}, "HDDResults.save_predictions")
    cols = {}
    for k, v in frame[2][0][1]:
        if k[0] != "const":
            _fail("save_predictions: DataFrame column name", k)
        cols[k[1]] = v
    if a != ("call", ("attr", ("self",), "_append_key"), (own[0], own[1]), ()):
        _fail("HDDResults.save_predictions must end with self._append_key(strategy_name, dataset_name)", a)
    f["cols"] = {c: (v[1] if v[0] == "param" else None) for c, v in cols.items()}
    # load_predictions: for (s, d) in registry: read the file, yield the record
    fn = ctx.method("load_predictions")
    if _params(fn, True)[0] != ["cv_fold", "train_or_test"]:
        _fail("load_predictions signature", fn)
    node = ex.run_function(fn, {"self": ("self",), "cv_fold": _P("cv_fold"), "train_or_test": _P("train_or_test")})
    s_lv, d_lv, f["reg_outer"], body = _registry_loops(node, "HDDResults.load_predictions")
    beffs, bterm = straight(body, "load_predictions loop body", neutral={"pd.read_csv", "_PredictionsWrapper"})
    if len(beffs) != 1 or beffs[0][0] != "yield" or bterm[0] not in ("end", "cont"):
        _fail("load_predictions: the loop body must read one file and yield one record")
    rec = beffs[0][1]
    if fn_of(rec) != "_PredictionsWrapper":
        _fail("load_predictions must yield a _PredictionsWrapper", rec)
    y = kwget(rec, wsig, "_PredictionsWrapper")
    if [y.get("strategy_name"), y.get("dataset_name")] != [s_lv, d_lv]:
        _fail("load_predictions: record not labelled with the registry names")
    back, frames = {}, set()
    for k in ("index", "y_true", "y_pred"):
        v = y.get(k)
        ok = v and v[0] == "attr" and v[2] == "values" and v[1][0] == "sub" and v[1][1][0] == "attr" \
            and v[1][1][2] == "loc" and v[1][2][0] == "tuple" and len(v[1][2][1]) == 2 \
            and v[1][2][1][0] == SLICE_ALL and v[1][2][1][1][0] == "const"
        if not ok:
            _fail("load_predictions: %s is not a whole column of the file" % k, v)
        back[k] = v[1][2][1][1][1]
        frames.add(v[1][1][1])
    if len(frames) != 1:
        _fail("load_predictions: the three fields come from different frames")
    fr = frames.pop()
    if fn_of(fr) != "pd.read_csv":
        _fail("load_predictions: the record is not read with pd.read_csv", fr)
    rb = kwget(fr, ["filepath_or_buffer", "sep", "delimiter", "header", "float_precision"], "read_csv")
    if set(rb) - {"filepath_or_buffer", "header", "float_precision"} or rb.get("header", C(0)) != C(0):
        _fail("load_predictions: read_csv keywords", fr)
    _same_address(rb.get("filepath_or_buffer"), kp, {"strategy_name": s_lv, "dataset_name": d_lv,
                                                     "cv_fold": _P("cv_fold"), "train_or_test": _P("train_or_test")},
                  "load_predictions")
    f["back"] = back
    f["round_trip"] = rb.get("float_precision") == C("round_trip")
    # fitted strategies
    node = _value_fn(ex, ctx, "save_fitted_strategy", ["strategy", "dataset_name", "cv_fold"], "save_fitted_strategy")
    effs, term = straight(node, "HDDResults.save_fitted_strategy")
    sn = ("attr", _P("strategy"), "name")
    if len(effs) != 2 or term[0] != "ret" or not (
            effs[0][0] == "call" and effs[0][1] == ("attr", _P("strategy"), "save") and len(effs[0][2]) == 1 and not effs[0][3]):
        _fail("save_fitted_strategy: strategy.save(<file>), then _append_key expected")
    _same_address(effs[0][2][0], kf, {"strategy_name": sn, "dataset_name": _P("dataset_name"), "cv_fold": _P("cv_fold")},
                  "save_fitted_strategy")
    if effs[1] != ("call", ("attr", ("self",), "_append_key"), (sn, _P("dataset_name")), ()):
        _fail("HDDResults.save_fitted_strategy must end with self._append_key(strategy.name, dataset_name)", effs[1])
    return f


def _ram_facts(res, wsig, bases):
    ctx = Ctx(res, "RAMResults", primitives=RES_PRIMS, hook=_results_hook, bases=bases)
    ex = Exec(ctx)
    f = {}
    own = [_P(k) for k in KEYSIG]
    for meth, n in (("check_predictions_exist", 4), ("check_fitted_strategy_exists", 3)):
        fn = ctx.method(meth)
        if len(_params(fn, True)[0]) != n:
            _fail("RAMResults.%s signature" % meth, fn)
        node = ex.run_function(fn, dict({"self": ("self",)}, **{p: _P(p) for p in _params(fn, True)[0]}))
        effs, term = straight(node, "RAMResults." + meth)
        if effs or term != ("ret", FALSE):
            _fail("RAMResults.%s is not `return False`" % meth, fn)
    f["has_pred"] = f["has_fit"] = "false"
    fn = ctx.method("save_fitted_strategy")
    node = ex.run_function(fn, dict({"self": ("self",)}, **{p: _P(p) for p in _params(fn, True)[0]}))
    effs, term = straight(node, "RAMResults.save_fitted_strategy")
    if effs or term[0] != "raise" or "NotImplementedError" not in show(term[1]):
        _fail("RAMResults.save_fitted_strategy is not `raise NotImplementedError()`", fn)
    node = ex.run_function(ctx.method("save"), {"self": ("self",)})
    if straight(node, "RAMResults.save") != ([], ("ret", NONE)):
        _fail("RAMResults.save must do nothing", ctx.method("save"))
    # save_predictions
    fn = ctx.method("save_predictions")
    sig, _ = _params(fn, True)
    node = ex.run_function(fn, dict({"self": ("self",)}, **{n: _P(n) for n in sig}))
    effs, term = straight(node, "RAMResults.save_predictions", neutral={"_PredictionsWrapper"})
    if len(effs) != 2 or term[0] != "ret":
        _fail("RAMResults.save_predictions: store the record, then _append_key expected, found %s" % [show(e) for e in effs])
    st, a = effs
    if not (st[0] == "setitem" and st[1] == ("attr", ("self",), "results") and fn_of(st[3]) == "_PredictionsWrapper"):
        _fail("RAMResults.save_predictions: self.results[key] = _PredictionsWrapper(...) expected", st)
    kr = st[2]                                   # the dict key IS the address of the entry
    _depends_on(kr, KEYSIG, "RAMResults.save_predictions")
    y = kwget(st[3], wsig, "_PredictionsWrapper")
    if [y.get("strategy_name"), y.get("dataset_name")] != own[:2]:
        _fail("RAMResults.save_predictions: record not labelled with its own names")
    f["cols"] = {k: (y[k][1] if y.get(k, ("?",))[0] == "param" else None) for k in ("index", "y_true", "y_pred")}
    f["back"] = {"index": "index", "y_true": "y_true", "y_pred": "y_pred"}        # the same object
    if a != ("call", ("attr", ("self",), "_append_key"), (own[0], own[1]), ()):
        _fail("RAMResults.save_predictions must end with self._append_key(strategy_name, dataset_name)", a)
    # load_predictions
    fn = ctx.method("load_predictions")
    node = ex.run_function(fn, {"self": ("self",), "cv_fold": _P("cv_fold"), "train_or_test": _P("train_or_test")})
    s_lv, d_lv, f["reg_outer"], body = _registry_loops(node, "RAMResults.load_predictions")
    beffs, bterm = straight(body, "RAMResults.load_predictions loop body")
    want = ("sub", ("attr", ("self",), "results"),
            subst(kr, {_P("strategy_name"): s_lv, _P("dataset_name"): d_lv}))
    if beffs != [("yield", want)] or bterm[0] not in ("end", "cont"):
        _fail("RAMResults.load_predictions: must yield self.results[<the key save_predictions used>] over the registry")
    return f


def _registry_loops(node, what):
    """load_predictions: the two nested loops over the registered names (written out, or in a
    generator helper of any name - it is inlined) -> (strategy variable, dataset variable, which is
    outer, innermost body)"""
    lvs, order = {}, []
    cur = node
    while len(order) < 2:
        effs, term = straight(cur, what)
        loops = [e for e in effs if e[0] == "for"]
        if len(loops) != 1 or len(effs) != 1 or show(loops[0][1]) not in ("self.strategy_names", "self.dataset_names") \
                or not isinstance(loops[0][2], str) or show(loops[0][1]) in order:
            _fail("%s: nested loops over self.strategy_names and self.dataset_names expected" % what)
        order.append(show(loops[0][1]))
        lvs[order[-1]] = loops[0][4]
        cur = loops[0][3]
    return lvs["self.strategy_names"], lvs["self.dataset_names"], "s" if order[0] == "self.strategy_names" else "d", cur


def _append_shape(node, what):
    """tree of `if x not in self.L: self.L.append(x)` statements in any control-flow form ->
    {list attribute: appended parameter}; every append must happen exactly when the name is absent"""
    upd = {}
    per_list = {}
    for effs, conds, term in leaves(node):
        if term[0] != "ret":
            _fail("%s: unexpected control flow" % what)
        pos = {(c[2], c[3]): (c[1] == "notin") == pol for c, pol in conds if c[0] == "cmp" and c[1] in ("in", "notin")}
        if len(pos) != len(conds):
            _fail("%s: conditions must be membership tests of the two name lists" % what)
        did = {}
        for e in effs:
            if not (e[0] == "call" and e[1][0] == "attr" and e[1][2] == "append" and len(e[2]) == 1 and not e[3]
                    and e[1][1][0] == "attr" and e[1][1][1] == ("self",) and e[2][0][0] == "param"):
                _fail("%s: only self.<names>.append(<name>) may happen" % what, e)
            lst, par = e[1][1][2], e[2][0][1]
            if upd.setdefault(lst, par) != par or lst in did:
                _fail("%s: %s receives different names / twice" % (what, lst))
            did[lst] = True
        for (x, l), absent in pos.items():
            if not (l[0] == "attr" and l[1] == ("self",) and x[0] == "param"):
                _fail("%s: membership test of something else than a name in self.<names>" % what)
            per_list.setdefault(l[2], set()).add((x[1], absent, l[2] in did))
    for lst, obs in per_list.items():
        for par, absent, appended in obs:
            if par != upd.get(lst) or absent != appended:
                _fail("%s: self.%s must be appended to exactly when the name is not in it" % (what, lst))
    for lst in upd:
        if lst not in per_list:
            _fail("%s: self.%s is appended to unconditionally" % (what, lst))
    return upd


def _base_facts(base):
    f = {}
    ctx = Ctx(base, "BaseResults", primitives={"_iter", "_append_key", "save", "_generate_key"})
    ex = Exec(ctx)
    node = _value_fn(ex, ctx, "_append_key", ["strategy_name", "dataset_name"], "_append_key")
    upd = _append_shape(node, "_append_key")
    if sorted(upd) != ["dataset_names", "strategy_names"]:
        _fail("_append_key must maintain strategy_names and dataset_names, found %s" % sorted(upd))
    f["append"] = {"self." + k: v for k, v in upd.items()}
    # HDDBaseResults.save
    ctx2 = Ctx(base, "HDDBaseResults", primitives={"_iter", "_append_key", "save", "_generate_key", "_validate_path"})
    ex2 = Exec(ctx2)
    node = ex2.run_function(ctx2.method("save"), {"self": ("self",)})
    while node[0] == "eff" and is_neutral(node[1]):
        node = node[2]
    mfile = ("call", ("attr", ("attr", ("global", "os"), "path"), "join"), (("attr", ("self",), "path"), C("results.pickle")), ())
    isf = ("call", ("attr", ("attr", ("global", "os"), "path"), "isfile"), (mfile,), ())
    while node[0] == "eff" and node[1] == isf:
        node = node[2]
    if node[0] != "if" or node[1] not in (isf, mfile and mk_not(isf)):
        _fail("HDDBaseResults.save: must branch on os.path.isfile(<path>/results.pickle)")
    exists, fresh = (node[2], node[3]) if node[1] == isf else (node[3], node[2])
    dump = ("call", ("global", "dump"), (("self",), mfile), ())
    if straight(fresh, "save (no master file)") != ([dump], ("ret", NONE)):
        _fail("HDDBaseResults.save: without a master file it must only dump(self, file)")
    effs, term = straight(exists, "save (merge)")
    ld = ("call", ("global", "load"), (mfile,), ())
    if term != ("ret", NONE) or not effs or effs[0] != ld or effs[-1] != dump:
        _fail("HDDBaseResults.save: with a master file: load it, merge the names, dump(self, file)")
    merge = {}
    for e in effs[1:-1]:
        if e[0] != "setattr" or e[1] != ("self",) or e[2] not in ("strategy_names", "dataset_names") or e[2] in merge:
            _fail("HDDBaseResults.save: unexpected operation while merging", e)
        own, theirs = ("attr", ("self",), e[2]), ("attr", ld, e[2])
        v = e[3]
        if not (v[0] == "call" and v[1] == ("global", "list") and len(v[2]) == 1 and not v[3]
                and v[2][0][0] == "call" and v[2][0][1] == ("global", "set") and len(v[2][0][2]) == 1
                and v[2][0][2][0][0] == "add" and {v[2][0][2][0][1], v[2][0][2][0][2]} == {own, theirs}):
            _fail("HDDBaseResults.save: self.%s must become the duplicate-free union list(set(own + master's))" % e[2], v)
        merge[e[2]] = "own_first" if v[2][0][2][0][1] == own else "master_first"
    if sorted(merge) != ["dataset_names", "strategy_names"]:
        _fail("HDDBaseResults.save: both name lists must be merged")
    f["merge"] = merge
    return f


# ------------------------------------------------------------------------------------------------
# emission

HEADER = """(* GENERATED by /verif/translator/orch_c19.py from %s, %s, %s
   -- do not edit, never committed *)
From Coq Require Import ZArith List Bool.
Require Import SkV.Lib.Base SkV.Lib.ZRange SkV.C19.Model.
Import ListNotations.
Open Scope Z_scope.

"""


def _cols_term(cols, args):
    for c in ("index", "y_true", "y_pred"):
        if cols.get(c) not in args:
            _fail("column %s does not receive one of the arguments %s" % (c, args))
    return "Pred %s %s %s" % tuple("a_" + cols[c] for c in ("index", "y_true", "y_pred"))


def _back_term(back):
    for k in ("index", "y_true", "y_pred"):
        if back.get(k) not in ("index", "y_true", "y_pred"):
            _fail("field %s is read from column %r" % (k, back.get(k)))
    return "(%s, %s, %s)" % tuple("c_" + back[k] for k in ("index", "y_true", "y_pred"))


def translate(repo):
    symexec_c19.TAG[0] = "orch_c19"
    mods = {}
    for rel in (ORCH, RES, BASE):
        with open(os.path.join(repo, rel)) as fh:
            mods[rel] = ast.parse(fh.read())
    fp = _orch_facts(mods[ORCH], [mods[BASE], mods[RES]])
    it = fp
    wsig = _wrapper_sig(mods[BASE])
    hdd = _hdd_facts(mods[RES], wsig, [(mods[BASE], "HDDBaseResults"), (mods[BASE], "BaseResults")])
    ram = _ram_facts(mods[RES], wsig, [(mods[BASE], "BaseResults")])
    base = _base_facts(mods[BASE])
    if hdd["reg_outer"] != ram["reg_outer"]:
        _fail("the two stores iterate over the registry in different orders")
    base["reg_outer"] = hdd["reg_outer"]
    # a keyword the Orchestrator passes to the results object must be a parameter of BOTH stores
    for cls in ("HDDResults", "RAMResults"):
        c = Ctx(mods[RES], cls, bases=[(mods[BASE], "HDDBaseResults"), (mods[BASE], "BaseResults")])
        for meth, kws in fp["api_kws"].items():
            if meth in c.methods:
                names, _ = _params(c.methods[meth], True)
                for k in sorted(kws):
                    if k not in names:
                        _fail("fit_predict passes %s=... to results.%s, which %s.%s does not accept" % (k, meth, cls, meth))
    o = [HEADER % (ORCH, RES, BASE)]
    o.append("(* Orchestrator.fit_predict: `if <this>: raise ValueError` before anything else *)\n"
             "Definition gen_rejects (fl : flags) : bool := %s.\n\n" % fp["rejects"])
    o.append("(* check_predictions_exist / check_fitted_strategy_exists of HDDResults and RAMResults *)\n"
             "Definition gen_has_pred (hdd : bool) (k : key) (st : store) : bool :=\n"
             "  if hdd then %s else %s.\n"
             "Definition gen_has_fit (hdd : bool) (k : key) (st : store) : bool :=\n"
             "  if hdd then %s else %s.\n\n" % (hdd["has_pred"], ram["has_pred"], hdd["has_fit"], ram["has_fit"]))
    o.append("(* the body of the loop of fit_predict as executed: a decision tree over the flags and the\n"
             "   existence checks; the leaves list the operations of that path in execution order *)\n"
             "Definition gen_plan_task (hdd : bool) (fl : flags) (st : store) (t : task) : list op :=\n"
             "  %s.\n\n" % fp["plan"])
    inner = ("map (fun ff => {| ts := fst s; td := d_name d; tf := fst ff; tparam := snd s;\n"
             "                        trows := d_rows d; ttrain := fst (snd ff); ttest := snd (snd ff) |})\n"
             "          (enumerate_from %d (d_folds d))" % it["start"])
    if it["nest"] == ["data", "strat"]:
        nest = "flat_map (fun d =>\n    flat_map (fun s =>\n      %s)\n      strats)\n    data" % inner
    else:
        nest = "flat_map (fun s =>\n    flat_map (fun d =>\n      %s)\n      data)\n    strats" % inner
    o.append("(* Orchestrator._iter: the loop nest, outermost first: %s, folds; folds numbered from %d *)\n"
             "Definition gen_tasks_of (strats : list strategy) (data : list dataset) : list task :=\n  %s.\n"
             "(* the strategy handed out is clone(strategy), cloned inside the fold loop *)\n"
             "Definition gen_clone_per_fold : bool := %s.\n\n" % (
                 ", ".join(it["nest"]), it["start"], nest, "true" if it["clone_per_fold"] else "false"))
    ap = base["append"]
    o.append("(* BaseResults._append_key *)\n"
             "Definition gen_append_key (strategy_name dataset_name : Z) (st : store) : store :=\n"
             "  {| sfiles := sfiles st; master := master st;\n"
             "     snames := (if mem %s (snames st) then snames st else snames st ++ [%s]);\n"
             "     dnames := (if mem %s (dnames st) then dnames st else dnames st ++ [%s]) |}.\n\n" % (
                 ap["self.strategy_names"], ap["self.strategy_names"], ap["self.dataset_names"], ap["self.dataset_names"]))
    mg = base["merge"]

    def m(attr, own, other):
        return "merge_names (%s) %s" % (own, other) if mg[attr] == "own_first" else "merge_names %s (%s)" % (other, own)
    o.append("(* HDDBaseResults.save (no master file yet: dump; else merge both name lists, dump) and\n"
             "   RAMResults.save (nothing) *)\n"
             "Definition gen_save (hdd : bool) (st : store) : store :=\n"
             "  if hdd then\n    match master st with\n"
             "    | None => {| sfiles := sfiles st; master := Some (snames st, dnames st);\n"
             "                 snames := snames st; dnames := dnames st |}\n"
             "    | Some (ms, md) =>\n        let sn := %s in\n        let dn := %s in\n"
             "        {| sfiles := sfiles st; master := Some (sn, dn); snames := sn; dnames := dn |}\n"
             "    end\n  else st.\n\n" % (m("strategy_names", "snames st", "ms"), m("dataset_names", "dnames st", "md")))
    o.append("(* save_predictions: which column (HDD) / record field (RAM) receives which argument *)\n"
             "Definition gen_stored (hdd : bool) (a_index a_y_true a_y_pred : list Z) : content :=\n"
             "  if hdd then %s else %s.\n"
             "(* load_predictions: which stored column is returned as index, y_true, y_pred *)\n"
             "Definition gen_loaded (hdd : bool) (c : content) : option (list Z * list Z * list Z) :=\n"
             "  match c with\n  | Pred c_index c_y_true c_y_pred => Some (if hdd then %s else %s)\n"
             "  | Fit _ => None\n  end.\n"
             "(* pd.read_csv(..., float_precision=\"round_trip\") in HDDResults.load_predictions *)\n"
             "Definition gen_float_round_trip : bool := %s.\n\n" % (
                 _cols_term(hdd["cols"], ("index", "y_true", "y_pred")),
                 _cols_term(ram["cols"], ("index", "y_true", "y_pred")),
                 _back_term(hdd["back"]), _back_term(ram["back"]), "true" if hdd["round_trip"] else "false"))
    o.append("(* save_predictions of both stores: write the entry, then _append_key *)\n"
             "Definition gen_save_predictions (hdd : bool) (k : key) (c : content) (s d : Z) (st : store) : store :=\n"
             "  gen_append_key s d (write k c st).\n"
             "(* save_fitted_strategy: HDDResults pickles then _append_key; RAMResults raises *)\n"
             "Definition gen_save_fitted (hdd : bool) (k : key) (c : content) (s d : Z) (st : store)\n"
             "  : option store := if hdd then Some (gen_append_key s d (write k c st)) else None.\n\n")
    reg = ("flat_map (fun s => map (fun d => (s, d)) (dnames st)) (snames st)" if base["reg_outer"] == "s"
           else "flat_map (fun d => map (fun s => (s, d)) (snames st)) (dnames st)")
    o.append("(* load_predictions over BaseResults._iter: one record per registered strategy x dataset *)\n"
             "Definition gen_load (st : store) (f : Z) (it : item) : option (list (Z * Z * content)) :=\n"
             "  all_some (map (fun sd => match fget (fst sd, snd sd, f, it) (sfiles st) with\n"
             "                           | Some c => Some (fst sd, snd sd, c) | None => None end)\n"
             "                (%s)).\n" % reg)
    return {"C19/Gen.v": "".join(o)}


if __name__ == "__main__":
    import sys
    print(translate(sys.argv[1] if len(sys.argv) > 1 else "/repo")["C19/Gen.v"])
