"""C19: regenerate the control skeleton of the benchmark orchestration as Gallina (C19/Gen.v).

A fail-closed `ast` FACT EXTRACTOR over
    sktime/benchmarking/orchestration.py   Orchestrator.fit_predict, Orchestrator._iter
    sktime/benchmarking/results.py         HDDResults, RAMResults (every method the run uses)
    sktime/benchmarking/base.py            BaseResults._append_key, BaseResults._iter,
                                           HDDBaseResults.save, _PredictionsWrapper.__init__
Every statement of these functions must have one of the shapes understood below; anything else
raises Unsupported (a broken tie).  What is carried into Gallina BY BINDING, so that an edit makes a
lemma of coq/C19/Bridge.v fail:
  * the flag-validation condition of fit_predict                              -> gen_rejects
  * which existence check feeds which variable, the ORDER of the three checks before anything
    else, the skip condition, what the skip branch does, the order fit -> save fitted strategy ->
    predict train -> predict test and the guard of each                       -> gen_plan_task
  * (results.save() must be the one statement after the loop: checked here)
  * the loop nest of _iter (datasets, strategies, folds), the first fold number, the clone per
    fold                                                           -> gen_tasks_of, gen_clone_per_fold
  * the existence checks of both result stores                                -> gen_has_pred / _fit
  * _append_key                                                               -> gen_append_key
  * save() of both stores (first master file / merge with an existing one)    -> gen_save
  * save_predictions / save_fitted_strategy of both stores: write, then register
                                                      -> gen_save_predictions, gen_save_fitted
  * which DataFrame column receives which argument, which column is read back into which field of
    the returned record, the order of the registry iteration of load_predictions
                                                      -> gen_stored, gen_loaded, gen_load
  * the float parser of load_predictions                                -> gen_float_round_trip
Checked here (raise on mismatch, nothing to prove): every call passes strategy name, dataset
name, fold and part consistently (a record stored under the "train" key is the prediction on the
training instances with the training index and the training targets, ...); check / save / load
build the file name with the same function, the same four fields and the same suffix; the key
functions use all four fields.
"""
import ast
import os

from .pyz import Unsupported

ORCH = "sktime/benchmarking/orchestration.py"
RES = "sktime/benchmarking/results.py"
BASE = "sktime/benchmarking/base.py"

FLAGS = {"overwrite_predictions": "(ow_pred fl)", "predict_on_train": "(on_train fl)",
         "save_fitted_strategies": "(save_fit fl)", "overwrite_fitted_strategies": "(ow_fit fl)"}
KEYSIG = ["strategy_name", "dataset_name", "cv_fold", "train_or_test"]
ITEM = {("csv", "train"): "ITrain", ("csv", "test"): "ITest", ("pickle", "train"): "IFit"}


def _u(n):
    return ast.unparse(n)


def _fail(msg, node=None):
    raise Unsupported("orch_c19: %s%s" % (msg, "" if node is None else " [line %s: %s]" % (
        getattr(node, "lineno", "?"), _u(node)[:120])))


def _find(mod, path):
    node = mod
    for p in path.split("."):
        hits = [n for n in node.body if isinstance(n, (ast.FunctionDef, ast.ClassDef)) and n.name == p]
        if len(hits) != 1:
            _fail("expected exactly one definition of %s, found %d" % (path, len(hits)))
        node = hits[0]
    return node


def _body(fn):
    """statements of a function without its docstring"""
    b = list(fn.body)
    if b and isinstance(b[0], ast.Expr) and isinstance(b[0].value, ast.Constant) \
            and isinstance(b[0].value.value, str):
        b = b[1:]
    return b


def _params(fn):
    a = fn.args
    if a.vararg or a.kwarg or a.kwonlyargs or a.posonlyargs:
        _fail("unsupported parameter list of %s" % fn.name, fn)
    return [x.arg for x in a.args]


def _bind(call, sig, what):
    """positional + keyword arguments of `call` against parameter names `sig` -> {param: node}"""
    out = {}
    if len(call.args) > len(sig):
        _fail(what + ": too many positional arguments", call)
    for p, a in zip(sig, call.args):
        if isinstance(a, ast.Starred):
            _fail(what + ": starred argument", call)
        out[p] = a
    for kw in call.keywords:
        if kw.arg is None or kw.arg not in sig or kw.arg in out:
            _fail(what + ": keyword %s" % kw.arg, call)
        out[kw.arg] = kw.value
    return out


def _is_call(n, text):
    return isinstance(n, ast.Call) and _u(n.func) == text


def _expr_call(s, text):
    return isinstance(s, ast.Expr) and _is_call(s.value, text)


def _assign1(s):
    """`name = value` -> (name, value) or None"""
    if isinstance(s, ast.Assign) and len(s.targets) == 1 and isinstance(s.targets[0], ast.Name):
        return s.targets[0].id, s.value
    return None


# ------------------------------------------------------------------------------------------------
# boolean expressions over flags and existence-check variables


def _bexpr(n, env):
    if isinstance(n, ast.BoolOp) and isinstance(n.op, (ast.And, ast.Or)):
        op = " && " if isinstance(n.op, ast.And) else " || "
        return "(" + op.join(_bexpr(v, env) for v in n.values) + ")"
    if isinstance(n, ast.UnaryOp) and isinstance(n.op, ast.Not):
        return "(negb %s)" % _bexpr(n.operand, env)
    if isinstance(n, ast.Name) and n.id in env:
        return env[n.id]
    if isinstance(n, ast.Constant) and isinstance(n.value, bool):
        return "true" if n.value else "false"
    _fail("condition is not and/or/not over the flags and the existence checks", n)


# ------------------------------------------------------------------------------------------------
# Orchestrator._iter


def _iter_facts(orch):
    fn = _find(orch, "Orchestrator._iter")
    if _params(fn) != ["self"]:
        _fail("_iter signature", fn)
    body = _body(fn)
    if len(body) != 1 or not isinstance(body[0], ast.For):
        _fail("_iter must be one loop nest", fn)
    nest = []          # "data" | "strat"
    loop = body[0]
    names = {}
    clone_per_fold = False
    while True:
        if loop.orelse:
            _fail("for/else in _iter", loop)
        it = _u(loop.iter)
        rest = None
        if it == "zip(self.tasks, self.datasets)":
            if not (isinstance(loop.target, ast.Tuple) and len(loop.target.elts) == 2
                    and all(isinstance(e, ast.Name) for e in loop.target.elts)):
                _fail("_iter: target of the dataset loop", loop)
            names["task"], names["dataset"] = [e.id for e in loop.target.elts]
            nest.append("data")
            inner = []
            for s in loop.body:
                a = _assign1(s)
                if _is_counter(s):
                    continue
                if a and _u(a[1]) == "%s.load()" % names["dataset"]:
                    names["data"] = a[0]
                elif a and "data" in names and _u(a[1]) == "%s[%s.target]" % (names["data"], names["task"]):
                    names["y"] = a[0]
                elif isinstance(s, ast.For):
                    inner.append(s)
                else:
                    _fail("_iter: statement in the dataset loop", s)
            if len(inner) != 1 or loop.body[-1] is not inner[0]:
                _fail("_iter: the dataset loop must end with exactly one inner loop", loop)
            rest = inner[0]
        elif it == "self.strategies":
            if not isinstance(loop.target, ast.Name):
                _fail("_iter: target of the strategy loop", loop)
            names["strategy"] = loop.target.id
            nest.append("strat")
            inner = [s for s in loop.body if isinstance(s, ast.For)]
            for s in loop.body:
                if not (_is_counter(s) or isinstance(s, ast.For)):
                    _fail("_iter: statement in the strategy loop", s)
            if len(inner) != 1 or loop.body[-1] is not inner[0]:
                _fail("_iter: the strategy loop must end with exactly one inner loop", loop)
            rest = inner[0]
        elif isinstance(loop.iter, ast.Call) and _u(loop.iter.func) == "enumerate":
            if set(nest) != {"data", "strat"}:
                _fail("_iter: the fold loop must be innermost", loop)
            b = _bind(loop.iter, ["iterable", "start"], "enumerate")
            if _u(b["iterable"]) != "self.cv.split(%s, %s)" % (names.get("data"), names.get("y")):
                _fail("_iter: folds are not self.cv.split(data, y)", loop)
            start = 0
            if "start" in b:
                if not (isinstance(b["start"], ast.Constant) and isinstance(b["start"].value, int)):
                    _fail("_iter: enumerate start", loop)
                start = b["start"].value
            t = loop.target
            if not (isinstance(t, ast.Tuple) and len(t.elts) == 2 and isinstance(t.elts[0], ast.Name)
                    and isinstance(t.elts[1], ast.Tuple) and len(t.elts[1].elts) == 2
                    and all(isinstance(e, ast.Name) for e in t.elts[1].elts)):
                _fail("_iter: target of the fold loop", loop)
            names["cv_fold"] = t.elts[0].id
            # sklearn convention: split yields (train positions, test positions)
            names["train_idx"], names["test_idx"] = [e.id for e in t.elts[1].elts]
            ys = None
            for s in loop.body:
                a = _assign1(s)
                if a and a[0] == names["strategy"] and _u(a[1]) == "clone(%s)" % names["strategy"]:
                    if ys is not None:
                        _fail("_iter: clone after the yield", s)
                    clone_per_fold = True
                elif isinstance(s, ast.Expr) and isinstance(s.value, ast.Yield):
                    if ys is not None:
                        _fail("_iter: two yields", s)
                    ys = s.value.value
                else:
                    _fail("_iter: statement in the fold loop", s)
            if not (isinstance(ys, ast.Tuple) and all(isinstance(e, ast.Name) for e in ys.elts)):
                _fail("_iter: yield of a tuple of names expected", loop)
            want = [names[k] for k in ("task", "dataset", "data", "strategy", "cv_fold", "train_idx",
                                       "test_idx")]
            if [e.id for e in ys.elts] != want:
                _fail("_iter: yields %s, expected %s" % ([e.id for e in ys.elts], want), loop)
            return {"nest": nest, "start": start, "clone_per_fold": clone_per_fold,
                    "roles": ["task", "dataset", "data", "strategy", "cv_fold", "train_idx", "test_idx"]}
        else:
            _fail("_iter: unknown loop", loop)
        loop = rest


def _is_counter(s):
    """self._strategy_counter = 0 / self._dataset_counter += 1 (progress display only)"""
    if isinstance(s, ast.Assign) and len(s.targets) == 1:
        t = s.targets[0]
    elif isinstance(s, ast.AugAssign):
        t = s.target
    else:
        return False
    return (isinstance(t, ast.Attribute) and _u(t.value) == "self" and t.attr.endswith("_counter")
            and isinstance(s.value, ast.Constant))


# ------------------------------------------------------------------------------------------------
# Orchestrator.fit_predict


def _is_timestamp(s):
    a = _assign1(s)
    return bool(a) and a[0].endswith("_time") and _u(a[1]) == "pd.Timestamp.now()"


def _fit_predict_facts(orch, roles):
    fn = _find(orch, "Orchestrator.fit_predict")
    params = _params(fn)
    if params[0] != "self" or any(f not in params for f in FLAGS):
        _fail("fit_predict signature %s" % params, fn)
    body = _body(fn)
    if len(body) != 3:
        _fail("fit_predict must be: flag validation, the loop, results.save()", fn)
    val, loop, save = body
    # 1. flag validation
    if not (isinstance(val, ast.If) and not val.orelse and len(val.body) == 1
            and isinstance(val.body[0], ast.Raise) and isinstance(val.body[0].exc, ast.Call)
            and _u(val.body[0].exc.func) == "ValueError"):
        _fail("fit_predict: the first statement must be `if <flags>: raise ValueError(...)`", val)
    rejects = _bexpr(val.test, FLAGS)
    # 3. master file only after the loop
    if not (_expr_call(save, "self.results.save") and not save.value.args and not save.value.keywords):
        _fail("fit_predict: the last statement must be self.results.save()", save)
    # 2. the loop over _iter
    if not (isinstance(loop, ast.For) and not loop.orelse and _u(loop.iter) == "self._iter()"
            and isinstance(loop.target, ast.Tuple) and len(loop.target.elts) == len(roles)
            and all(isinstance(e, ast.Name) for e in loop.target.elts)):
        _fail("fit_predict: loop over self._iter() with %d names expected" % len(roles), loop)
    v = dict(zip(roles, [e.id for e in loop.target.elts]))       # role -> local name
    sname, dname, fold = "%s.name" % v["strategy"], "%s.name" % v["dataset"], v["cv_fold"]
    idx_item = {v["train_idx"]: "ITrain", v["test_idx"]: "ITest"}
    stmts = list(loop.body)
    checks = []        # (variable, item) in source order
    env = dict(FLAGS)
    i = 0
    # phase A: the existence checks
    while i < len(stmts):
        a = _assign1(stmts[i])
        if not (a and isinstance(a[1], ast.Call) and _u(a[1].func).startswith("self.results.check_")):
            break
        name, call = a
        meth = _u(call.func)[len("self.results."):]
        if meth == "check_predictions_exist":
            b = _bind(call, KEYSIG, meth)
            part = b.get("train_or_test")
            if not (isinstance(part, ast.Constant) and part.value in ("train", "test")):
                _fail("check_predictions_exist: train_or_test must be the literal 'train' or 'test'", call)
            item = ITEM[("csv", part.value)]
        elif meth == "check_fitted_strategy_exists":
            b = _bind(call, KEYSIG[:3], meth)
            item = "IFit"
        else:
            _fail("unknown existence check", call)
        if [_u(b.get(k)) if b.get(k) is not None else None for k in KEYSIG[:3]] != [sname, dname, fold]:
            _fail("%s is not asked about (strategy.name, dataset.name, cv_fold)" % meth, call)
        if name in env:
            _fail("existence-check variable assigned twice", stmts[i])
        env[name] = name
        checks.append((name, item))
        i += 1
    if sorted(it for _, it in checks) != ["IFit", "ITest", "ITrain"]:
        _fail("fit_predict: expected the three existence checks first, found %s" % checks, loop)
    # the skip test
    sk = stmts[i]
    if not (isinstance(sk, ast.If) and not sk.orelse):
        _fail("fit_predict: the skip test must follow the existence checks", sk)
    skip = _bexpr(sk.test, env)
    sb = [s for s in sk.body if not (isinstance(s, ast.Expr) and _u(s.value).startswith("log."))]
    if not (len(sb) == 2 and _expr_call(sb[0], "self.results._append_key")
            and [_u(x) for x in sb[0].value.args] == [sname, dname] and not sb[0].value.keywords
            and isinstance(sb[1], ast.Continue)):
        _fail("fit_predict: the skip branch must register (strategy.name, dataset.name) and continue", sk)
    i += 1
    # the work: fit, then guarded save / predict blocks
    part_of = {}       # local data variable -> item of the positions it was selected with
    ops = []           # (guard or None, op text)
    fitted = False
    for s in stmts[i:]:
        a = _assign1(s)
        if a and isinstance(a[1], ast.Subscript) and _u(a[1].value) == "%s.iloc" % v["data"]:
            ix = _u(a[1].slice)
            if ix not in idx_item:
                _fail("selection of instances by something else than the fold's positions", s)
            part_of[a[0]] = idx_item[ix]
        elif _is_timestamp(s) or _expr_call(s, "self._print_progress"):
            continue
        elif _expr_call(s, "%s.fit" % v["strategy"]):
            args = [_u(x) for x in s.value.args]
            if s.value.keywords or len(args) != 2 or args[0] != v["task"] or part_of.get(args[1]) != "ITrain":
                _fail("strategy.fit is not called as fit(task, <the fold's training instances>)", s)
            if fitted or ops:
                _fail("strategy.fit must be the first and only fit of the iteration", s)
            fitted = True
            ops.append((None, "OFit t"))
        elif isinstance(s, ast.If) and not s.orelse:
            if not fitted:
                _fail("save / predict before the fit", s)
            ops.append((_bexpr(s.test, env), _guarded_block(s, v, sname, dname, fold, idx_item, part_of)))
        else:
            _fail("fit_predict: statement in the loop body", s)
    if not fitted:
        _fail("fit_predict: no strategy.fit in the loop body", loop)
    return {"rejects": rejects, "checks": checks, "skip": skip, "ops": ops}


def _guarded_block(s, v, sname, dname, fold, idx_item, part_of):
    """body of `if <guard>:` -> the op it performs"""
    b = s.body
    if len(b) == 1 and _expr_call(b[0], "self.results.save_fitted_strategy"):
        bd = _bind(b[0].value, ["strategy", "dataset_name", "cv_fold"], "save_fitted_strategy")
        if [_u(bd.get(k)) if bd.get(k) is not None else None for k in ("strategy", "dataset_name", "cv_fold")] \
                != [v["strategy"], dname, fold]:
            _fail("save_fitted_strategy is not given (strategy, dataset.name, cv_fold)", b[0])
        return "OSave t"
    # a predict block
    loc = {}
    call = None
    for st in b:
        a = _assign1(st)
        if _is_timestamp(st):
            continue
        if a and isinstance(a[1], ast.Subscript) and isinstance(a[1].value, ast.Attribute) \
                and a[1].value.attr == "loc" and _u(a[1].slice) == "(slice(None, None, None), %s.target)" % v["task"] \
                or a and isinstance(a[1], ast.Subscript) and _u(a[1]).endswith(".loc[:, %s.target]" % v["task"]):
            src = _u(a[1].value.value)
            if src not in part_of:
                _fail("true values taken from an unknown frame", st)
            loc[a[0]] = ("ytrue", part_of[src])
        elif a and _is_call(a[1], "%s.predict" % v["strategy"]):
            args = [_u(x) for x in a[1].args]
            if a[1].keywords or len(args) != 1 or args[0] not in part_of:
                _fail("strategy.predict is not called on a part of the fold", st)
            loc[a[0]] = ("pred", part_of[args[0]])
        elif a and _is_call(a[1], "self._predict_proba_one"):
            loc[a[0]] = ("proba", None)                      # y_proba is outside the model
        elif _expr_call(st, "self.results.save_predictions") and call is None and st is b[-1]:
            call = st.value
        else:
            _fail("statement in a predict block", st)
    if call is None:
        _fail("a guarded block that neither saves a fitted strategy nor predictions", s)
    sig = ["strategy_name", "dataset_name", "y_true", "y_pred", "y_proba", "index", "cv_fold",
           "train_or_test", "fit_estimator_start_time", "fit_estimator_end_time",
           "predict_estimator_start_time", "predict_estimator_end_time"]
    bd = _bind(call, sig, "save_predictions")
    part = bd.get("train_or_test")
    if not (isinstance(part, ast.Constant) and part.value in ("train", "test")):
        _fail("save_predictions: train_or_test must be the literal 'train' or 'test'", call)
    item = ITEM[("csv", part.value)]
    got = {"strategy_name": _u(bd["strategy_name"]) if "strategy_name" in bd else None,
           "dataset_name": _u(bd["dataset_name"]) if "dataset_name" in bd else None,
           "cv_fold": _u(bd["cv_fold"]) if "cv_fold" in bd else None}
    if got != {"strategy_name": sname, "dataset_name": dname, "cv_fold": fold}:
        _fail("save_predictions is not given (strategy.name, dataset.name, cv_fold)", call)
    if "index" not in bd or idx_item.get(_u(bd["index"])) != item:
        _fail("the record stored as %r does not carry the positions of that part" % part.value, call)
    for k, role in (("y_true", "ytrue"), ("y_pred", "pred")):
        if k not in bd or loc.get(_u(bd[k])) != (role, item):
            _fail("the record stored as %r: %s is not the %s of that part" % (
                part.value, k, "true values" if role == "ytrue" else "prediction"), call)
    return "OPred t %s" % item


# ------------------------------------------------------------------------------------------------
# results.py / base.py


def _key_expr(n, suffix, what):
    """`self._generate_key(<4 fields>) + ".<suffix>"` (suffix None: no suffix) -> {field: text}"""
    if suffix is not None:
        if not (isinstance(n, ast.BinOp) and isinstance(n.op, ast.Add) and isinstance(n.right, ast.Constant)
                and n.right.value == "." + suffix):
            _fail("%s: file name must be _generate_key(...) + '.%s'" % (what, suffix), n)
        n = n.left
    if not _is_call(n, "self._generate_key"):
        _fail("%s: key not built by self._generate_key" % what, n)
    b = _bind(n, KEYSIG, what)
    if sorted(b) != sorted(KEYSIG):
        _fail("%s: _generate_key needs all four fields" % what, n)
    return {k: _u(x) for k, x in b.items()}


def _isfile_result(stmts, var, what):
    """`if os.path.isfile(var): return True else: return False`  or  `return os.path.isfile(var)`"""
    if len(stmts) == 1 and isinstance(stmts[0], ast.Return) and _u(stmts[0].value) == "os.path.isfile(%s)" % var:
        return
    if len(stmts) == 1 and isinstance(stmts[0], ast.If) and _u(stmts[0].test) == "os.path.isfile(%s)" % var \
            and [_u(x) for x in stmts[0].body] == ["return True"] and [_u(x) for x in stmts[0].orelse] == ["return False"]:
        return
    _fail("%s: must answer os.path.isfile(%s)" % (what, var), stmts[0] if stmts else None)


def _uses_all_fields(fn, what):
    """the key function mentions each of its four parameters in what it returns"""
    if _params(fn) != ["self"] + KEYSIG:
        _fail("%s signature" % what, fn)
    names = {n.id for n in ast.walk(fn) if isinstance(n, ast.Name)}
    if not set(KEYSIG) <= names:
        _fail("%s does not use all of %s" % (what, KEYSIG), fn)
    rets = [s for s in ast.walk(fn) if isinstance(s, ast.Return)]
    if len(rets) != 1:
        _fail("%s: exactly one return expected" % what, fn)
    # every field must flow into the returned value: directly or through a local assigned once
    flow = {n.id for n in ast.walk(rets[0]) if isinstance(n, ast.Name)}
    changed = True
    while changed:
        changed = False
        for s in ast.walk(fn):
            a = _assign1(s) if isinstance(s, ast.Assign) else None
            if a and a[0] in flow:
                new = {n.id for n in ast.walk(a[1]) if isinstance(n, ast.Name)} - flow
                if new:
                    flow |= new
                    changed = True
    if not set(KEYSIG) <= flow:
        _fail("%s: the returned key does not depend on all of %s" % (what, KEYSIG), fn)


def _wrapper_sig(base):
    fn = _find(base, "_PredictionsWrapper.__init__")
    a = fn.args
    sig = [x.arg for x in a.args][1:]
    stores = {}
    for s in ast.walk(fn):
        if isinstance(s, ast.Assign) and len(s.targets) == 1 and isinstance(s.targets[0], ast.Attribute) \
                and _u(s.targets[0].value) == "self" and isinstance(s.value, ast.Name):
            stores[s.targets[0].attr] = s.value.id
    for f in ("strategy_name", "dataset_name", "index", "y_true", "y_pred"):
        if stores.get(f) != f or f not in sig:
            _fail("_PredictionsWrapper does not keep its argument %s as attribute %s" % (f, f), fn)
    return sig


def _append_then(stmts, sarg, darg, what):
    """last statement registers the names"""
    s = stmts[-1]
    if not (_expr_call(s, "self._append_key") and [_u(x) for x in s.value.args] == [sarg, darg]
            and not s.value.keywords):
        _fail("%s must end with self._append_key(%s, %s)" % (what, sarg, darg), s)


def _own(fields, mapping):
    return all(fields[k] == mapping.get(k, k) for k in KEYSIG)


def _hdd_facts(res, wsig):
    f = {}
    cls = "HDDResults"
    # existence checks
    fn = _find(res, cls + ".check_predictions_exist")
    if _params(fn) != ["self"] + KEYSIG:
        _fail("check_predictions_exist signature", fn)
    b = _body(fn)
    a = _assign1(b[0])
    if not a or not _own(_key_expr(a[1], "csv", "check_predictions_exist"), {}):
        _fail("check_predictions_exist does not look at the record of its own four arguments", b[0])
    _isfile_result(b[1:], a[0], "check_predictions_exist")
    fn = _find(res, cls + ".check_fitted_strategy_exists")
    if _params(fn) != ["self"] + KEYSIG[:3]:
        _fail("check_fitted_strategy_exists signature", fn)
    b = _body(fn)
    a = _assign1(b[0])
    if not a or not _own(_key_expr(a[1], "pickle", "check_fitted_strategy_exists"), {"train_or_test": "'train'"}):
        _fail("check_fitted_strategy_exists does not look at <strategy>_train_<fold>.pickle", b[0])
    _isfile_result(b[1:], a[0], "check_fitted_strategy_exists")
    f["has_pred"] = f["has_fit"] = "fhas k (sfiles st)"
    # save_predictions
    fn = _find(res, cls + ".save_predictions")
    b = _body(fn)
    if len(b) != 4:
        _fail("HDDResults.save_predictions: key, DataFrame, to_csv, _append_key expected", fn)
    a = _assign1(b[0])
    if not a or not _own(_key_expr(a[1], "csv", "save_predictions"), {}):
        _fail("save_predictions does not write the record of its own four arguments", b[0])
    keyvar = a[0]
    d = _assign1(b[1])
    if not (d and _is_call(d[1], "pd.DataFrame") and len(d[1].args) == 1 and not d[1].keywords
            and isinstance(d[1].args[0], ast.Dict)):
        _fail("save_predictions: pd.DataFrame({...}) expected", b[1])
    cols = {}
    for k, val in zip(d[1].args[0].keys, d[1].args[0].values):
        if not (isinstance(k, ast.Constant) and isinstance(val, ast.Name)):
            _fail("save_predictions: DataFrame column", b[1])
        cols[k.value] = val.id
    if not (_expr_call(b[2], "%s.to_csv" % d[0]) and b[2].value.args and _u(b[2].value.args[0]) == keyvar):
        _fail("save_predictions: the frame is not written to the key", b[2])
    for kw in b[2].value.keywords:
        if kw.arg == "float_format":
            _fail("save_predictions: to_csv(float_format=...) loses digits", b[2])
        if kw.arg not in ("index", "header"):
            _fail("save_predictions: to_csv keyword %s" % kw.arg, b[2])
    _append_then(b, "strategy_name", "dataset_name", "HDDResults.save_predictions")
    f["cols"] = cols
    # load_predictions
    fn = _find(res, cls + ".load_predictions")
    if _params(fn) != ["self", "cv_fold", "train_or_test"]:
        _fail("load_predictions signature", fn)
    b = _body(fn)
    if not (len(b) == 1 and isinstance(b[0], ast.For) and not b[0].orelse and _u(b[0].iter) == "self._iter()"
            and _u(b[0].target) in ("(strategy_name, dataset_name)", "strategy_name, dataset_name")):
        _fail("load_predictions: loop over the registry expected", fn)
    fields, frame, rt = {}, None, False
    yielded = None
    for s in b[0].body:
        a = _assign1(s)
        if a and isinstance(a[1], ast.BinOp):
            if not _own(_key_expr(a[1], "csv", "load_predictions"), {}):
                _fail("load_predictions does not read the record of (strategy, dataset, fold, part)", s)
            keyvar = a[0]
        elif a and _is_call(a[1], "pd.read_csv"):
            if not (a[1].args and _u(a[1].args[0]) == keyvar):
                _fail("load_predictions: read_csv of something else than the key", s)
            kws = {kw.arg: kw.value for kw in a[1].keywords}
            if set(kws) - {"header", "float_precision"} or _u(kws.get("header", ast.Constant(0))) != "0":
                _fail("load_predictions: read_csv keywords", s)
            rt = "float_precision" in kws and _u(kws["float_precision"]) == "'round_trip'"
            frame = a[0]
        elif a and frame and _u(a[1]).startswith("%s.loc[" % frame):
            sl = a[1].value if isinstance(a[1], ast.Attribute) else a[1]
            idx = sl.slice
            if not (isinstance(idx, ast.Tuple) and len(idx.elts) == 2 and isinstance(idx.elts[1], ast.Constant)):
                _fail("load_predictions: column selection", s)
            whole = _u(idx.elts[0]) == "slice(None, None, None)" or _u(sl).startswith("%s.loc[:," % frame)
            fields[a[0]] = (idx.elts[1].value, whole and isinstance(a[1], ast.Attribute) and a[1].attr == "values")
        elif isinstance(s, ast.Expr) and isinstance(s.value, ast.Yield) and _is_call(s.value.value, "_PredictionsWrapper"):
            yielded = _bind(s.value.value, wsig, "_PredictionsWrapper")
        else:
            _fail("load_predictions: statement", s)
    if yielded is None:
        _fail("load_predictions yields nothing", fn)
    if [_u(yielded[k]) for k in ("strategy_name", "dataset_name")] != ["strategy_name", "dataset_name"]:
        _fail("load_predictions: record not labelled with the registry names", fn)
    back = {}
    for k in ("index", "y_true", "y_pred"):
        src = fields.get(_u(yielded[k]))
        if not src or not src[1]:
            _fail("load_predictions: %s is not a whole column of the file" % k, fn)
        back[k] = src[0]
    f["back"] = back
    f["round_trip"] = rt
    # fitted strategies
    fn = _find(res, cls + ".save_fitted_strategy")
    if _params(fn) != ["self", "strategy", "dataset_name", "cv_fold"]:
        _fail("save_fitted_strategy signature", fn)
    b = _body(fn)
    a = _assign1(b[0])
    if not (len(b) == 3 and a and _own(_key_expr(a[1], "pickle", "save_fitted_strategy"),
                                       {"strategy_name": "strategy.name", "train_or_test": "'train'"})
            and _expr_call(b[1], "strategy.save") and [_u(x) for x in b[1].value.args] == [a[0]]):
        _fail("save_fitted_strategy: must pickle the strategy under <strategy>_train_<fold>.pickle", fn)
    _append_then(b, "strategy.name", "dataset_name", "HDDResults.save_fitted_strategy")
    _uses_all_fields(_find(res, cls + "._generate_key"), "HDDResults._generate_key")
    return f


def _ram_facts(res, wsig):
    f = {}
    cls = "RAMResults"
    for meth, sig in (("check_predictions_exist", 4), ("check_fitted_strategy_exists", 3)):
        fn = _find(res, cls + "." + meth)
        b = _body(fn)
        if len(_params(fn)) != 1 + sig or [_u(s) for s in b] != ["return False"]:
            _fail("RAMResults.%s is not `return False`" % meth, fn)
    f["has_pred"] = f["has_fit"] = "false"
    fn = _find(res, cls + ".save_fitted_strategy")
    b = _body(fn)
    if not (len(b) == 1 and isinstance(b[0], ast.Raise) and _u(b[0].exc).startswith("NotImplementedError")):
        _fail("RAMResults.save_fitted_strategy is not `raise NotImplementedError()`", fn)
    fn = _find(res, cls + ".save")
    if [_u(s) for s in _body(fn)] != ["pass"]:
        _fail("RAMResults.save is not `pass`", fn)
    # save_predictions
    fn = _find(res, cls + ".save_predictions")
    b = _body(fn)
    a = _assign1(b[0])
    if not a or not _own(_key_expr(a[1], None, "RAMResults.save_predictions"), {}):
        _fail("RAMResults.save_predictions does not store under the key of its own four arguments", b[0])
    keyvar = a[0]
    stored = None
    for s in b[1:-1]:
        x = _assign1(s)
        if x and _is_call(x[1], "np.asarray") and [_u(y) for y in x[1].args] == [x[0]] and not x[1].keywords:
            continue                                   # v = np.asarray(v)
        if isinstance(s, ast.Assign) and len(s.targets) == 1 and _u(s.targets[0]) == "self.results[%s]" % keyvar \
                and _is_call(s.value, "_PredictionsWrapper") and stored is None:
            stored = _bind(s.value, wsig, "_PredictionsWrapper")
            continue
        _fail("RAMResults.save_predictions: statement", s)
    if stored is None:
        _fail("RAMResults.save_predictions stores nothing", fn)
    for k in ("strategy_name", "dataset_name"):
        if _u(stored[k]) != k:
            _fail("RAMResults.save_predictions: record not labelled with its own %s" % k, fn)
    f["cols"] = {k: _u(stored[k]) for k in ("index", "y_true", "y_pred")}
    f["back"] = {"index": "index", "y_true": "y_true", "y_pred": "y_pred"}      # the same object
    _append_then(b, "strategy_name", "dataset_name", "RAMResults.save_predictions")
    # load_predictions
    fn = _find(res, cls + ".load_predictions")
    b = _body(fn)
    ok = (len(b) == 1 and isinstance(b[0], ast.For) and _u(b[0].iter) == "self._iter()"
          and _u(b[0].target) in ("(strategy_name, dataset_name)", "strategy_name, dataset_name")
          and len(b[0].body) == 2)
    if ok:
        a = _assign1(b[0].body[0])
        ok = bool(a) and _own(_key_expr(a[1], None, "RAMResults.load_predictions"), {}) \
            and _u(b[0].body[1]) == "yield self.results[%s]" % a[0]
    if not ok:
        _fail("RAMResults.load_predictions: must yield self.results[key] over the registry", fn)
    _uses_all_fields(_find(res, cls + "._generate_key"), "RAMResults._generate_key")
    return f


def _base_facts(base):
    f = {}
    # _append_key: `if x not in self.L: self.L.append(x)` twice
    fn = _find(base, "BaseResults._append_key")
    if _params(fn) != ["self", "strategy_name", "dataset_name"]:
        _fail("_append_key signature", fn)
    upd = {}
    for s in _body(fn):
        ok = isinstance(s, ast.If) and not s.orelse and len(s.body) == 1 \
            and isinstance(s.test, ast.Compare) and len(s.test.ops) == 1 and isinstance(s.test.ops[0], ast.NotIn) \
            and isinstance(s.test.left, ast.Name)
        if ok:
            lst = _u(s.test.comparators[0])
            ok = lst in ("self.strategy_names", "self.dataset_names") and lst not in upd \
                and _u(s.body[0]) == "%s.append(%s)" % (lst, s.test.left.id)
        if not ok:
            _fail("_append_key: `if name not in self.<list>: self.<list>.append(name)` expected", s)
        upd[lst] = s.test.left.id
    f["append"] = upd
    # registry iteration
    fn = _find(base, "BaseResults._iter")
    b = _body(fn)
    ok = len(b) == 1 and isinstance(b[0], ast.For) and len(b[0].body) == 1 and isinstance(b[0].body[0], ast.For) \
        and len(b[0].body[0].body) == 1
    if ok:
        o, i = b[0], b[0].body[0]
        ok = isinstance(o.target, ast.Name) and isinstance(i.target, ast.Name) \
            and {_u(o.iter), _u(i.iter)} == {"self.strategy_names", "self.dataset_names"}
        if ok:
            role = {_u(o.iter): o.target.id, _u(i.iter): i.target.id}
            ok = _u(i.body[0]) == "yield (%s, %s)" % (role["self.strategy_names"], role["self.dataset_names"])
            f["reg_outer"] = "s" if _u(o.iter) == "self.strategy_names" else "d"
    if not ok:
        _fail("BaseResults._iter: nested loops over the two name lists yielding (strategy, dataset)", fn)
    # HDDBaseResults.save
    fn = _find(base, "HDDBaseResults.save")
    b = _body(fn)
    a = _assign1(b[0]) if b else None
    if not (len(b) == 2 and a and _u(a[1]) == "os.path.join(self.path, 'results.pickle')"
            and isinstance(b[1], ast.If) and _u(b[1].test) == "not os.path.isfile(%s)" % a[0]
            and [_u(s) for s in b[1].body] == ["dump(self, %s)" % a[0]]):
        _fail("HDDBaseResults.save: first-master-file branch", fn)
    el = b[1].orelse
    ld = _assign1(el[0]) if el else None
    if not (len(el) == 4 and ld and _u(ld[1]) == "load(%s)" % a[0] and _u(el[3]) == "dump(self, %s)" % a[0]):
        _fail("HDDBaseResults.save: merge branch", fn)
    merge = {}
    for s in el[1:3]:
        if not (isinstance(s, ast.Assign) and len(s.targets) == 1):
            _fail("HDDBaseResults.save: merge assignment", s)
        tgt = _u(s.targets[0])
        val = s.value
        if not (tgt in ("self.strategy_names", "self.dataset_names") and _is_call(val, "list") and len(val.args) == 1
                and _is_call(val.args[0], "set") and len(val.args[0].args) == 1
                and isinstance(val.args[0].args[0], ast.BinOp) and isinstance(val.args[0].args[0].op, ast.Add)):
            _fail("HDDBaseResults.save: list(set(a + b)) expected", s)
        l, r = _u(val.args[0].args[0].left), _u(val.args[0].args[0].right)
        attr = tgt[len("self."):]
        if {l, r} != {tgt, "%s.%s" % (ld[0], attr)}:
            _fail("HDDBaseResults.save: %s is not merged with the master file's %s" % (tgt, attr), s)
        merge[attr] = "own_first" if l == tgt else "master_first"
    if sorted(merge) != ["dataset_names", "strategy_names"]:
        _fail("HDDBaseResults.save: both name lists must be merged", fn)
    f["merge"] = merge
    return f


# ------------------------------------------------------------------------------------------------
# emission

HEADER = """(* GENERATED by /verif/translator/orch_c19.py from %s, %s, %s
   -- do not edit, never committed *)
From Coq Require Import ZArith List Bool.
Require Import SkV.Lib.Base SkV.Lib.ZRange SkV.C19.Model.
Import ListNotations.
Open Scope Z_scope.

"""


def _cols_term(cols, args):
    """content written for the arguments `args` = (index, y_true, y_pred) given the column map"""
    for c in ("index", "y_true", "y_pred"):
        if cols.get(c) not in args:
            _fail("column %s does not receive one of the arguments %s" % (c, args))
    return "Pred %s %s %s" % tuple("a_" + cols[c] for c in ("index", "y_true", "y_pred"))


def _back_term(back):
    for k in ("index", "y_true", "y_pred"):
        if back.get(k) not in ("index", "y_true", "y_pred"):
            _fail("field %s is read from column %r" % (k, back.get(k)))
    return "(%s, %s, %s)" % tuple("c_" + back[k] for k in ("index", "y_true", "y_pred"))


def translate(repo):
    mods = {}
    for rel in (ORCH, RES, BASE):
        with open(os.path.join(repo, rel)) as fh:
            mods[rel] = ast.parse(fh.read())
    it = _iter_facts(mods[ORCH])
    fp = _fit_predict_facts(mods[ORCH], it["roles"])
    wsig = _wrapper_sig(mods[BASE])
    hdd = _hdd_facts(mods[RES], wsig)
    ram = _ram_facts(mods[RES], wsig)
    base = _base_facts(mods[BASE])
    o = [HEADER % (ORCH, RES, BASE)]
    o.append("(* Orchestrator.fit_predict: `if <this>: raise ValueError` before anything else *)\n"
             "Definition gen_rejects (fl : flags) : bool := %s.\n\n" % fp["rejects"])
    o.append("(* check_predictions_exist / check_fitted_strategy_exists of HDDResults and RAMResults *)\n"
             "Definition gen_has_pred (hdd : bool) (k : key) (st : store) : bool :=\n"
             "  if hdd then %s else %s.\n"
             "Definition gen_has_fit (hdd : bool) (k : key) (st : store) : bool :=\n"
             "  if hdd then %s else %s.\n\n" % (hdd["has_pred"], ram["has_pred"], hdd["has_fit"], ram["has_fit"]))
    lets = "".join("  let %s := %s hdd (tkey t %s) st in\n" % (
        n, "gen_has_fit" if item == "IFit" else "gen_has_pred", item) for n, item in fp["checks"])
    work = " ++\n       ".join("[%s]" % op if g is None else "(if %s then [%s] else [])" % (g, op)
                               for g, op in fp["ops"])
    o.append("(* the body of the loop of fit_predict, statement by statement in source order *)\n"
             "Definition gen_plan_task (hdd : bool) (fl : flags) (st : store) (t : task) : list op :=\n"
             "%s  if %s\n  then [OReg t]\n  else %s.\n\n" % (lets, fp["skip"], work))
    # _iter
    inner = ("map (fun ff => {| ts := fst s; td := d_name d; tf := fst ff; tparam := snd s;\n"
             "                        trows := d_rows d; ttrain := fst (snd ff); ttest := snd (snd ff) |})\n"
             "          (enumerate_from %d (d_folds d))" % it["start"])
    if it["nest"] == ["data", "strat"]:
        nest = "flat_map (fun d =>\n    flat_map (fun s =>\n      %s)\n      strats)\n    data" % inner
    else:
        nest = "flat_map (fun s =>\n    flat_map (fun d =>\n      %s)\n      data)\n    strats" % inner
    o.append("(* Orchestrator._iter: the loop nest, outermost first: %s, folds; folds numbered from %d *)\n"
             "Definition gen_tasks_of (strats : list strategy) (data : list dataset) : list task :=\n  %s.\n"
             "(* `strategy = clone(strategy)` inside the fold loop, before the yield *)\n"
             "Definition gen_clone_per_fold : bool := %s.\n\n" % (
                 ", ".join(it["nest"]), it["start"], nest, "true" if it["clone_per_fold"] else "false"))
    # _append_key
    ap = base["append"]
    o.append("(* BaseResults._append_key *)\n"
             "Definition gen_append_key (strategy_name dataset_name : Z) (st : store) : store :=\n"
             "  {| sfiles := sfiles st; master := master st;\n"
             "     snames := %s;\n     dnames := %s |}.\n\n" % (
                 "(if mem %s (snames st) then snames st else snames st ++ [%s])" % (
                     ap["self.strategy_names"], ap["self.strategy_names"]) if "self.strategy_names" in ap
                 else "snames st",
                 "(if mem %s (dnames st) then dnames st else dnames st ++ [%s])" % (
                     ap["self.dataset_names"], ap["self.dataset_names"]) if "self.dataset_names" in ap
                 else "dnames st"))
    # save
    mg = base["merge"]

    def m(attr, own, other):
        return "merge_names (%s) %s" % (own, other) if mg[attr] == "own_first" else "merge_names %s (%s)" % (other, own)
    o.append("(* HDDBaseResults.save (no master file yet: dump; else merge both name lists, dump) and\n"
             "   RAMResults.save (pass) *)\n"
             "Definition gen_save (hdd : bool) (st : store) : store :=\n"
             "  if hdd then\n    match master st with\n"
             "    | None => {| sfiles := sfiles st; master := Some (snames st, dnames st);\n"
             "                 snames := snames st; dnames := dnames st |}\n"
             "    | Some (ms, md) =>\n        let sn := %s in\n        let dn := %s in\n"
             "        {| sfiles := sfiles st; master := Some (sn, dn); snames := sn; dnames := dn |}\n"
             "    end\n  else st.\n\n" % (m("strategy_names", "snames st", "ms"), m("dataset_names", "dnames st", "md")))
    # stored / loaded records
    o.append("(* save_predictions: which column (HDD) / record field (RAM) receives which argument *)\n"
             "Definition gen_stored (hdd : bool) (a_index a_y_true a_y_pred : list Z) : content :=\n"
             "  if hdd then %s else %s.\n"
             "(* load_predictions: which stored column is returned as index, y_true, y_pred *)\n"
             "Definition gen_loaded (hdd : bool) (c : content) : option (list Z * list Z * list Z) :=\n"
             "  match c with\n  | Pred c_index c_y_true c_y_pred => Some (if hdd then %s else %s)\n"
             "  | Fit _ => None\n  end.\n"
             "(* pd.read_csv(..., float_precision=\"round_trip\") in HDDResults.load_predictions *)\n"
             "Definition gen_float_round_trip : bool := %s.\n\n" % (
                 _cols_term(hdd["cols"], ("index", "y_true", "y_pred")),
                 _cols_term(ram["cols"], ("index", "y_true", "y_pred")),
                 _back_term(hdd["back"]), _back_term(ram["back"]), "true" if hdd["round_trip"] else "false"))
    o.append("(* save_predictions of both stores: write the entry, then _append_key *)\n"
             "Definition gen_save_predictions (hdd : bool) (k : key) (c : content) (s d : Z) (st : store) : store :=\n"
             "  gen_append_key s d (write k c st).\n"
             "(* save_fitted_strategy: HDDResults pickles then _append_key; RAMResults raises *)\n"
             "Definition gen_save_fitted (hdd : bool) (k : key) (c : content) (s d : Z) (st : store)\n"
             "  : option store := if hdd then Some (gen_append_key s d (write k c st)) else None.\n\n")
    reg = ("flat_map (fun s => map (fun d => (s, d)) (dnames st)) (snames st)" if base["reg_outer"] == "s"
           else "flat_map (fun d => map (fun s => (s, d)) (snames st)) (dnames st)")
    o.append("(* load_predictions over BaseResults._iter: one record per registered strategy x dataset *)\n"
             "Definition gen_load (st : store) (f : Z) (it : item) : option (list (Z * Z * content)) :=\n"
             "  all_some (map (fun sd => match fget (fst sd, snd sd, f, it) (sfiles st) with\n"
             "                           | Some c => Some (fst sd, snd sd, c) | None => None end)\n"
             "                (%s)).\n" % reg)
    return {"C19/Gen.v": "".join(o)}


if __name__ == "__main__":
    import sys
    print(translate(sys.argv[1] if len(sys.argv) > 1 else "/repo")["C19/Gen.v"])
