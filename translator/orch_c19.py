"""C19: regenerate the control skeleton of the benchmark orchestration as Gallina (C19/Gen.v).

A fail-closed FACT EXTRACTOR BY SYMBOLIC EXECUTION over
    sktime/benchmarking/orchestration.py   Orchestrator.fit_predict, Orchestrator._iter
    sktime/benchmarking/results.py         HDDResults, RAMResults (every method the run uses)
    sktime/benchmarking/base.py            BaseResults._append_key, BaseResults._iter,
                                           HDDBaseResults.save, _PredictionsWrapper.__init__

The functions are not matched statement by statement against expected texts.  They are EXECUTED
on symbolic values (class `Exec`): expressions evaluate to terms, every call the executor does not
inline is appended to a trace in evaluation order, `if` statements fork the execution (the
statements after the `if` are run in both branches, so guard clauses, early `continue` / `return`,
if/else nesting and merged conditions all yield the same tree), local names are just an
environment (renaming, introducing or inlining temporaries changes nothing), private helpers -
`self._helper(...)` methods of the same class and module-level functions of the same file that are
not part of the modelled API - are inlined with argument binding (positional, keyword, defaults),
comprehensions over literal tuples (also module constants) are expanded, `*list` arguments are
spread.  The facts are then read off the resulting execution tree:

  * fit_predict: the flag-validation condition                                  -> gen_rejects
    the loop body as a decision tree over the flags and the three existence checks whose leaves
    are sequences of the modelled operations (register / fit / save fitted strategy / predict+store
    train / predict+store test)                                                 -> gen_plan_task
    (the Bridge proves it equal to the model's plan_task by exhausting the booleans - any
    equivalent control structure proves), results.save() exactly once, after the loop
  * _iter: the loop nest, the first fold number, where the strategy is cloned
                                                         -> gen_tasks_of, gen_clone_per_fold
  * both stores' existence checks                        -> gen_has_pred, gen_has_fit
  * _append_key                                          -> gen_append_key
  * save() of both stores                                -> gen_save
  * save_predictions / load_predictions: column <-> argument <-> field    -> gen_stored, gen_loaded
    the registry iteration                               -> gen_load
    the float parser                                     -> gen_float_round_trip
  * save_predictions / save_fitted_strategy: write, then register
                                                         -> gen_save_predictions, gen_save_fitted
Fail closed: a call that is neither inlined nor known (NEUTRAL below: logging, timestamps, path
arithmetic, array conversion) nor one of the operations a fact expects makes the extractor raise;
so does a value that reaches a modelled operation but is not what the model says (a record stored
under the "train" key must carry the training positions, the training targets and the prediction
on the training instances; check / save / load must address the same file ...).
"""
import ast
import os

from .pyz import Unsupported

ORCH = "sktime/benchmarking/orchestration.py"
RES = "sktime/benchmarking/results.py"
BASE = "sktime/benchmarking/base.py"

FLAGS = {"overwrite_predictions": "(ow_pred fl)", "predict_on_train": "(on_train fl)",
         "save_fitted_strategies": "(save_fit fl)", "overwrite_fitted_strategies": "(ow_fit fl)"}
KEYSIG = ["strategy_name", "dataset_name", "cv_fold", "train_or_test"]
ITEM = {("csv", "train"): "ITrain", ("csv", "test"): "ITest", ("pickle", "train"): "IFit"}


def _u(n):
    return ast.unparse(n)


def _fail(msg, node=None):
    where = ""
    if isinstance(node, ast.AST):
        where = " [line %s: %s]" % (getattr(node, "lineno", "?"), _u(node)[:120])
    elif node is not None:
        where = " [%s]" % show(node)[:200]
    raise Unsupported("orch_c19: %s%s" % (msg, where))


# ------------------------------------------------------------------------------------------------
# terms

def C(v):
    return ("const", v)


SLICE_ALL = ("slice", C(None), C(None), C(None))
TRUE, FALSE, NONE = C(True), C(False), C(None)


def show(t):
    if not isinstance(t, tuple) or not t:
        return repr(t)
    k = t[0]
    if k == "const":
        return repr(t[1])
    if k in ("param", "global", "loopvar", "role", "flag"):
        return t[1]
    if k == "self":
        return "self"
    if k == "proj":
        return "%s#%d" % (show(t[1]), t[2])
    if k == "attr":
        return "%s.%s" % (show(t[1]), t[2])
    if k == "call":
        return "%s(%s)" % (show(t[1]), ", ".join([show(a) for a in t[2]] + ["%s=%s" % (n, show(v)) for n, v in t[3]]))
    if k == "sub":
        return "%s[%s]" % (show(t[1]), show(t[2]))
    if k in ("tuple", "list", "genkey"):
        return "%s(%s)" % ("" if k != "genkey" else "key", ", ".join(show(x) for x in t[1]))
    return "%s(%s)" % (k, ", ".join(show(x) if isinstance(x, tuple) else repr(x) for x in t[1:]))


def mk_not(x):
    if x[0] == "not":
        return x[1]
    if x[0] == "const" and isinstance(x[1], bool):
        return C(not x[1])
    if x[0] == "cmp" and x[1] in ("in", "notin"):
        return ("cmp", "notin" if x[1] == "in" else "in", x[2], x[3])
    return ("not", x)


# ------------------------------------------------------------------------------------------------
# execution trees:  ("eff", effect, next) | ("if", cond, then, else) | ("ret", value)
#                   | ("cont",) | ("raise", value) | ("end",)


class Ctx:
    """one module + one class: where helpers are looked up"""

    def __init__(self, mod, clsname=None, primitives=(), hook=None):
        self.mod = mod
        self.functions = {n.name: n for n in mod.body if isinstance(n, ast.FunctionDef)}
        self.methods = {}
        self.static = set()
        if clsname:
            cls = [n for n in mod.body if isinstance(n, ast.ClassDef) and n.name == clsname]
            if len(cls) != 1:
                _fail("expected exactly one class %s" % clsname)
            for n in cls[0].body:
                if isinstance(n, ast.FunctionDef):
                    if n.name in self.methods:
                        _fail("method %s.%s defined twice" % (clsname, n.name))
                    self.methods[n.name] = n
                    if any(_u(d) == "staticmethod" for d in n.decorator_list):
                        self.static.add(n.name)
        self.consts = {}
        for n in mod.body:
            if isinstance(n, ast.Assign) and len(n.targets) == 1 and isinstance(n.targets[0], ast.Name):
                try:
                    v = ast.literal_eval(n.value)
                except Exception:
                    continue
                self.consts[n.targets[0].id] = _lit(v)
        self.primitives = set(primitives)
        self.hook = hook or (lambda t: t)
        self.depth = 0

    def method(self, name):
        if name not in self.methods:
            _fail("missing method %s" % name)
        return self.methods[name]


def _lit(v):
    if isinstance(v, (tuple, list)):
        return ("tuple" if isinstance(v, tuple) else "list", tuple(_lit(x) for x in v))
    return C(v)


def _params(fn, drop_self):
    a = fn.args
    if a.vararg or a.kwarg or a.kwonlyargs or a.posonlyargs:
        _fail("unsupported parameter list of %s" % fn.name, fn)
    names = [x.arg for x in a.args]
    defaults = dict(zip(names[len(names) - len(a.defaults):], a.defaults))
    if drop_self:
        names = names[1:]
    return names, defaults


class Exec:
    def __init__(self, ctx, loop_binder=None):
        self.ctx = ctx
        self.loop_binder = loop_binder       # (for statement, iterable term) -> {name: term} or None

    # ---------------------------------------------------------------- expressions
    def ev(self, e, env, eff):
        """-> term; calls that are not inlined are appended to `eff` in evaluation order"""
        h = self.ctx.hook
        if isinstance(e, ast.Constant):
            return C(e.value)
        if isinstance(e, ast.Name):
            if e.id in env:
                return env[e.id]
            if e.id in self.ctx.consts:
                return self.ctx.consts[e.id]
            return ("global", e.id)
        if isinstance(e, ast.Attribute):
            return h(("attr", self.ev(e.value, env, eff), e.attr))
        if isinstance(e, (ast.Tuple, ast.List)):
            items = []
            for x in e.elts:
                if isinstance(x, ast.Starred):
                    v = self.ev(x.value, env, eff)
                    if v[0] not in ("tuple", "list"):
                        _fail("cannot spread a value of unknown length", x)
                    items.extend(v[1])
                else:
                    items.append(self.ev(x, env, eff))
            return ("tuple" if isinstance(e, ast.Tuple) else "list", tuple(items))
        if isinstance(e, ast.Dict):
            if any(k is None for k in e.keys):
                _fail("dict unpacking", e)
            return ("dict", tuple((self.ev(k, env, eff), self.ev(v, env, eff)) for k, v in zip(e.keys, e.values)))
        if isinstance(e, ast.JoinedStr):
            parts = []
            for p in e.values:
                if isinstance(p, ast.FormattedValue):
                    v = self.ev(p.value, env, eff)
                    if v[0] == "call" and v[1] == ("global", "str") and len(v[2]) == 1 and not v[3]:
                        v = v[2][0]                      # f"{str(x)}" == f"{x}"
                    parts.append(("fmt", v))
                else:
                    parts.append(self.ev(p, env, eff))
            return ("fstr", tuple(parts))
        if isinstance(e, ast.BinOp):
            a, b = self.ev(e.left, env, eff), self.ev(e.right, env, eff)
            return h(("add", a, b) if isinstance(e.op, ast.Add) else ("binop", type(e.op).__name__, a, b))
        if isinstance(e, ast.UnaryOp) and isinstance(e.op, ast.Not):
            return mk_not(self.ev(e.operand, env, eff))
        if isinstance(e, ast.BoolOp):
            # (short circuit: operands of the modelled conditions are pure reads)
            k = "and" if isinstance(e.op, ast.And) else "or"
            vals = []
            for x in e.values:
                v = self.ev(x, env, eff)
                vals.extend(v[1] if v[0] == k else [v])
            return (k, tuple(vals))
        if isinstance(e, ast.Compare) and len(e.ops) == 1:
            op = {ast.In: "in", ast.NotIn: "notin", ast.Eq: "eq", ast.NotEq: "ne", ast.Is: "is",
                  ast.IsNot: "isnot", ast.Lt: "lt", ast.LtE: "le", ast.Gt: "gt", ast.GtE: "ge"}.get(type(e.ops[0]))
            if op is None:
                _fail("comparison", e)
            return ("cmp", op, self.ev(e.left, env, eff), self.ev(e.comparators[0], env, eff))
        if isinstance(e, ast.IfExp):
            return ("ite", self.ev(e.test, env, eff), self.ev(e.body, env, eff), self.ev(e.orelse, env, eff))
        if isinstance(e, ast.Slice):
            f = lambda x: NONE if x is None else self.ev(x, env, eff)
            return ("slice", f(e.lower), f(e.upper), f(e.step))
        if isinstance(e, ast.Subscript):
            return h(("sub", self.ev(e.value, env, eff), self.ev(e.slice, env, eff)))
        if isinstance(e, (ast.ListComp, ast.GeneratorExp)):
            return self._comp(e, env, eff)
        if isinstance(e, ast.Call):
            return self._call(e, env, eff)
        if isinstance(e, ast.Starred):
            _fail("starred expression", e)
        _fail("unsupported expression", e)

    def _comp(self, e, env, eff):
        if len(e.generators) != 1 or e.generators[0].ifs or e.generators[0].is_async:
            return ("opaque", ast.dump(e))
        g = e.generators[0]
        it = self.ev(g.iter, env, eff)
        if it[0] not in ("tuple", "list"):
            return ("comp", ast.dump(e.elt), ast.dump(g.target), it)
        out = []
        for item in it[1]:
            e2 = dict(env)
            self._bind_target(g.target, item, e2)
            out.append(self.ev(e.elt, e2, eff))
        return ("list", tuple(out))

    def _bind_target(self, tgt, val, env):
        if isinstance(tgt, ast.Name):
            env[tgt.id] = val
        elif isinstance(tgt, (ast.Tuple, ast.List)):
            if val[0] in ("tuple", "list") and len(val[1]) == len(tgt.elts):
                for t, v in zip(tgt.elts, val[1]):
                    self._bind_target(t, v, env)
            else:
                for i, t in enumerate(tgt.elts):
                    self._bind_target(t, ("proj", val, i, len(tgt.elts)), env)
        else:
            _fail("assignment target", tgt)

    def _args(self, e, env, eff):
        args = []
        for a in e.args:
            if isinstance(a, ast.Starred):
                v = self.ev(a.value, env, eff)
                if v[0] not in ("tuple", "list"):
                    _fail("cannot spread an argument list of unknown length", e)
                args.extend(v[1])
            else:
                args.append(self.ev(a, env, eff))
        kws = []
        for kw in e.keywords:
            if kw.arg is None:
                _fail("**kwargs in a call", e)
            kws.append((kw.arg, self.ev(kw.value, env, eff)))
        return args, kws

    def _helper_of(self, e):
        """the FunctionDef to inline for this call, or None"""
        f = e.func
        c = self.ctx
        if isinstance(f, ast.Attribute) and isinstance(f.value, ast.Name) and f.value.id == "self" \
                and f.attr in c.methods and f.attr not in c.primitives:
            return c.methods[f.attr], f.attr not in c.static
        if isinstance(f, ast.Name) and f.id in c.functions and f.id not in c.primitives:
            return c.functions[f.id], False
        return None

    def bind_call(self, fn, drop_self, args, kws, env, eff, what):
        names, defaults = _params(fn, drop_self)
        out = {}
        if len(args) > len(names):
            _fail("%s: too many positional arguments" % what, fn)
        for n, a in zip(names, args):
            out[n] = a
        for n, v in kws:
            if n not in names or n in out:
                _fail("%s: keyword %s" % (what, n), fn)
            out[n] = v
        for n in names:
            if n not in out:
                if n not in defaults:
                    _fail("%s: missing argument %s" % (what, n), fn)
                out[n] = self.ev(defaults[n], {}, eff)
        return out

    def _call(self, e, env, eff):
        hp = self._helper_of(e)
        if hp is not None:
            node = self.call_helper(hp, e, env, eff, lambda v: ("ret", v))
            return self._flatten(node, eff, e)
        fv = self.ev(e.func, env, eff)
        args, kws = self._args(e, env, eff)
        t = self.ctx.hook(("call", fv, tuple(args), tuple(sorted(kws))))
        if t[0] == "call":
            eff.append(t)
        elif t[0] == "traced":           # hook: a modelled read/operation with a value of its own
            eff.append(t[1])
            t = t[2]
        return t

    def call_helper(self, hp, e, env, eff, kr):
        fn, drop_self = hp
        if self.ctx.depth > 6:
            _fail("helper nesting too deep (recursion?)", e)
        args, kws = self._args(e, env, eff)
        env2 = self.bind_call(fn, drop_self, args, kws, env, eff, fn.name)
        if drop_self:
            env2["self"] = env.get("self", ("self",))
        self.ctx.depth += 1
        try:
            return self.run(_body(fn), env2, lambda _e: kr(NONE), kr)
        finally:
            self.ctx.depth -= 1

    def _flatten(self, node, eff, where):
        """helper used as a value: straight-line effects then a value, or a pure conditional"""
        while node[0] == "eff":
            eff.append(node[1])
            node = node[2]
        if node[0] == "ret":
            return node[1]
        if node[0] == "if":
            a, b = self._pure(node[2], where), self._pure(node[3], where)
            return simplify_ite(node[1], a, b)
        _fail("helper does not return a value here", where)

    def _pure(self, node, where):
        if node[0] == "ret":
            return node[1]
        if node[0] == "if":
            return simplify_ite(node[1], self._pure(node[2], where), self._pure(node[3], where))
        _fail("a helper with conditional effects is used inside an expression", where)

    # ---------------------------------------------------------------- statements
    def run(self, stmts, env, kf, kr, kc=None):
        """execute `stmts`; kf(env) continues after falling off the end, kr(value) after `return`,
        kc(env) after `continue` (None: the symbolic loop's next iteration, terminal ("cont",))"""
        if not stmts:
            return kf(env)
        s, rest = stmts[0], stmts[1:]
        nxt = lambda e2: self.run(rest, e2, kf, kr, kc)
        if isinstance(s, ast.Expr) and isinstance(s.value, ast.Constant):
            return nxt(env)
        if isinstance(s, ast.Pass):
            return nxt(env)
        if isinstance(s, (ast.Import, ast.ImportFrom)):
            return nxt(env)
        if isinstance(s, ast.Expr) and isinstance(s.value, ast.Call) and self._helper_of(s.value):
            eff = []
            node = self.call_helper(self._helper_of(s.value), s.value, env, eff, lambda v: nxt(env))
            return _chain(eff, node)
        if isinstance(s, ast.Expr) and isinstance(s.value, (ast.Yield, ast.YieldFrom)):
            if isinstance(s.value, ast.YieldFrom) or s.value.value is None:
                _fail("yield form", s)
            eff = []
            v = self.ev(s.value.value, env, eff)
            return _chain(eff + [("yield", v)], nxt(env))
        if isinstance(s, ast.Expr):
            eff = []
            self.ev(s.value, env, eff)
            return _chain(eff, nxt(env))
        if isinstance(s, ast.Assign):
            if len(s.targets) != 1:
                _fail("chained assignment", s)
            tgt = s.targets[0]
            if isinstance(s.value, ast.Call) and self._helper_of(s.value) and isinstance(tgt, (ast.Name, ast.Tuple)):
                eff = []

                def k(v, tgt=tgt):
                    e2 = dict(env)
                    self._bind_target(tgt, v, e2)
                    return nxt(e2)
                node = self.call_helper(self._helper_of(s.value), s.value, env, eff, k)
                return _chain(eff, node)
            eff = []
            v = self.ev(s.value, env, eff)
            if isinstance(tgt, (ast.Name, ast.Tuple, ast.List)):
                e2 = dict(env)
                self._bind_target(tgt, v, e2)
                return _chain(eff, nxt(e2))
            if isinstance(tgt, ast.Attribute):
                eff.append(("setattr", self.ev(tgt.value, env, eff), tgt.attr, v))
                return _chain(eff, nxt(env))
            if isinstance(tgt, ast.Subscript):
                eff.append(("setitem", self.ev(tgt.value, env, eff), self.ev(tgt.slice, env, eff), v))
                return _chain(eff, nxt(env))
            _fail("assignment target", s)
        if isinstance(s, ast.AugAssign):
            eff = []
            v = self.ev(s.value, env, eff)
            if isinstance(s.target, ast.Attribute):
                eff.append(("augattr", self.ev(s.target.value, env, eff), s.target.attr, type(s.op).__name__, v))
                return _chain(eff, nxt(env))
            if isinstance(s.target, ast.Name):
                e2 = dict(env)
                e2[s.target.id] = ("binop", type(s.op).__name__, env.get(s.target.id, ("global", s.target.id)), v)
                return _chain(eff, nxt(e2))
            _fail("augmented assignment target", s)
        if isinstance(s, ast.Return):
            if s.value is not None and isinstance(s.value, ast.Call) and self._helper_of(s.value):
                eff = []
                node = self.call_helper(self._helper_of(s.value), s.value, env, eff, kr)
                return _chain(eff, node)
            eff = []
            v = NONE if s.value is None else self.ev(s.value, env, eff)
            return _chain(eff, kr(v))
        if isinstance(s, ast.Raise):
            eff = []
            v = NONE if s.exc is None else self.ev_quiet(s.exc, env)
            return _chain(eff, ("raise", v))
        if isinstance(s, ast.Continue):
            return kc(env) if kc else ("cont",)
        if isinstance(s, ast.Break):
            _fail("break", s)
        if isinstance(s, ast.If):
            eff = []
            c = self.ev(s.test, env, eff)
            if c == TRUE:
                return _chain(eff, self.run(list(s.body) + rest, env, kf, kr, kc))
            if c == FALSE:
                return _chain(eff, self.run(list(s.orelse) + rest, env, kf, kr, kc))
            a = self.run(list(s.body), env, nxt, kr, kc)
            b = self.run(list(s.orelse), env, nxt, kr, kc)
            return _chain(eff, ("if", c, a, b))
        if isinstance(s, ast.For):
            if s.orelse:
                _fail("for/else", s)
            eff = []
            it = self.ev(s.iter, env, eff)
            if it[0] in ("tuple", "list") and len(it[1]) <= 8:
                # a loop over a literal tuple / list (its items may be any values): unroll
                unrolled = [(s.target, item) for item in it[1]]
                return _chain(eff, self._unroll(unrolled, list(s.body), rest, env, kf, kr, kc))
            e2 = dict(env)
            lv = ("loopvar", _u(s.target), id(s))
            bound = self.loop_binder(s, it) if self.loop_binder else None
            if bound is not None:
                e2.update(bound)
            else:
                self._bind_target(s.target, lv, e2)
            body = self.run(list(s.body), e2, lambda _e: ("end",), kr)
            # names assigned in the body are unknown afterwards
            e3 = dict(env)
            for n in ast.walk(s):
                if isinstance(n, ast.Name) and isinstance(n.ctx, ast.Store):
                    e3[n.id] = ("afterloop", n.id, id(s))
            eff.append(("for", it, _target_names(s.target), body, lv))
            return _chain(eff, nxt(e3))
        _fail("unsupported statement", s)

    def _unroll(self, items, body, rest, env, kf, kr, kc):
        if not items:
            return self.run(rest, env, kf, kr, kc)
        (tgt, item), more = items[0], items[1:]
        e2 = dict(env)
        self._bind_target(tgt, item, e2)
        again = lambda e3: self._unroll(more, body, rest, e3, kf, kr, kc)
        return self.run(body, e2, again, kr, again)

    def ev_quiet(self, e, env):
        """value of an expression whose calls are not traced (exception constructors, messages)"""
        try:
            return self.ev(e, env, [])
        except Unsupported:
            return ("opaque", _u(e))

    def run_function(self, fn, env):
        return self.run(_body(fn), env, lambda _e: ("ret", NONE), lambda v: ("ret", v))


def _target_names(t):
    if isinstance(t, ast.Name):
        return t.id
    if isinstance(t, (ast.Tuple, ast.List)):
        return tuple(_target_names(x) for x in t.elts)
    _fail("loop target", t)


def _chain(eff, node):
    for e in reversed(eff):
        node = ("eff", e, node)
    return node


def _body(fn):
    return list(fn.body)


def is_boolish(c):
    return c[0] in ("cmp", "not", "and", "or") or c in (TRUE, FALSE) or \
        (c[0] == "call" and show(c[1]) in ("os.path.isfile", "os.path.exists", "os.path.isdir", "isinstance", "hasattr")) \
        or c[0] in ("flag", "check")


def simplify_ite(c, a, b):
    if a == b:
        return a
    if a == TRUE and b == FALSE and is_boolish(c):
        return c
    if a == FALSE and b == TRUE and is_boolish(c):
        return mk_not(c)
    return ("ite", c, a, b)


# ------------------------------------------------------------------------------------------------
# walking execution trees

NEUTRAL_CALLS = {"pd.Timestamp.now", "log.warn", "log.warning", "log.info", "log.debug", "os.path.join",
                 "os.path.exists", "os.makedirs", "str", "np.asarray", "list", "set", "len", "warn", "warnings.warn"}


def is_neutral(eff, extra=()):
    if eff[0] == "call":
        n = show(eff[1])
        return n in NEUTRAL_CALLS or n in extra
    return False


def collapse(node):
    """merge branches that only differ in the value they return into one conditional value"""
    if node[0] == "eff":
        return ("eff", node[1], collapse(node[2]))
    if node[0] == "if":
        a, b = collapse(node[2]), collapse(node[3])
        if a[0] == "ret" and b[0] == "ret":
            return ("ret", simplify_ite(node[1], a[1], b[1]))
        return ("if", node[1], a, b)
    return node


def leaves(node, path=()):
    """all (effects, conditions, terminal) paths of a tree"""
    if node[0] == "eff":
        for e, c, t in leaves(node[2], path):
            yield [node[1]] + e, c, t
    elif node[0] == "if":
        for e, c, t in leaves(node[2], path):
            yield e, [(node[1], True)] + c, t
        for e, c, t in leaves(node[3], path):
            yield e, [(node[1], False)] + c, t
    else:
        yield [], [], node


def straight(node, what, neutral=()):
    """a tree without branching -> (effects without the neutral ones, terminal)"""
    effs = []
    while node[0] == "eff":
        if not is_neutral(node[1], neutral):
            effs.append(node[1])
        node = node[2]
    if node[0] == "if":
        _fail("%s: unexpected branching on %s" % (what, show(node[1])))
    return effs, node


def fn_of(term):
    return show(term[1]) if term[0] == "call" else None


def kwget(term, sig, what):
    """arguments of a call term bound against parameter names"""
    out = {}
    if len(term[2]) > len(sig):
        _fail("%s: too many positional arguments" % what, term)
    for n, a in zip(sig, term[2]):
        out[n] = a
    for n, v in term[3]:
        if n not in sig or n in out:
            _fail("%s: keyword %s" % (what, n), term)
        out[n] = v
    return out


# ------------------------------------------------------------------------------------------------
# Orchestrator._iter

def _iter_facts(orch):
    ctx = Ctx(orch, "Orchestrator", primitives={"_iter", "fit", "predict", "fit_predict", "_predict_proba_one",
                                                "_print_progress"})
    ex = Exec(ctx)
    fn = ctx.method("_iter")
    if _params(fn, True)[0]:
        _fail("_iter signature", fn)
    node = ex.run_function(fn, {"self": ("self",)})
    nest, loopvars, clones, yields, split = [], {}, [], [], []
    start = [None]

    def walk(node, depth):
        effs, term = straight(node, "_iter")            # loop bodies of _iter do not branch
        if term[0] not in ("ret", "end"):
            _fail("_iter: unexpected control flow")
        for e in effs:
            if e[0] in ("setattr", "augattr") and e[1] == ("self",) and e[2].endswith("_counter"):
                continue                                         # progress display only
            if e[0] == "call":
                n = fn_of(e)
                if n == "clone":
                    clones.append((depth, e))
                elif n == "self.cv.split":
                    split.append(e)
                elif not (n in ("zip", "enumerate") or (e[1][0] == "attr" and e[1][2] == "load" and not e[2] and not e[3])):
                    _fail("_iter: unexpected call", e)
                continue
            if e[0] == "for":
                it, tgt, body, lv = e[1], e[2], e[3], e[4]
                n = fn_of(it)
                if n == "zip" and [show(a) for a in it[2]] == ["self.tasks", "self.datasets"] and not it[3] \
                        and isinstance(tgt, tuple) and len(tgt) == 2:
                    kind = "data"
                elif show(it) == "self.strategies" and isinstance(tgt, str):
                    kind = "strat"
                elif n == "enumerate":
                    b = kwget(it, ["iterable", "start"], "enumerate")
                    st = b.get("start", C(0))
                    if st[0] != "const" or not isinstance(st[1], int) or isinstance(st[1], bool):
                        _fail("_iter: enumerate start", it)
                    start[0] = st[1]
                    loopvars["split"] = b.get("iterable")
                    if not (isinstance(tgt, tuple) and len(tgt) == 2 and isinstance(tgt[1], tuple) and len(tgt[1]) == 2):
                        _fail("_iter: target of the fold loop must be (fold, (train, test))")
                    kind = "fold"
                else:
                    _fail("_iter: unknown loop over", it)
                if kind in nest:
                    _fail("_iter: two %s loops" % kind)
                nest.append(kind)
                loopvars[kind] = (lv, depth + 1)
                walk(body, depth + 1)
                continue
            if e[0] == "yield":
                yields.append((depth, list(nest), e[1]))
                continue
            _fail("_iter: unexpected effect", e)

    walk(node, 0)
    if len(yields) != 1 or yields[0][1] not in (["data", "strat", "fold"], ["strat", "data", "fold"]) or yields[0][0] != 3:
        _fail("_iter: exactly one yield, inside the three loops with the folds innermost, expected")
    rec = yields[0][2]
    if rec[0] != "tuple" or len(rec[1]) != 7:
        _fail("_iter: must yield (task, dataset, data, strategy, cv_fold, train_idx, test_idx)")
    task, dataset, data, strategy, fold, tr, te = rec[1]
    zlv, slv, flv = loopvars["data"][0], loopvars["strat"][0], loopvars["fold"][0]
    if [task, dataset] != [("proj", zlv, 0, 2), ("proj", zlv, 1, 2)]:
        _fail("_iter: task / dataset are not the pair of zip(self.tasks, self.datasets)")
    if data != ("call", ("attr", dataset, "load"), (), ()):
        _fail("_iter: data is not dataset.load()", data)
    pair = ("proj", flv, 1, 2)
    if [fold, tr, te] != [("proj", flv, 0, 2), ("proj", pair, 0, 2), ("proj", pair, 1, 2)]:
        _fail("_iter: (cv_fold, (train_idx, test_idx)) are not the components of enumerate(...)")
    want_split = ("call", ("attr", ("attr", ("self",), "cv"), "split"), (data, ("sub", data, ("attr", task, "target"))), ())
    if loopvars["split"] != want_split:
        _fail("_iter: the folds are not self.cv.split(data, data[task.target])", loopvars["split"])
    # the strategy handed out: a clone of the strategy-loop variable, made inside the fold loop
    if strategy == slv:
        clone_per_fold = False
    elif strategy == ("call", ("global", "clone"), (slv,), ()):
        clone_per_fold = [d for d, _ in clones] == [loopvars["fold"][1]]
    else:
        _fail("_iter: the strategy handed out is neither the loop variable nor clone(<it>)", strategy)
    return {"nest": yields[0][1][:2], "start": start[0], "clone_per_fold": clone_per_fold,
            "roles": ["task", "dataset", "data", "strategy", "cv_fold", "train_idx", "test_idx"]}


# ------------------------------------------------------------------------------------------------
# Orchestrator.fit_predict

def _fp_hook(roles):
    """symbolic reading of the loop body's values"""
    strategy, dataset, task, data, fold = ("role", "strategy"), ("role", "dataset"), ("role", "task"), ("role", "data"), ("role", "cv_fold")
    sname, dname = ("attr", strategy, "name"), ("attr", dataset, "name")

    def hook(t):
        k = t[0]
        if k == "sub" and t[1] == ("attr", data, "iloc") and t[2][0] == "idx":
            return ("rows", t[2][1])
        if k == "sub" and t[1][0] == "attr" and t[1][2] == "loc" and t[1][1][0] == "rows" \
                and t[2] == ("tuple", (SLICE_ALL, ("attr", task, "target"))):
            return ("ytrue", t[1][1][1])
        if k == "call":
            n = fn_of(t)
            if n == "pd.Timestamp.now" and not t[2] and not t[3]:
                return ("time",)
            if t[1] == ("attr", ("attr", ("self",), "results"), "check_predictions_exist"):
                b = kwget(t, KEYSIG, "check_predictions_exist")
                part = b.get("train_or_test")
                if [b.get(x) for x in KEYSIG[:3]] != [sname, dname, fold] or part not in (C("train"), C("test")):
                    _fail("check_predictions_exist is not asked about (strategy.name, dataset.name, cv_fold, 'train'|'test')", t)
                item = ITEM[("csv", part[1])]
                return ("traced", ("checkcall", item), ("check", item))
            if t[1] == ("attr", ("attr", ("self",), "results"), "check_fitted_strategy_exists"):
                b = kwget(t, KEYSIG[:3], "check_fitted_strategy_exists")
                if [b.get(x) for x in KEYSIG[:3]] != [sname, dname, fold]:
                    _fail("check_fitted_strategy_exists is not asked about (strategy.name, dataset.name, cv_fold)", t)
                return ("traced", ("checkcall", "IFit"), ("check", "IFit"))
            if t[1] == ("attr", strategy, "predict"):
                if len(t[2]) != 1 or t[3] or t[2][0][0] != "rows":
                    _fail("strategy.predict is not called on a part of the fold", t)
                return ("traced", ("predict", t[2][0][1]), ("pred", t[2][0][1]))
            if n == "self._predict_proba_one":
                return ("traced", ("neutral",), ("proba",))     # y_proba is outside the model
        return t
    return hook, sname, dname


def _cond(c, what):
    k = c[0]
    if k == "flag":
        return FLAGS[c[1]]
    if k == "check":
        return "(%s hdd (tkey t %s) st)" % ("gen_has_fit" if c[1] == "IFit" else "gen_has_pred", c[1])
    if k == "not":
        return "(negb %s)" % _cond(c[1], what)
    if k in ("and", "or"):
        return "(" + (" && " if k == "and" else " || ").join(_cond(x, what) for x in c[1]) + ")"
    if k == "const" and isinstance(c[1], bool):
        return "true" if c[1] else "false"
    _fail("%s: condition is not and/or/not over the flags and the existence checks" % what, c)


def _fit_predict_facts(orch, roles):
    hook, sname, dname = _fp_hook(roles)
    ctx = Ctx(orch, "Orchestrator", primitives={"_iter", "fit", "predict", "fit_predict", "_predict_proba_one",
                                                "_print_progress"}, hook=hook)
    def binder(stmt, it):
        if show(it) != "self._iter()":
            return None
        names = _target_names(stmt.target)
        if not (isinstance(names, tuple) and len(names) == len(roles) and all(isinstance(n, str) for n in names)):
            _fail("fit_predict: the loop must unpack the %d values _iter yields" % len(roles), stmt)
        return {n: ("idx", "ITrain") if r == "train_idx" else ("idx", "ITest") if r == "test_idx" else ("role", r)
                for n, r in zip(names, roles)}

    ex = Exec(ctx, binder)
    fn = ctx.method("fit_predict")
    params, _ = _params(fn, True)
    if any(f not in params for f in FLAGS):
        _fail("fit_predict signature %s" % params, fn)
    env = {"self": ("self",)}
    for p in params:
        env[p] = ("flag", p) if p in FLAGS else ("param", p)
    node = ex.run_function(fn, env)
    # --- top level: (neutral)*, if <flags>: raise ValueError, the loop, results.save(), end
    neutral = {"self._print_progress"}

    def top(node, cond_path):
        while node[0] == "eff" and is_neutral(node[1], neutral):
            node = node[2]
        return node
    node = top(node, [])
    if node[0] != "if":
        _fail("fit_predict must start with the validation of the flags")
    c, a, b = node[1], top(node[2], []), top(node[3], [])
    if a[0] == "raise":
        rejects, rest = c, b
    elif b[0] == "raise":
        rejects, rest = mk_not(c), a
    else:
        _fail("fit_predict: the flag validation must raise")
    bad = a if a[0] == "raise" else b
    if not (bad[1][0] == "call" and show(bad[1][1]) == "ValueError"):
        _fail("fit_predict: the flag validation must raise ValueError", bad[1])
    rest = top(rest, [])
    if not (rest[0] == "eff" and rest[1][0] == "call" and show(rest[1][1]) == "self._iter"):
        _fail("fit_predict: the loop must run over self._iter()")
    rest = rest[2]
    if not (rest[0] == "eff" and rest[1][0] == "for" and show(rest[1][1]) == "self._iter()"):
        _fail("fit_predict: the loop over self._iter() must follow the flag validation")
    loop = rest[1]
    after = top(rest[2], [])
    if not (after[0] == "eff" and after[1][0] == "call" and show(after[1]) == "self.results.save()"):
        _fail("fit_predict: self.results.save() must be the statement after the loop")
    fin = top(after[2], [])
    if fin[0] != "ret":
        _fail("fit_predict: nothing may follow self.results.save()")
    body = loop[3]
    fold = ("role", "cv_fold")
    strategy = ("role", "strategy")

    def emit(node, acted, pending):
        """tree -> Gallina term of type list op"""
        if node[0] == "if":
            if pending:
                _fail("a prediction is computed but its record is stored conditionally")
            return "(if %s\n   then %s\n   else %s)" % (_cond(node[1], "fit_predict"), emit(node[2], acted, None),
                                                        emit(node[3], acted, None))
        if node[0] in ("cont", "end"):
            if pending:
                _fail("a prediction on the %s part is computed but never stored" % pending)
            return "[]"
        if node[0] != "eff":
            _fail("fit_predict: unexpected control flow in the loop body (%s)" % node[0])
        e, nxt = node[1], node[2]
        if e == ("neutral",) or is_neutral(e, neutral):
            return emit(nxt, acted, pending)
        if e[0] == "checkcall":
            if acted:
                _fail("existence check of %s evaluated after the iteration has already fitted / written" % e[1])
            return emit(nxt, acted, pending)
        if e[0] == "predict":
            if pending:
                _fail("two predictions without storing the first")
            return emit(nxt, True, e[1])
        if e[0] == "call":
            f = e[1]
            if f == ("attr", ("attr", ("self",), "results"), "_append_key"):
                if list(e[2]) != [sname, dname] or e[3]:
                    _fail("_append_key is not given (strategy.name, dataset.name)", e)
                return "[OReg t] ++ " + emit(nxt, True, pending)
            if f == ("attr", strategy, "fit"):
                if e[3] or list(e[2]) != [("role", "task"), ("rows", "ITrain")]:
                    _fail("strategy.fit is not called as fit(task, <the fold's training instances>)", e)
                if pending:
                    _fail("fit between a prediction and its record")
                return "[OFit t] ++ " + emit(nxt, True, pending)
            if f == ("attr", ("attr", ("self",), "results"), "save_fitted_strategy"):
                b = kwget(e, ["strategy", "dataset_name", "cv_fold"], "save_fitted_strategy")
                if [b.get(k) for k in ("strategy", "dataset_name", "cv_fold")] != [strategy, dname, fold]:
                    _fail("save_fitted_strategy is not given (strategy, dataset.name, cv_fold)", e)
                if pending:
                    _fail("save_fitted_strategy between a prediction and its record")
                return "[OSave t] ++ " + emit(nxt, True, pending)
            if f == ("attr", ("attr", ("self",), "results"), "save_predictions"):
                sig = ["strategy_name", "dataset_name", "y_true", "y_pred", "y_proba", "index", "cv_fold",
                       "train_or_test", "fit_estimator_start_time", "fit_estimator_end_time",
                       "predict_estimator_start_time", "predict_estimator_end_time"]
                b = kwget(e, sig, "save_predictions")
                part = b.get("train_or_test")
                if part not in (C("train"), C("test")):
                    _fail("save_predictions: train_or_test must be the literal 'train' or 'test'", e)
                item = ITEM[("csv", part[1])]
                if [b.get(k) for k in ("strategy_name", "dataset_name", "cv_fold")] != [sname, dname, fold]:
                    _fail("save_predictions is not given (strategy.name, dataset.name, cv_fold)", e)
                if b.get("index") != ("idx", item):
                    _fail("the record stored as %r does not carry the positions of that part" % part[1], e)
                if b.get("y_true") != ("ytrue", item):
                    _fail("the record stored as %r: y_true is not the true values of that part" % part[1], e)
                if b.get("y_pred") != ("pred", item) or pending != item:
                    _fail("the record stored as %r: y_pred is not the prediction just made on that part" % part[1], e)
                return "[OPred t %s] ++ " % item + emit(nxt, True, None)
        _fail("fit_predict: unexpected operation in the loop body", e)

    plan = emit(body, False, None)
    return {"rejects": _cond(rejects, "flag validation"), "plan": plan}


# ------------------------------------------------------------------------------------------------
# results.py / base.py

def _results_hook(t):
    if t[0] == "call":
        if t[1] == ("attr", ("self",), "_generate_key"):
            b = kwget(t, KEYSIG, "_generate_key")
            if sorted(b) != sorted(KEYSIG):
                _fail("_generate_key needs all four fields", t)
            return ("genkey", tuple(b[k] for k in KEYSIG))
        if fn_of(t) == "np.asarray" and len(t[2]) == 1 and not t[3]:
            return t[2][0]                       # array conversion: the same values
    return t


RES_PRIMS = {"_generate_key", "_append_key", "_iter", "save", "save_predictions", "load_predictions",
             "check_predictions_exist", "check_fitted_strategy_exists", "save_fitted_strategy",
             "load_fitted_strategy"}


def _key(term, suffix, fields, what):
    """the file / dict key addressed by `term` must be the one of `fields` with this suffix"""
    want = ("genkey", tuple(fields))
    if suffix is not None:
        want = ("add", want, C("." + suffix))
    if term != want:
        _fail("%s addresses %s, expected %s" % (what, show(term), show(want)))


def _value_fn(ex, ctx, name, sig, what):
    fn = ctx.method(name)
    names, _ = _params(fn, True)
    if names != sig:
        _fail("%s signature %s" % (what, names), fn)
    env = {"self": ("self",)}
    env.update({n: ("param", n) for n in names})
    return ex.run_function(fn, env)


def _P(n):
    return ("param", n)


def _wrapper_sig(base):
    ctx = Ctx(base, "_PredictionsWrapper")
    fn = ctx.method("__init__")
    sig, _ = _params(fn, True)
    node = Exec(ctx).run_function(fn, dict({"self": ("self",)}, **{n: _P(n) for n in sig}))
    kept = {}
    for effs, _c, _t in leaves(node):
        for e in effs:
            if e[0] == "setattr" and e[1] == ("self",):
                kept.setdefault(e[2], set()).add(e[3])
    for f in ("strategy_name", "dataset_name", "index", "y_true", "y_pred"):
        if kept.get(f) != {_P(f)} or f not in sig:
            _fail("_PredictionsWrapper does not keep its argument %s as attribute %s" % (f, f), fn)
    return sig


def _uses_all_fields(ctx, what):
    """the key function's result depends on each of its four parameters"""
    fn = ctx.method("_generate_key")
    names, _ = _params(fn, True)
    if names != KEYSIG:
        _fail("%s signature" % what, fn)
    ex = Exec(Ctx(ctx.mod, None))                 # no hook: _generate_key itself is executed
    env = {"self": ("self",)}
    env.update({n: _P(n) for n in names})
    node = ex.run_function(fn, env)
    for effs, _c, term in leaves(node):
        if term[0] != "ret":
            _fail("%s: must return the key on every path" % what, fn)
        flat = repr(term[1])
        for n in KEYSIG:
            if repr(_P(n)) not in flat:
                _fail("%s: the returned key does not depend on %s" % (what, n), fn)


def _isfile_of(node, what):
    effs, term = straight(collapse(node), what, neutral={"os.path.isfile"})
    if effs or term[0] != "ret":
        _fail("%s: must only answer whether the file exists" % what)
    v = term[1]
    if not (v[0] == "call" and fn_of(v) == "os.path.isfile" and len(v[2]) == 1 and not v[3]):
        _fail("%s: must answer os.path.isfile(<file>)" % what, v)
    return v[2][0]


def _hdd_facts(res, wsig):
    ctx = Ctx(res, "HDDResults", primitives=RES_PRIMS, hook=_results_hook)
    ex = Exec(ctx)
    f = {}
    own = [_P(k) for k in KEYSIG]
    # existence checks
    _key(_isfile_of(_value_fn(ex, ctx, "check_predictions_exist", KEYSIG, "check_predictions_exist"),
                    "check_predictions_exist"), "csv", own, "check_predictions_exist")
    _key(_isfile_of(_value_fn(ex, ctx, "check_fitted_strategy_exists", KEYSIG[:3], "check_fitted_strategy_exists"),
                    "check_fitted_strategy_exists"), "pickle", own[:3] + [C("train")], "check_fitted_strategy_exists")
    f["has_pred"] = f["has_fit"] = "fhas k (sfiles st)"
    # save_predictions: frame -> file, then register
    fn = ctx.method("save_predictions")
    sig, _ = _params(fn, True)
    node = ex.run_function(fn, dict({"self": ("self",)}, **{n: _P(n) for n in sig}))
    effs, term = straight(node, "HDDResults.save_predictions", neutral={"pd.DataFrame"})
    if term[0] != "ret" or len(effs) != 2:
        _fail("HDDResults.save_predictions: write the frame, then _append_key expected, found %s" % [show(e) for e in effs])
    w, a = effs
    if not (w[0] == "call" and w[1][0] == "attr" and w[1][2] == "to_csv" and fn_of(w[1][1]) == "pd.DataFrame"):
        _fail("HDDResults.save_predictions: the first operation must write a DataFrame with to_csv", w)
    frame = w[1][1]
    if len(frame[2]) != 1 or frame[3] or frame[2][0][0] != "dict":
        _fail("save_predictions: pd.DataFrame({...}) expected", frame)
    b = kwget(w, ["path_or_buf", "sep", "na_rep", "float_format", "columns", "header", "index"], "to_csv")
    if "float_format" in b:
        _fail("save_predictions: to_csv(float_format=...) loses digits")
    if set(b) - {"path_or_buf", "header", "index"}:
        _fail("save_predictions: to_csv keywords %s" % sorted(b))
    _key(b.get("path_or_buf"), "csv", own, "HDDResults.save_predictions")
    cols = {}
    for k, v in frame[2][0][1]:
        if k[0] != "const":
            _fail("save_predictions: DataFrame column name", k)
        cols[k[1]] = v
    if a != ("call", ("attr", ("self",), "_append_key"), (own[0], own[1]), ()):
        _fail("HDDResults.save_predictions must end with self._append_key(strategy_name, dataset_name)", a)
    f["cols"] = {c: (v[1] if v[0] == "param" else None) for c, v in cols.items()}
    # load_predictions: for (s, d) in registry: read the file, yield the record
    fn = ctx.method("load_predictions")
    if _params(fn, True)[0] != ["cv_fold", "train_or_test"]:
        _fail("load_predictions signature", fn)
    node = ex.run_function(fn, {"self": ("self",), "cv_fold": _P("cv_fold"), "train_or_test": _P("train_or_test")})
    effs, term = straight(node, "HDDResults.load_predictions")
    loops = [e for e in effs if e[0] == "for"]
    others = [e for e in effs if e[0] != "for" and show(e) != "self._iter()"]
    if len(loops) != 1 or others or show(loops[0][1]) != "self._iter()" or not (
            isinstance(loops[0][2], tuple) and len(loops[0][2]) == 2):
        _fail("load_predictions: one loop `for strategy, dataset in self._iter()` expected")
    lv = loops[0][4]
    s_lv, d_lv = ("proj", lv, 0, 2), ("proj", lv, 1, 2)
    beffs, bterm = straight(loops[0][3], "load_predictions loop body", neutral={"pd.read_csv", "_PredictionsWrapper"})
    if len(beffs) != 1 or beffs[0][0] != "yield" or bterm[0] != "end":
        _fail("load_predictions: the loop body must read one file and yield one record")
    rec = beffs[0][1]
    if fn_of(rec) != "_PredictionsWrapper":
        _fail("load_predictions must yield a _PredictionsWrapper", rec)
    y = kwget(rec, wsig, "_PredictionsWrapper")
    if [y.get("strategy_name"), y.get("dataset_name")] != [s_lv, d_lv]:
        _fail("load_predictions: record not labelled with the registry names")
    back, frames = {}, set()
    for k in ("index", "y_true", "y_pred"):
        v = y.get(k)
        ok = v and v[0] == "attr" and v[2] == "values" and v[1][0] == "sub" and v[1][1][0] == "attr" \
            and v[1][1][2] == "loc" and v[1][2][0] == "tuple" and len(v[1][2][1]) == 2 \
            and v[1][2][1][0] == SLICE_ALL and v[1][2][1][1][0] == "const"
        if not ok:
            _fail("load_predictions: %s is not a whole column of the file" % k, v)
        back[k] = v[1][2][1][1][1]
        frames.add(v[1][1][1])
    if len(frames) != 1:
        _fail("load_predictions: the three fields come from different frames")
    fr = frames.pop()
    if fn_of(fr) != "pd.read_csv":
        _fail("load_predictions: the record is not read with pd.read_csv", fr)
    rb = kwget(fr, ["filepath_or_buffer", "sep", "delimiter", "header", "float_precision"], "read_csv")
    if set(rb) - {"filepath_or_buffer", "header", "float_precision"} or rb.get("header", C(0)) != C(0):
        _fail("load_predictions: read_csv keywords", fr)
    _key(rb.get("filepath_or_buffer"), "csv", [s_lv, d_lv, _P("cv_fold"), _P("train_or_test")], "load_predictions")
    f["back"] = back
    f["round_trip"] = rb.get("float_precision") == C("round_trip")
    # fitted strategies
    node = _value_fn(ex, ctx, "save_fitted_strategy", ["strategy", "dataset_name", "cv_fold"], "save_fitted_strategy")
    effs, term = straight(node, "HDDResults.save_fitted_strategy")
    sn = ("attr", _P("strategy"), "name")
    if len(effs) != 2 or term[0] != "ret" or not (
            effs[0][0] == "call" and effs[0][1] == ("attr", _P("strategy"), "save") and len(effs[0][2]) == 1 and not effs[0][3]):
        _fail("save_fitted_strategy: strategy.save(<file>), then _append_key expected")
    _key(effs[0][2][0], "pickle", [sn, _P("dataset_name"), _P("cv_fold"), C("train")], "save_fitted_strategy")
    if effs[1] != ("call", ("attr", ("self",), "_append_key"), (sn, _P("dataset_name")), ()):
        _fail("HDDResults.save_fitted_strategy must end with self._append_key(strategy.name, dataset_name)", effs[1])
    _uses_all_fields(ctx, "HDDResults._generate_key")
    return f


def _ram_facts(res, wsig):
    ctx = Ctx(res, "RAMResults", primitives=RES_PRIMS, hook=_results_hook)
    ex = Exec(ctx)
    f = {}
    own = [_P(k) for k in KEYSIG]
    for meth, n in (("check_predictions_exist", 4), ("check_fitted_strategy_exists", 3)):
        fn = ctx.method(meth)
        if len(_params(fn, True)[0]) != n:
            _fail("RAMResults.%s signature" % meth, fn)
        node = ex.run_function(fn, dict({"self": ("self",)}, **{p: _P(p) for p in _params(fn, True)[0]}))
        effs, term = straight(node, "RAMResults." + meth)
        if effs or term != ("ret", FALSE):
            _fail("RAMResults.%s is not `return False`" % meth, fn)
    f["has_pred"] = f["has_fit"] = "false"
    fn = ctx.method("save_fitted_strategy")
    node = ex.run_function(fn, dict({"self": ("self",)}, **{p: _P(p) for p in _params(fn, True)[0]}))
    effs, term = straight(node, "RAMResults.save_fitted_strategy")
    if effs or term[0] != "raise" or "NotImplementedError" not in show(term[1]):
        _fail("RAMResults.save_fitted_strategy is not `raise NotImplementedError()`", fn)
    node = ex.run_function(ctx.method("save"), {"self": ("self",)})
    if straight(node, "RAMResults.save") != ([], ("ret", NONE)):
        _fail("RAMResults.save must do nothing", ctx.method("save"))
    # save_predictions
    fn = ctx.method("save_predictions")
    sig, _ = _params(fn, True)
    node = ex.run_function(fn, dict({"self": ("self",)}, **{n: _P(n) for n in sig}))
    effs, term = straight(node, "RAMResults.save_predictions", neutral={"_PredictionsWrapper"})
    if len(effs) != 2 or term[0] != "ret":
        _fail("RAMResults.save_predictions: store the record, then _append_key expected, found %s" % [show(e) for e in effs])
    st, a = effs
    if not (st[0] == "setitem" and st[1] == ("attr", ("self",), "results") and fn_of(st[3]) == "_PredictionsWrapper"):
        _fail("RAMResults.save_predictions: self.results[key] = _PredictionsWrapper(...) expected", st)
    _key(st[2], None, own, "RAMResults.save_predictions")
    y = kwget(st[3], wsig, "_PredictionsWrapper")
    if [y.get("strategy_name"), y.get("dataset_name")] != own[:2]:
        _fail("RAMResults.save_predictions: record not labelled with its own names")
    f["cols"] = {k: (y[k][1] if y.get(k, ("?",))[0] == "param" else None) for k in ("index", "y_true", "y_pred")}
    f["back"] = {"index": "index", "y_true": "y_true", "y_pred": "y_pred"}        # the same object
    if a != ("call", ("attr", ("self",), "_append_key"), (own[0], own[1]), ()):
        _fail("RAMResults.save_predictions must end with self._append_key(strategy_name, dataset_name)", a)
    # load_predictions
    fn = ctx.method("load_predictions")
    node = ex.run_function(fn, {"self": ("self",), "cv_fold": _P("cv_fold"), "train_or_test": _P("train_or_test")})
    effs, term = straight(node, "RAMResults.load_predictions")
    loops = [e for e in effs if e[0] == "for"]
    others = [e for e in effs if e[0] != "for" and show(e) != "self._iter()"]
    if len(loops) != 1 or others or show(loops[0][1]) != "self._iter()":
        _fail("RAMResults.load_predictions: one loop over self._iter() expected")
    lv = loops[0][4]
    beffs, bterm = straight(loops[0][3], "RAMResults.load_predictions loop body")
    want = ("sub", ("attr", ("self",), "results"),
            ("genkey", (("proj", lv, 0, 2), ("proj", lv, 1, 2), _P("cv_fold"), _P("train_or_test"))))
    if beffs != [("yield", want)] or bterm[0] != "end":
        _fail("RAMResults.load_predictions: must yield self.results[key] over the registry")
    _uses_all_fields(ctx, "RAMResults._generate_key")
    return f


def _append_shape(node, what):
    """tree of `if x not in self.L: self.L.append(x)` statements in any control-flow form ->
    {list attribute: appended parameter}; every append must happen exactly when the name is absent"""
    upd = {}
    per_list = {}
    for effs, conds, term in leaves(node):
        if term[0] != "ret":
            _fail("%s: unexpected control flow" % what)
        pos = {(c[2], c[3]): (c[1] == "notin") == pol for c, pol in conds if c[0] == "cmp" and c[1] in ("in", "notin")}
        if len(pos) != len(conds):
            _fail("%s: conditions must be membership tests of the two name lists" % what)
        did = {}
        for e in effs:
            if not (e[0] == "call" and e[1][0] == "attr" and e[1][2] == "append" and len(e[2]) == 1 and not e[3]
                    and e[1][1][0] == "attr" and e[1][1][1] == ("self",) and e[2][0][0] == "param"):
                _fail("%s: only self.<names>.append(<name>) may happen" % what, e)
            lst, par = e[1][1][2], e[2][0][1]
            if upd.setdefault(lst, par) != par or lst in did:
                _fail("%s: %s receives different names / twice" % (what, lst))
            did[lst] = True
        for (x, l), absent in pos.items():
            if not (l[0] == "attr" and l[1] == ("self",) and x[0] == "param"):
                _fail("%s: membership test of something else than a name in self.<names>" % what)
            per_list.setdefault(l[2], set()).add((x[1], absent, l[2] in did))
    for lst, obs in per_list.items():
        for par, absent, appended in obs:
            if par != upd.get(lst) or absent != appended:
                _fail("%s: self.%s must be appended to exactly when the name is not in it" % (what, lst))
    for lst in upd:
        if lst not in per_list:
            _fail("%s: self.%s is appended to unconditionally" % (what, lst))
    return upd


def _base_facts(base):
    f = {}
    ctx = Ctx(base, "BaseResults", primitives={"_iter", "_append_key", "save", "_generate_key"})
    ex = Exec(ctx)
    node = _value_fn(ex, ctx, "_append_key", ["strategy_name", "dataset_name"], "_append_key")
    upd = _append_shape(node, "_append_key")
    if sorted(upd) != ["dataset_names", "strategy_names"]:
        _fail("_append_key must maintain strategy_names and dataset_names, found %s" % sorted(upd))
    f["append"] = {"self." + k: v for k, v in upd.items()}
    # registry iteration
    node = ex.run_function(ctx.method("_iter"), {"self": ("self",)})
    effs, term = straight(node, "BaseResults._iter")
    order = []
    cur = effs
    lvs = {}
    while True:
        loops = [e for e in cur if e[0] == "for"]
        if len(loops) == 1 and len(cur) == 1 and show(loops[0][1]) in ("self.strategy_names", "self.dataset_names") \
                and isinstance(loops[0][2], str):
            order.append(show(loops[0][1]))
            lvs[show(loops[0][1])] = loops[0][4]
            cur, t2 = straight(loops[0][3], "BaseResults._iter")
            continue
        break
    if sorted(order) != ["self.dataset_names", "self.strategy_names"] or \
            cur != [("yield", ("tuple", (lvs["self.strategy_names"], lvs["self.dataset_names"])))]:
        _fail("BaseResults._iter: nested loops over the two name lists yielding (strategy, dataset)")
    f["reg_outer"] = "s" if order[0] == "self.strategy_names" else "d"
    # HDDBaseResults.save
    ctx2 = Ctx(base, "HDDBaseResults", primitives={"_iter", "_append_key", "save", "_generate_key", "_validate_path"})
    ex2 = Exec(ctx2)
    node = ex2.run_function(ctx2.method("save"), {"self": ("self",)})
    while node[0] == "eff" and is_neutral(node[1]):
        node = node[2]
    mfile = ("call", ("attr", ("attr", ("global", "os"), "path"), "join"), (("attr", ("self",), "path"), C("results.pickle")), ())
    isf = ("call", ("attr", ("attr", ("global", "os"), "path"), "isfile"), (mfile,), ())
    while node[0] == "eff" and node[1] == isf:
        node = node[2]
    if node[0] != "if" or node[1] not in (isf, mfile and mk_not(isf)):
        _fail("HDDBaseResults.save: must branch on os.path.isfile(<path>/results.pickle)")
    exists, fresh = (node[2], node[3]) if node[1] == isf else (node[3], node[2])
    dump = ("call", ("global", "dump"), (("self",), mfile), ())
    if straight(fresh, "save (no master file)") != ([dump], ("ret", NONE)):
        _fail("HDDBaseResults.save: without a master file it must only dump(self, file)")
    effs, term = straight(exists, "save (merge)")
    ld = ("call", ("global", "load"), (mfile,), ())
    if term != ("ret", NONE) or not effs or effs[0] != ld or effs[-1] != dump:
        _fail("HDDBaseResults.save: with a master file: load it, merge the names, dump(self, file)")
    merge = {}
    for e in effs[1:-1]:
        if e[0] != "setattr" or e[1] != ("self",) or e[2] not in ("strategy_names", "dataset_names") or e[2] in merge:
            _fail("HDDBaseResults.save: unexpected operation while merging", e)
        own, theirs = ("attr", ("self",), e[2]), ("attr", ld, e[2])
        v = e[3]
        if not (v[0] == "call" and v[1] == ("global", "list") and len(v[2]) == 1 and not v[3]
                and v[2][0][0] == "call" and v[2][0][1] == ("global", "set") and len(v[2][0][2]) == 1
                and v[2][0][2][0][0] == "add" and {v[2][0][2][0][1], v[2][0][2][0][2]} == {own, theirs}):
            _fail("HDDBaseResults.save: self.%s must become the duplicate-free union list(set(own + master's))" % e[2], v)
        merge[e[2]] = "own_first" if v[2][0][2][0][1] == own else "master_first"
    if sorted(merge) != ["dataset_names", "strategy_names"]:
        _fail("HDDBaseResults.save: both name lists must be merged")
    f["merge"] = merge
    return f


# ------------------------------------------------------------------------------------------------
# emission

HEADER = """(* GENERATED by /verif/translator/orch_c19.py from %s, %s, %s
   -- do not edit, never committed *)
From Coq Require Import ZArith List Bool.
Require Import SkV.Lib.Base SkV.Lib.ZRange SkV.C19.Model.
Import ListNotations.
Open Scope Z_scope.

"""


def _cols_term(cols, args):
    for c in ("index", "y_true", "y_pred"):
        if cols.get(c) not in args:
            _fail("column %s does not receive one of the arguments %s" % (c, args))
    return "Pred %s %s %s" % tuple("a_" + cols[c] for c in ("index", "y_true", "y_pred"))


def _back_term(back):
    for k in ("index", "y_true", "y_pred"):
        if back.get(k) not in ("index", "y_true", "y_pred"):
            _fail("field %s is read from column %r" % (k, back.get(k)))
    return "(%s, %s, %s)" % tuple("c_" + back[k] for k in ("index", "y_true", "y_pred"))


def translate(repo):
    mods = {}
    for rel in (ORCH, RES, BASE):
        with open(os.path.join(repo, rel)) as fh:
            mods[rel] = ast.parse(fh.read())
    it = _iter_facts(mods[ORCH])
    fp = _fit_predict_facts(mods[ORCH], it["roles"])
    wsig = _wrapper_sig(mods[BASE])
    hdd = _hdd_facts(mods[RES], wsig)
    ram = _ram_facts(mods[RES], wsig)
    base = _base_facts(mods[BASE])
    o = [HEADER % (ORCH, RES, BASE)]
    o.append("(* Orchestrator.fit_predict: `if <this>: raise ValueError` before anything else *)\n"
             "Definition gen_rejects (fl : flags) : bool := %s.\n\n" % fp["rejects"])
    o.append("(* check_predictions_exist / check_fitted_strategy_exists of HDDResults and RAMResults *)\n"
             "Definition gen_has_pred (hdd : bool) (k : key) (st : store) : bool :=\n"
             "  if hdd then %s else %s.\n"
             "Definition gen_has_fit (hdd : bool) (k : key) (st : store) : bool :=\n"
             "  if hdd then %s else %s.\n\n" % (hdd["has_pred"], ram["has_pred"], hdd["has_fit"], ram["has_fit"]))
    o.append("(* the body of the loop of fit_predict as executed: a decision tree over the flags and the\n"
             "   existence checks; the leaves list the operations of that path in execution order *)\n"
             "Definition gen_plan_task (hdd : bool) (fl : flags) (st : store) (t : task) : list op :=\n"
             "  %s.\n\n" % fp["plan"])
    inner = ("map (fun ff => {| ts := fst s; td := d_name d; tf := fst ff; tparam := snd s;\n"
             "                        trows := d_rows d; ttrain := fst (snd ff); ttest := snd (snd ff) |})\n"
             "          (enumerate_from %d (d_folds d))" % it["start"])
    if it["nest"] == ["data", "strat"]:
        nest = "flat_map (fun d =>\n    flat_map (fun s =>\n      %s)\n      strats)\n    data" % inner
    else:
        nest = "flat_map (fun s =>\n    flat_map (fun d =>\n      %s)\n      data)\n    strats" % inner
    o.append("(* Orchestrator._iter: the loop nest, outermost first: %s, folds; folds numbered from %d *)\n"
             "Definition gen_tasks_of (strats : list strategy) (data : list dataset) : list task :=\n  %s.\n"
             "(* the strategy handed out is clone(strategy), cloned inside the fold loop *)\n"
             "Definition gen_clone_per_fold : bool := %s.\n\n" % (
                 ", ".join(it["nest"]), it["start"], nest, "true" if it["clone_per_fold"] else "false"))
    ap = base["append"]
    o.append("(* BaseResults._append_key *)\n"
             "Definition gen_append_key (strategy_name dataset_name : Z) (st : store) : store :=\n"
             "  {| sfiles := sfiles st; master := master st;\n"
             "     snames := (if mem %s (snames st) then snames st else snames st ++ [%s]);\n"
             "     dnames := (if mem %s (dnames st) then dnames st else dnames st ++ [%s]) |}.\n\n" % (
                 ap["self.strategy_names"], ap["self.strategy_names"], ap["self.dataset_names"], ap["self.dataset_names"]))
    mg = base["merge"]

    def m(attr, own, other):
        return "merge_names (%s) %s" % (own, other) if mg[attr] == "own_first" else "merge_names %s (%s)" % (other, own)
    o.append("(* HDDBaseResults.save (no master file yet: dump; else merge both name lists, dump) and\n"
             "   RAMResults.save (nothing) *)\n"
             "Definition gen_save (hdd : bool) (st : store) : store :=\n"
             "  if hdd then\n    match master st with\n"
             "    | None => {| sfiles := sfiles st; master := Some (snames st, dnames st);\n"
             "                 snames := snames st; dnames := dnames st |}\n"
             "    | Some (ms, md) =>\n        let sn := %s in\n        let dn := %s in\n"
             "        {| sfiles := sfiles st; master := Some (sn, dn); snames := sn; dnames := dn |}\n"
             "    end\n  else st.\n\n" % (m("strategy_names", "snames st", "ms"), m("dataset_names", "dnames st", "md")))
    o.append("(* save_predictions: which column (HDD) / record field (RAM) receives which argument *)\n"
             "Definition gen_stored (hdd : bool) (a_index a_y_true a_y_pred : list Z) : content :=\n"
             "  if hdd then %s else %s.\n"
             "(* load_predictions: which stored column is returned as index, y_true, y_pred *)\n"
             "Definition gen_loaded (hdd : bool) (c : content) : option (list Z * list Z * list Z) :=\n"
             "  match c with\n  | Pred c_index c_y_true c_y_pred => Some (if hdd then %s else %s)\n"
             "  | Fit _ => None\n  end.\n"
             "(* pd.read_csv(..., float_precision=\"round_trip\") in HDDResults.load_predictions *)\n"
             "Definition gen_float_round_trip : bool := %s.\n\n" % (
                 _cols_term(hdd["cols"], ("index", "y_true", "y_pred")),
                 _cols_term(ram["cols"], ("index", "y_true", "y_pred")),
                 _back_term(hdd["back"]), _back_term(ram["back"]), "true" if hdd["round_trip"] else "false"))
    o.append("(* save_predictions of both stores: write the entry, then _append_key *)\n"
             "Definition gen_save_predictions (hdd : bool) (k : key) (c : content) (s d : Z) (st : store) : store :=\n"
             "  gen_append_key s d (write k c st).\n"
             "(* save_fitted_strategy: HDDResults pickles then _append_key; RAMResults raises *)\n"
             "Definition gen_save_fitted (hdd : bool) (k : key) (c : content) (s d : Z) (st : store)\n"
             "  : option store := if hdd then Some (gen_append_key s d (write k c st)) else None.\n\n")
    reg = ("flat_map (fun s => map (fun d => (s, d)) (dnames st)) (snames st)" if base["reg_outer"] == "s"
           else "flat_map (fun d => map (fun s => (s, d)) (snames st)) (dnames st)")
    o.append("(* load_predictions over BaseResults._iter: one record per registered strategy x dataset *)\n"
             "Definition gen_load (st : store) (f : Z) (it : item) : option (list (Z * Z * content)) :=\n"
             "  all_some (map (fun sd => match fget (fst sd, snd sd, f, it) (sfiles st) with\n"
             "                           | Some c => Some (fst sd, snd sd, c) | None => None end)\n"
             "                (%s)).\n" % reg)
    return {"C19/Gen.v": "".join(o)}


if __name__ == "__main__":
    import sys
    print(translate(sys.argv[1] if len(sys.argv) > 1 else "/repo")["C19/Gen.v"])
